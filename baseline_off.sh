#!/bin/bash
# Runs the repository's own test suite with the verif guard OFF (no -tags verif) and compares the
# set of passing tests with the pinned baseline (baseline_stable.json, copied from BASELINE.json).
export GOFLAGS=-mod=mod GOPROXY=off GOSUMDB=off GOTOOLCHAIN=local
HERE="$(cd "$(dirname "${BASH_SOURCE[0]}")" && pwd)"
REPO="${VERIF_REPO:-/repo}"
OUT="$(mktemp)"; trap 'rm -f "$OUT"' EXIT
for m in . contrib/gin contrib/log contrib/middleware/opentelemetry contrib/middleware/zipkintracing; do
  (cd "$REPO/$m" && go test -json -vet=off -count=1 -timeout 25m ./... ) >>"$OUT" 2>/dev/null
done
python3 - "$OUT" "$HERE/baseline_stable.json" <<'PY'
import json,sys
passed=set(); failed=set()
for l in open(sys.argv[1]):
    try: e=json.loads(l)
    except Exception: continue
    if e.get('Test') and e.get('Action') in('pass','fail'):
        (passed if e['Action']=='pass' else failed).add(e['Package']+'::'+e['Test'])
b=json.load(open(sys.argv[2]))
missing=[t for t in b['stable_pass'] if t not in passed]
newfail=[t for t in failed if t not in b['always_fail']]
print(f"baseline: {len(b['stable_pass'])} expected, {len(passed)} passed, missing={len(missing)}, unexpected failures={len(newfail)}")
for t in missing: print("MISSING", t)
for t in newfail: print("FAILED", t)
sys.exit(1 if missing or newfail else 0)
PY
