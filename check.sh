#!/bin/bash
# ./check.sh <Cxx> <quick|thorough|replay> [replay-file]
# Rebuilds the check for property <Cxx> from /repo's current working tree (hooks on: -tags verif)
# and runs it.  Exit 0: property held on everything explored; exit 1 + "VIOLATION property=<id>
# replay=<path>": violation; exit 2: the run decided nothing (inconclusive); exit 3: build failure.
set -u
ID="${1:?usage: check.sh <Cxx> <quick|thorough|replay> [file]}"
MODE="${2:-quick}"
HERE="$(cd "$(dirname "${BASH_SOURCE[0]}")" && pwd)"
export VERIF_ROOT="$HERE"
export VERIF_REPO="${VERIF_REPO:-/repo}"
export GOFLAGS=-mod=mod GOPROXY=off GOSUMDB=off GOTOOLCHAIN=local
export VERIF_SEED="${VERIF_SEED:-1}"
case "$MODE" in
  quick|thorough) export VERIF_TIER="$MODE" ;;
  replay) export VERIF_REPLAY="${3:?replay needs a file}"
          export VERIF_TIER="$(jq -r '.tier // "quick"' "$VERIF_REPLAY" 2>/dev/null || echo quick)"
          export VERIF_SEED="$(jq -r '.seed // 1' "$VERIF_REPLAY" 2>/dev/null || echo 1)" ;;
  *) echo "unknown mode $MODE" >&2; exit 3 ;;
esac
id_lc="$(echo "$ID" | tr 'A-Z' 'a-z')"
[ -d "$HERE/harness/cmd/$id_lc" ] || { echo "no check for $ID" >&2; exit 3; }

BUILD="$(mktemp -d "${TMPDIR:-/tmp}/verif-$id_lc-XXXXXX")"
export VERIF_BUILD="$BUILD"
trap 'rm -rf "$BUILD"' EXIT

# per-check build flags: the race detector is part of the monitor where DESIGN.md says so
RACE=""
case "$ID" in
  C13|C19|C20) RACE="-race" ;;
esac
export VERIF_RACE="$RACE"
# harness go.sum = repo go.sum + harness-only deps
cd "$HERE/harness" || exit 3
if ! go build -tags verif $RACE -o "$BUILD/$id_lc" "./cmd/$id_lc" 2>"$BUILD/build.log"; then
  cat "$BUILD/build.log" >&2
  echo "BUILD-FAILED property=$ID" >&2
  exit 3
fi
export GORACE="${GORACE:-halt_on_error=0 exitcode=0 atexit_sleep_ms=0 log_path=$BUILD/race}"
"$BUILD/$id_lc" 2>"$BUILD/stderr.log" | tee "$BUILD/stdout.log"
rc=${PIPESTATUS[0]}
if [ "$rc" != 0 ] && [ "$rc" != 1 ] && ! grep -q '^INCONCLUSIVE property=' "$BUILD/stdout.log"; then
  # the monitor process itself died (panic / fatal error in the code under test outside any guard,
  # or killed): that is an observation about the real code, not a pass
  mkdir -p "$HERE/replays/$ID"
  W="$HERE/replays/$ID/process-death_seed${VERIF_SEED}_${VERIF_TIER}.txt"
  { echo "check process for $ID exited with status $rc"; echo "--- stderr tail ---"; tail -c 6000 "$BUILD/stderr.log"; echo "--- stdout tail ---"; tail -c 2000 "$BUILD/stdout.log"; } >"$W"
  tail -c 1500 "$BUILD/stderr.log" >&2
  echo "VIOLATION property=$ID replay=$W"
  echo "  class=process-death detail=the monitor process died with status $rc (see replay file)"
  exit 1
fi
[ -s "$BUILD/stderr.log" ] && [ "$rc" != 0 ] && tail -c 3000 "$BUILD/stderr.log" >&2
exit $rc
