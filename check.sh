#!/bin/bash
# ./check.sh <Cxx> <quick|thorough|replay> [replay-file]
# Rebuilds the check for property <Cxx> from /repo's current working tree (hooks on: -tags verif)
# and runs it.  Exit 0: property held on everything explored; exit 1 + "VIOLATION property=<id>
# replay=<path>": violation; exit 2: the run decided nothing (inconclusive); exit 3: build failure.
set -u
ID="${1:?usage: check.sh <Cxx> <quick|thorough|replay> [file]}"
MODE="${2:-quick}"
HERE="$(cd "$(dirname "${BASH_SOURCE[0]}")" && pwd)"
export VERIF_ROOT="$HERE"
export VERIF_REPO="${VERIF_REPO:-/repo}"
export GOFLAGS=-mod=mod GOPROXY=off GOSUMDB=off GOTOOLCHAIN=local
OUT="${VERIF_OUT:-$HERE}"
export VERIF_SEED="${VERIF_SEED:-1}"
case "$MODE" in
  quick|thorough) export VERIF_TIER="$MODE" ;;
  build) export VERIF_TIER=quick ;;
  replay) export VERIF_REPLAY="${3:?replay needs a file}"
          export VERIF_TIER="$(jq -r '.tier // "quick"' "$VERIF_REPLAY" 2>/dev/null || echo quick)"
          export VERIF_SEED="$(jq -r '.seed // 1' "$VERIF_REPLAY" 2>/dev/null || echo 1)" ;;
  *) echo "unknown mode $MODE" >&2; exit 3 ;;
esac
id_lc="$(echo "$ID" | tr 'A-Z' 'a-z')"
[ -d "$HERE/harness/cmd/$id_lc" ] || { echo "no check for $ID" >&2; exit 3; }

BUILD="$(mktemp -d "${TMPDIR:-/tmp}/verif-$id_lc-XXXXXX")"
export VERIF_BUILD="$BUILD"
trap '[ -n "${VERIF_KEEP:-}" ] && echo "kept $BUILD" >&2 || rm -rf "$BUILD"' EXIT  # VERIF_KEEP=1: debugging aid

# per-check build flags: the race detector is part of the monitor where DESIGN.md says so
RACE=""
case "$ID" in
  C13|C19|C20) RACE="-race" ;;
esac
export VERIF_RACE="$RACE"
cd "$HERE/harness" || exit 3
if [ "$VERIF_REPO" != /repo ]; then
  # a scratch copy of the repository (seeded-change trials): same harness module, the replace
  # directive redirected through an alternative go.mod; registered commands never take this path
  sed "s#=> /repo#=> $VERIF_REPO#" go.mod >"$BUILD/go.mod"
  cp go.sum "$BUILD/go.sum"
  export GOFLAGS="-mod=mod -modfile=$BUILD/go.mod"
fi

violation_file() { # $1 = class, $2 = text file with details
  mkdir -p "$OUT/replays/$ID"
  local W="$OUT/replays/$ID/$1_seed${VERIF_SEED}_${VERIF_TIER}.txt"
  cp "$2" "$W"
  echo "VIOLATION property=$ID replay=$W"
  echo "  class=$1 detail=$(head -c 300 "$2" | tr '\n' ' ')"
}

# Checks that drive tars2go-generated code: build the generator from the working tree, generate
# the hand-written IDL corpus, rebuild the struct registry from the tree, and inject both into the
# harness module through a build overlay (nothing is written into /verif/harness).
OVERLAY=""
case "$ID" in
  C01|C03|C04|C05|C06|C10|C14)
    if ! (cd "$VERIF_REPO/tars/tools/tars2go" && GOFLAGS=-mod=mod go build -o "$BUILD/tars2go" .) 2>"$BUILD/t2g-build.log"; then
      cat "$BUILD/t2g-build.log" >&2; echo "BUILD-FAILED property=$ID (tars2go)" >&2; exit 3
    fi
    mkdir -p "$BUILD/gen"
    GENARGS=()
    cp "$HERE"/idl/*.tars "$BUILD/"
    for f in "$BUILD"/*.tars; do
      # relative -outdir: the generator derives the import path of included modules from module + outdir
      if ! (cd "$BUILD" && "$BUILD/tars2go" -outdir gen -module verif -add-servant=false -without-trace=true "$(basename "$f")") >"$BUILD/t2g.log" 2>&1; then
        violation_file "tars2go-rejects-valid-idl" "$BUILD/t2g.log"; exit 1
      fi
    done
    TARS_LIST=$(ls "$VERIF_REPO"/tars/protocol/res/*.tars "$BUILD"/*.tars | tr '\n' ',' | sed 's/,$//')
    first=1
    for d in "$VERIF_REPO"/tars/protocol/res/*/; do
      n=$(basename "$d")
      a="${d%/}=github.com/TarsCloud/TarsGo/tars/protocol/res/$n"
      [ $first = 1 ] && { a="$a,$TARS_LIST"; first=0; }
      GENARGS+=("$a")
    done
    for d in "$BUILD"/gen/*/; do
      [ -d "$d" ] || continue
      GENARGS+=("${d%/}=verif/gen/$(basename "$d")")
    done
    go run ./cmd/genreg -out "$BUILD/registry_gen.go" "${GENARGS[@]}" || { echo "BUILD-FAILED property=$ID (genreg)" >&2; exit 3; }
    {
      echo '{"Replace": {'
      echo "\"$HERE/harness/resreg/registry_gen.go\": \"$BUILD/registry_gen.go\""
      for f in "$BUILD"/gen/*/*.go; do
        rel="${f#$BUILD/gen/}"
        echo ",\"$HERE/harness/gen/$rel\": \"$f\""
      done
      echo '}}'
    } >"$BUILD/overlay.json"
    OVERLAY="-overlay=$BUILD/overlay.json"
    ;;
esac

TAGS="verif"
if [ "$ID" = C08 ]; then
  # the request-id counter hook lives behind its own tag; fall back to the other hooks when a
  # tree that restructured the counter no longer compiles with it
  if go build -tags "verif verifmsgid" -o "$BUILD/$id_lc" "./cmd/$id_lc" 2>/dev/null; then TAGS="verif verifmsgid"; fi
fi
if ! go build -tags "$TAGS" $RACE $OVERLAY -o "$BUILD/$id_lc" "./cmd/$id_lc" 2>"$BUILD/build.log"; then
  cat "$BUILD/build.log" >&2
  if [ -n "$OVERLAY" ] && grep -q -E "harness/gen/|$BUILD/gen/|^# verif/gen/" "$BUILD/build.log"; then
    violation_file "generated-code-does-not-compile" "$BUILD/build.log"; exit 1
  fi
  echo "BUILD-FAILED property=$ID" >&2
  exit 3
fi
[ "$MODE" = build ] && exit 0
export GORACE="${GORACE:-halt_on_error=0 exitcode=0 atexit_sleep_ms=0 log_path=$BUILD/race}"
"$BUILD/$id_lc" 2>"$BUILD/stderr.log" | tee "$BUILD/stdout.log"
rc=${PIPESTATUS[0]}
if [ "$rc" != 0 ] && [ "$rc" != 1 ] && ! grep -q '^INCONCLUSIVE property=' "$BUILD/stdout.log"; then
  # the monitor process itself died (panic / fatal error in the code under test outside any guard,
  # or killed): that is an observation about the real code, not a pass
  mkdir -p "$OUT/replays/$ID"
  W="$OUT/replays/$ID/process-death_seed${VERIF_SEED}_${VERIF_TIER}.txt"
  { echo "check process for $ID exited with status $rc"; echo "--- stderr tail ---"; tail -c 6000 "$BUILD/stderr.log"; echo "--- stdout tail ---"; tail -c 2000 "$BUILD/stdout.log"; for pf in "$BUILD"/panic.*; do [ -f "$pf" ] && { echo "--- $(basename "$pf") (stack dump written by CheckPanic) ---"; head -c 6000 "$pf"; }; done; } >"$W"
  tail -c 1500 "$BUILD/stderr.log" >&2
  echo "VIOLATION property=$ID replay=$W"
  echo "  class=process-death detail=the monitor process died with status $rc (see replay file)"
  exit 1
fi
[ -s "$BUILD/stderr.log" ] && [ "$rc" != 0 ] && tail -c 3000 "$BUILD/stderr.log" >&2
exit $rc
