#!/usr/bin/env python3
import json,sys,subprocess,glob
code="import json,jsonschema,sys\ns=json.load(open('/root/.vp/EVIDENCE.schema.json'))\nfor f in sys.argv[1:]:\n    jsonschema.validate(json.load(open(f)),s); print('valid',f)"
sys.exit(subprocess.run(['python3-vt','-c',code]+(sys.argv[1:] or sorted(glob.glob('/verif/evidence/*.json')))).returncode)
