// Package appchild runs the REAL application — tars.Run() with a server configuration file, the
// framework's own config parsing, adapters, admin servant, signal handling and graceful shutdown —
// in a child process of a check, with a small hand-written dispatcher as the servant, and gives the
// parent (the monitor) raw access to it: addresses, the lines the child prints (what it executed,
// what the application holds after reading its configuration), signals, exit.
//
// A check calls appchild.MaybeChild() first thing in main(); the parent side uses Start().
package appchild

import (
	"bufio"
	"context"
	"encoding/json"
	"fmt"
	"net"
	"os"
	"os/exec"
	"path/filepath"
	"strconv"
	"strings"
	"sync"
	"syscall"
	"time"

	"github.com/TarsCloud/TarsGo/tars"
	"github.com/TarsCloud/TarsGo/tars/protocol/res/requestf"
	"github.com/TarsCloud/TarsGo/tars/util/tools"

	"verif/netlab"
)

const envKey = "VERIF_APPCHILD"

// ---------- child side ----------

type disp struct{}

// Dispatch: "sleep" sleeps for the number of milliseconds written in the buffer (ASCII), every
// function echoes the buffer.  EXEC/DONE lines tell the parent what ran.
func (disp) Dispatch(ctx context.Context, _ interface{}, req *requestf.RequestPacket, rsp *requestf.ResponsePacket, _ bool) error {
	fmt.Printf("EXEC %d %s\n", req.IRequestId, req.SFuncName)
	if req.SFuncName == "sleep" {
		ms, _ := strconv.Atoi(string(tools.Int8ToByte(req.SBuffer)))
		time.Sleep(time.Duration(ms) * time.Millisecond)
	}
	*rsp = requestf.ResponsePacket{IVersion: req.IVersion, CPacketType: 0, IRequestId: req.IRequestId, SBuffer: req.SBuffer, Status: map[string]string{}, Context: map[string]string{}}
	fmt.Printf("DONE %d\n", req.IRequestId)
	return nil
}

type adapterView struct {
	Name, Host, Bind, Key, String, Proto string
	Port, Timeout                        int32
}

// MaybeChild turns the process into the application child when the environment says so.
func MaybeChild() {
	mode := os.Getenv(envKey)
	if mode == "" {
		return
	}
	if mode == "conf-only" {
		// what the application holds after reading its configuration file
		c := tars.GetConf()
		out := map[string]interface{}{"conf_nil": c == nil}
		if c != nil {
			out["server_app"] = c.GetString("/tars/application/server<app>")
			out["client_probe"] = c.GetStringWithDef("/tars/application/client<verif-probe>", "<absent>")
			out["queue_caps"] = tars.VerifAdapterQueueCaps()
			out["server_queue_cap"] = tars.GetServerConfig().QueueCap
		}
		b, _ := json.Marshal(out)
		fmt.Printf("CONF %s\n", b)
		os.Exit(0)
	}
	_ = tars.GetServerConfig() // reads the configuration file, as every generated server main does first
	for _, obj := range strings.Split(os.Getenv("VERIF_APPCHILD_OBJS"), ",") {
		if obj != "" {
			tars.AddServantWithContext(disp{}, nil, obj)
		}
	}
	go func() {
		// after init: the adapters as the application holds them, the effective packet limit
		time.Sleep(300 * time.Millisecond)
		var views []adapterView
		for name, a := range tars.GetServerConfig().Adapters {
			e := a.Endpoint
			views = append(views, adapterView{Name: name, Host: e.Host, Bind: e.Bind, Key: e.Key, String: e.String(), Proto: e.Proto, Port: e.Port, Timeout: e.Timeout})
		}
		b, _ := json.Marshal(map[string]interface{}{"adapters": views, "max_package_length": tars.GetServerConfig().MaxPackageLength, "conf_nil": tars.GetConf() == nil})
		fmt.Printf("STATE %s\n", b)
	}()
	tars.Run()
	fmt.Println("RUN-RETURNED")
	os.Exit(0)
}

// ---------- parent side ----------

// Config describes the server configuration file to write.
type Config struct {
	MaxPackageLength int    // 0: not written
	MaxRoutine       int    // worker pool size of the adapters (0: none)
	GracedownMs      int    // gracedowntimeout
	HandleTimeoutMs  int    // handletimeout (0: not written)
	WriteTimeoutMs   int    // writetimeout (0: not written)
	UDP              bool   // a second servant on a UDP adapter
	BindHost         string // when set the TCP adapter is "-h <AdvertisedHost> -b <BindHost>"
	AdvertisedHost   string
	Raw              string // when set: written as the whole file (conf-only mode)
	ConfOnly         bool
}

// App is a running application child.
type App struct {
	Cmd                         *exec.Cmd
	Dir                         string
	TCPAddr, UDPAddr, AdminAddr string
	TCPObj, UDPObj              string
	mu                          sync.Mutex
	lines                       []string
	exited                      chan struct{}
	ExitErr                     error
}

func freePort(proto, host string) int {
	for i := 0; i < 50; i++ {
		if proto == "udp" {
			c, err := net.ListenPacket("udp", host+":0")
			if err == nil {
				p := c.LocalAddr().(*net.UDPAddr).Port
				c.Close()
				return p
			}
		} else {
			l, err := net.Listen("tcp", host+":0")
			if err == nil {
				p := l.Addr().(*net.TCPAddr).Port
				l.Close()
				return p
			}
		}
	}
	return 0
}

// Start writes the configuration, starts the child (this very binary) and waits until the TCP
// adapter answers a ping (not in conf-only mode).
func Start(c Config) (*App, error) {
	dir, err := os.MkdirTemp(os.Getenv("VERIF_BUILD"), "appchild-")
	if err != nil {
		return nil, err
	}
	a := &App{Dir: dir, TCPObj: "Verif.AppSrv.EchoObj", UDPObj: "Verif.AppSrv.UdpObj", exited: make(chan struct{})}
	listenHost := "127.0.0.1"
	if c.BindHost != "" {
		listenHost = c.BindHost
	}
	tcpPort, udpPort, adminPort := freePort("tcp", listenHost), freePort("udp", "127.0.0.1"), freePort("tcp", "127.0.0.1")
	a.TCPAddr, a.UDPAddr, a.AdminAddr = fmt.Sprintf("%s:%d", listenHost, tcpPort), fmt.Sprintf("127.0.0.1:%d", udpPort), fmt.Sprintf("127.0.0.1:%d", adminPort)
	text := c.Raw
	if text == "" {
		var sb strings.Builder
		sb.WriteString("<tars>\n  <application>\n    <server>\n")
		fmt.Fprintf(&sb, "      app=Verif\n      server=AppSrv\n      localip=127.0.0.1\n      local=tcp -h 127.0.0.1 -p %d -t 3000\n", adminPort)
		fmt.Fprintf(&sb, "      logpath=%s\n      datapath=%s\n      logLevel=ERROR\n", filepath.Join(dir, "log"), filepath.Join(dir, "data"))
		if c.MaxPackageLength > 0 {
			fmt.Fprintf(&sb, "      maxPackageLength=%d\n", c.MaxPackageLength)
		}
		if c.MaxRoutine > 0 {
			fmt.Fprintf(&sb, "      maxroutine=%d\n", c.MaxRoutine)
		}
		if c.HandleTimeoutMs > 0 {
			fmt.Fprintf(&sb, "      handletimeout=%d\n", c.HandleTimeoutMs)
		}
		if c.WriteTimeoutMs > 0 {
			fmt.Fprintf(&sb, "      writetimeout=%d\n", c.WriteTimeoutMs)
		}
		if c.GracedownMs > 0 {
			fmt.Fprintf(&sb, "      gracedowntimeout=%d\n", c.GracedownMs)
		}
		ep := fmt.Sprintf("tcp -h 127.0.0.1 -p %d -t 60000", tcpPort)
		if c.BindHost != "" {
			ep = fmt.Sprintf("tcp -h %s -b %s -p %d -t 60000", c.AdvertisedHost, c.BindHost, tcpPort)
		}
		fmt.Fprintf(&sb, "      <%sAdapter>\n        endpoint=%s\n        protocol=tars\n        servant=%s\n        threads=2\n        queuecap=1000\n      </%sAdapter>\n", a.TCPObj, ep, a.TCPObj, a.TCPObj)
		if c.UDP {
			fmt.Fprintf(&sb, "      <%sAdapter>\n        endpoint=udp -h 127.0.0.1 -p %d -t 60000\n        protocol=tars\n        servant=%s\n        threads=2\n        queuecap=1000\n      </%sAdapter>\n", a.UDPObj, udpPort, a.UDPObj, a.UDPObj)
		}
		sb.WriteString("    </server>\n    <client>\n      sync-invoke-timeout=3000\n    </client>\n  </application>\n</tars>\n")
		text = sb.String()
	}
	cfgPath := filepath.Join(dir, "app.conf")
	if err := os.WriteFile(cfgPath, []byte(text), 0o644); err != nil {
		return nil, err
	}
	os.MkdirAll(filepath.Join(dir, "log"), 0o755)
	os.MkdirAll(filepath.Join(dir, "data"), 0o755)
	cmd := exec.Command(os.Args[0], "--config="+cfgPath)
	mode := "run"
	if c.ConfOnly {
		mode = "conf-only"
	}
	objs := a.TCPObj
	if c.UDP {
		objs += "," + a.UDPObj
	}
	cmd.Env = append(os.Environ(), envKey+"="+mode, "VERIF_APPCHILD_OBJS="+objs)
	cmd.Dir = dir
	stdout, _ := cmd.StdoutPipe()
	cmd.Stderr = cmd.Stdout
	if err := cmd.Start(); err != nil {
		return nil, err
	}
	a.Cmd = cmd
	go func() {
		sc := bufio.NewScanner(stdout)
		sc.Buffer(make([]byte, 1<<20), 1<<20)
		for sc.Scan() {
			a.mu.Lock()
			a.lines = append(a.lines, sc.Text())
			a.mu.Unlock()
		}
		a.ExitErr = cmd.Wait()
		close(a.exited)
	}()
	if c.ConfOnly {
		a.WaitExit(20 * time.Second)
		return a, nil
	}
	// ready when the TCP adapter answers a ping
	dl := time.Now().Add(20 * time.Second)
	for time.Now().Before(dl) {
		if a.Exited() {
			return a, fmt.Errorf("application child exited during start: %s", strings.Join(a.Lines(), " | "))
		}
		if rsp, err := a.Call(a.TCPAddr, "tcp", a.TCPObj, "tars_ping", 1, nil, 500*time.Millisecond); err == nil && rsp.RequestID == 1 {
			return a, nil
		}
		time.Sleep(30 * time.Millisecond)
	}
	a.Kill()
	return a, fmt.Errorf("application child did not come up: %s", strings.Join(a.Lines(), " | "))
}

// Lines returns what the child printed so far.
func (a *App) Lines() []string {
	a.mu.Lock()
	defer a.mu.Unlock()
	return append([]string(nil), a.lines...)
}

// Line returns the payload of the first line with the given prefix.
func (a *App) Line(prefix string) (string, bool) {
	for _, l := range a.Lines() {
		if strings.HasPrefix(l, prefix) {
			return strings.TrimPrefix(l, prefix), true
		}
	}
	return "", false
}

func (a *App) Exited() bool {
	select {
	case <-a.exited:
		return true
	default:
		return false
	}
}

func (a *App) WaitExit(d time.Duration) bool {
	select {
	case <-a.exited:
		return true
	case <-time.After(d):
		return false
	}
}

func (a *App) Signal(s syscall.Signal) { _ = a.Cmd.Process.Signal(s) }

// Kill ends the child and removes its directory.
func (a *App) Kill() {
	if !a.Exited() {
		_ = a.Cmd.Process.Kill()
		a.WaitExit(5 * time.Second)
	}
	os.RemoveAll(a.Dir)
}

// Call sends one request on a fresh connection and reads one response.
func (a *App) Call(addr, proto, obj, fn string, id int32, buf []byte, wait time.Duration) (*netlab.Response, error) {
	c, err := net.DialTimeout(proto, addr, 2*time.Second)
	if err != nil {
		return nil, err
	}
	defer c.Close()
	return Exchange(c, proto, obj, fn, id, buf, wait)
}

// Exchange writes one request on c and reads one response (or EOF / timeout).
func Exchange(c net.Conn, proto, obj, fn string, id int32, buf []byte, wait time.Duration) (*netlab.Response, error) {
	req := (&netlab.Request{Version: 1, RequestID: id, Servant: obj, Func: fn, Buffer: buf, Timeout: 0, Context: map[string]string{}, Status: map[string]string{}}).Encode()
	if _, err := c.Write(req); err != nil {
		return nil, err
	}
	if proto == "udp" {
		_ = c.SetReadDeadline(time.Now().Add(wait))
		b := make([]byte, 65536)
		n, err := c.Read(b)
		if err != nil {
			return nil, err
		}
		return netlab.ParseResponse(b[:n])
	}
	fr := &netlab.FrameReader{Conn: c}
	dl := time.Now().Add(wait)
	for {
		f, err := fr.Next(time.Until(dl))
		if err != nil {
			return nil, err
		}
		rsp, err := netlab.ParseResponse(f)
		if err != nil {
			return nil, err
		}
		if rsp.RequestID == 0 && id != 0 {
			continue // a server push (the reconnect notification), not the answer
		}
		return rsp, nil
	}
}
