// C01 — end-to-end call transparency through generated proxy and dispatcher.
//
// Monitor: per filter configuration a fresh isolated application runs the REAL stack: generated
// proxy (tars2go output of /verif/idl/VIface.tars, compiled at check time by the working tree's
// generator) -> real ServantProxy/transport client -> frame-parsing tap -> real TarsServer -> real
// tars.Protocol -> generated dispatcher -> recording servant.  Every call carries a unique token in
// the request context; the servant records what arrived and produces what a directive says
// (values, response context/status, or an error).  Offline join by token: exactly-once execution,
// arguments/context/status received == sent, returned values/context/status == directive, error
// code/message == directive, one-way: executed once and no response frame with its id on the tap,
// pass-through filters: one entry each per call in registration order with unchanged outcome.
package main

import (
	"context"
	"errors"
	"fmt"
	"math/rand"
	"reflect"
	"sort"
	"strings"
	"sync"
	"sync/atomic"
	"time"

	"github.com/TarsCloud/TarsGo/tars"
	"github.com/TarsCloud/TarsGo/tars/protocol/res/requestf"
	"github.com/TarsCloud/TarsGo/tars/util/rogger"

	"verif/netlab"
	rc "verif/refcodec"
	"verif/resreg"
	"verif/sch"
	"verif/vlib"
	"verif/vworld"
)

var run *vlib.Run

type filterEvent struct {
	token string
	id    string
	phase string // enter | exit
	stamp int64
}

type filterLog struct {
	mu sync.Mutex
	ev []filterEvent
}

func (l *filterLog) add(token, id, phase string) {
	l.mu.Lock()
	l.ev = append(l.ev, filterEvent{token, id, phase, netlab.Tick()})
	l.mu.Unlock()
}

func (l *filterLog) forToken(tok string) []filterEvent {
	l.mu.Lock()
	defer l.mu.Unlock()
	var out []filterEvent
	for _, e := range l.ev {
		if e.token == tok {
			out = append(out, e)
		}
	}
	return out
}

type filterCfg struct {
	Name       string
	ServerKind string // "" none | single | prepost | middleware
	ClientKind string
	K          int
	Extra      string // additionally registered kinds that must NOT be selected
	Plain      bool   // servant registered through the context-less interface; one caller at a time
	Late       bool   // only the first filter of each list is registered before the first calls, the rest after them
	TwoHop     bool   // the implementation calls on to a second servant with the context it was given
	IdleMs     int    // > 0: client idle timeout; every call is held in the implementation for SlowMs (longer than that)
	SlowMs     int
}

func serverToken(req *requestf.RequestPacket) string { return req.Context[vworld.TokenKey] }
func clientToken(msg *tars.Message) string           { return msg.Req.Context[vworld.TokenKey] }

// install registers pass-through filters of the configuration on the app and returns the list of
// filter ids expected to see every call, in the order of their "enter" events.  Only the filters
// with index >= from are registered (the others were registered by an earlier call: filters
// registered after the application's first calls must see the following calls too); the returned
// list always covers all of them.
func install(app *tars.VerifApp, cfg filterCfg, log *filterLog, from int) (expectEnter []string) {
	mkSrvSingle := func(id string) tars.ServerFilter {
		return func(ctx context.Context, d tars.Dispatch, f interface{}, req *requestf.RequestPacket, resp *requestf.ResponsePacket, wc bool) error {
			log.add(serverToken(req), id, "enter")
			err := d(ctx, f, req, resp, wc)
			log.add(serverToken(req), id, "exit")
			return err
		}
	}
	mkSrvObserve := func(id string) tars.ServerFilter {
		return func(ctx context.Context, d tars.Dispatch, f interface{}, req *requestf.RequestPacket, resp *requestf.ResponsePacket, wc bool) error {
			log.add(serverToken(req), id, "enter")
			return nil
		}
	}
	mkSrvMW := func(id string) tars.ServerFilterMiddleware {
		return func(next tars.ServerFilter) tars.ServerFilter {
			return func(ctx context.Context, d tars.Dispatch, f interface{}, req *requestf.RequestPacket, resp *requestf.ResponsePacket, wc bool) error {
				log.add(serverToken(req), id, "enter")
				err := next(ctx, d, f, req, resp, wc)
				log.add(serverToken(req), id, "exit")
				return err
			}
		}
	}
	mkCliSingle := func(id string) tars.ClientFilter {
		return func(ctx context.Context, msg *tars.Message, invoke tars.Invoke, timeout time.Duration) error {
			log.add(clientToken(msg), id, "enter")
			err := invoke(ctx, msg, timeout)
			log.add(clientToken(msg), id, "exit")
			return err
		}
	}
	mkCliObserve := func(id string) tars.ClientFilter {
		return func(ctx context.Context, msg *tars.Message, invoke tars.Invoke, timeout time.Duration) error {
			log.add(clientToken(msg), id, "enter")
			return nil
		}
	}
	mkCliMW := func(id string) tars.ClientFilterMiddleware {
		return func(next tars.ClientFilter) tars.ClientFilter {
			return func(ctx context.Context, msg *tars.Message, invoke tars.Invoke, timeout time.Duration) error {
				log.add(clientToken(msg), id, "enter")
				err := next(ctx, msg, invoke, timeout)
				log.add(clientToken(msg), id, "exit")
				return err
			}
		}
	}
	// client side first in the expected enter order (client filters run before the request leaves)
	switch cfg.ClientKind {
	case "single":
		app.RegisterClientFilter(mkCliSingle("c-single"))
		expectEnter = append(expectEnter, "c-single")
	case "middleware":
		for i := 0; i < cfg.K; i++ {
			id := fmt.Sprintf("c-mw%d", i)
			if i >= from {
				app.UseClientFilterMiddleware(mkCliMW(id))
			}
			expectEnter = append(expectEnter, id)
		}
	case "prepost":
		for i := 0; i < cfg.K; i++ {
			id := fmt.Sprintf("c-pre%d", i)
			if i >= from {
				app.RegisterPreClientFilter(mkCliObserve(id))
			}
			expectEnter = append(expectEnter, id)
		}
	}
	switch cfg.ServerKind {
	case "single":
		app.RegisterServerFilter(mkSrvSingle("s-single"))
		expectEnter = append(expectEnter, "s-single")
	case "middleware":
		for i := 0; i < cfg.K; i++ {
			id := fmt.Sprintf("s-mw%d", i)
			if i >= from {
				app.UseServerFilterMiddleware(mkSrvMW(id))
			}
			expectEnter = append(expectEnter, id)
		}
	case "prepost":
		for i := 0; i < cfg.K; i++ {
			id := fmt.Sprintf("s-pre%d", i)
			if i >= from {
				app.RegisterPreServerFilter(mkSrvObserve(id))
			}
			expectEnter = append(expectEnter, id)
		}
		for i := 0; i < cfg.K; i++ {
			id := fmt.Sprintf("s-post%d", i)
			if i >= from {
				app.RegisterPostServerFilter(mkSrvObserve(id))
			}
			expectEnter = append(expectEnter, id)
		}
	}
	if cfg.ClientKind == "prepost" {
		for i := 0; i < cfg.K; i++ {
			id := fmt.Sprintf("c-post%d", i)
			if i >= from {
				app.RegisterPostClientFilter(mkCliObserve(id))
			}
			expectEnter = append(expectEnter, id)
		}
	}
	// additionally registered kinds of lower priority: must not be required to see the call
	if strings.Contains(cfg.Extra, "srv-prepost-under-single") {
		app.RegisterPreServerFilter(mkSrvObserve("s-shadowed-pre"))
	}
	if strings.Contains(cfg.Extra, "cli-prepost-under-mw") {
		app.RegisterPreClientFilter(mkCliObserve("c-shadowed-pre"))
	}
	return
}

var backWorld *vworld.World

var configs = []filterCfg{
	{Name: "no-filters"},
	{Name: "single-both", ServerKind: "single", ClientKind: "single"},
	{Name: "prepost-1", ServerKind: "prepost", ClientKind: "prepost", K: 1},
	{Name: "prepost-3", ServerKind: "prepost", ClientKind: "prepost", K: 3},
	{Name: "middleware-1", ServerKind: "middleware", ClientKind: "middleware", K: 1},
	{Name: "middleware-3", ServerKind: "middleware", ClientKind: "middleware", K: 3},
	{Name: "server-prepost-only", ServerKind: "prepost", K: 2},
	{Name: "client-mw-server-single", ServerKind: "single", ClientKind: "middleware", K: 2, Extra: "srv-prepost-under-single,cli-prepost-under-mw"},
	{Name: "plain-servant", ServerKind: "prepost", ClientKind: "prepost", K: 1, Plain: true},
	{Name: "late-middleware", ServerKind: "middleware", ClientKind: "middleware", K: 3, Late: true},
	{Name: "late-prepost", ServerKind: "prepost", ClientKind: "prepost", K: 2, Late: true},
	{Name: "short-client-idle", IdleMs: 1000, SlowMs: 2300},
	{Name: "two-hop", TwoHop: true},
}

type valueGen struct {
	g *sch.Gen
	r *rand.Rand
}

func (vg *valueGen) goValue(t *rc.Type, gt reflect.Type, mode int) (interface{}, *rc.Value) {
	vg.g.Budget = 120
	v := vg.g.Value(t, mode, 1, false, nil)
	p := reflect.New(gt)
	sch.ToGo(t, v, p.Elem())
	return p.Elem().Interface(), v
}

func strMap(r *rand.Rand, kind int) map[string]string {
	switch kind % 6 {
	case 0:
		return nil
	case 1:
		return map[string]string{}
	case 2:
		return map[string]string{"k": "v", "ключ": "значение 日本語", "": "empty-key", "empty-value": ""}
	case 3:
		m := map[string]string{}
		for i := 0; i < 1000; i++ {
			m[fmt.Sprintf("key-%d", i)] = strings.Repeat("x", i%17)
		}
		return m
	}
	m := map[string]string{}
	for i := 0; i < r.Intn(5); i++ {
		m[fmt.Sprintf("k%d", r.Intn(100))] = fmt.Sprintf("v%d", r.Int63())
	}
	return m
}

func mapsEqual(a, b map[string]string) bool {
	if len(a) != len(b) {
		return false
	}
	for k, v := range a {
		if w, ok := b[k]; !ok || w != v {
			return false
		}
	}
	return true
}

type callSpec struct {
	Token  string
	Func   string
	Form   string
	Ins    []string
	ReqCtx int
	ReqSt  int
	Want   string
	ErrC   int32
	ErrM   string
}

func main() {
	run = vlib.Start("C01")
	rogger.SetLevel(rogger.OFF)
	run.SetRule("filter configurations {none, legacy single client+server, pre/post x1 and x3, middleware x1 and x3, server pre/post only, mixed registrations with shadowed kinds, servant registered through the context-less interface, filters registered after the application's first calls, client idle timeout shorter than the implementation's run time, implementation calling on to a second servant with its own context} x callers sharing one generated proxy {1,4,32} x calls drawing: function (12 functions covering scalars signed/unsigned, strings, vector<byte>, nested vectors, maps incl. map of vector of struct, structs with optional/default members, enums, many out parameters, none, void, out before in), argument values from 5 generation modes, request context/status maps (absent, empty, unicode, 1000 entries, random), directive (values + response context/status, tars.Error with code, plain error) and proxy form (plain, WithContext, OneWayWithContext). A case is one call; distinct = distinct (configuration, function, form, outcome kind, argument encoding hash).")
	run.Assume("error code 0 is outside the domain (it is success on the wire); for an error whose message is empty only the code is compared (the empty description is replaced by a synthetic text on the client by design)")
	run.Assume("pass-through: single/middleware filters call next once and return its result, pre/post filters observe and return nil; with several kinds registered only the selected kind (single > middleware > pre/post) must see the call")
	u, err := sch.LoadUniverse(resreg.TarsFiles)
	if err != nil {
		fmt.Println(err)
		run.Finish()
	}
	funcs, err := vworld.LoadFuncs(u)
	if err != nil {
		run.Violation("generated-proxy-disagrees-with-idl", "Echo", err.Error(), nil)
		run.Finish()
	}
	run.Set("functions", len(funcs))
	perCfg := run.Pick(400, 8000)
	var seq atomic.Int64
	type quietWorld struct {
		name string
		w    *vworld.World
		tap  *netlab.Tap
	}
	var quiet []quietWorld
	backWorldOf := map[string]*vworld.World{}
	for ci, cfg := range configs {
		app := tars.VerifNewApp()
		flog := &filterLog{}
		var expectEnter []string
		if cfg.Late {
			first := cfg
			first.K = 1
			expectEnter = install(app, first, flog, 0)
		} else {
			expectEnter = install(app, cfg, flog, 0)
		}
		if cfg.IdleMs > 0 {
			// a connection with a call outstanding is not idle, however long the implementation takes
			app.ClientConfig().ClientIdleTimeout = time.Duration(cfg.IdleMs) * time.Millisecond
		}
		conf := netlab.DefaultServerConf("tcp")
		conf.MaxInvoke = int32([]int{0, 0, 4}[ci%3])
		var tap *netlab.Tap
		w, err := vworld.NewWorldOpt(app, conf, fmt.Sprintf("Verif.C01x%d.EchoObj", ci), func(server string) string {
			tap = netlab.NewTap(server, run.Thorough() || ci%2 == 1, run.Seed+int64(ci))
			return tap.Addr
		}, cfg.Plain)
		if err != nil {
			run.Inconclusive("cannot start world: " + err.Error())
			continue
		}
		w.Servant.Clock = netlab.Tick
		// every third call decodes its out parameters into variables the caller has used before
		// (non-empty maps and vectors, set scalars, filled structs)
		{
			var mu sync.Mutex
			var n int
			pr := rand.New(rand.NewSource(run.Seed*977 + int64(ci)))
			pg := &valueGen{g: sch.NewGen(pr), r: pr}
			w.Prefill = func(p vworld.Param, dst reflect.Value) {
				mu.Lock()
				defer mu.Unlock()
				if n++; n%3 != 0 {
					return
				}
				gv, _ := pg.goValue(p.T, p.GoT, sch.ModeNonZero)
				dst.Set(reflect.ValueOf(gv))
				run.Add("calls_with_out_variables_in_use", 1)
			}
		}
		backWorld = nil
		if cfg.TwoHop {
			bconf := netlab.DefaultServerConf("tcp")
			back, err := vworld.NewWorld(app, bconf, fmt.Sprintf("Verif.C01x%d.BackObj", ci), nil)
			if err != nil {
				run.Inconclusive("cannot start the second-hop world: " + err.Error())
				continue
			}
			backWorld = back
			backWorldOf[cfg.Name] = back
			w.Servant.Forward = func(ctx context.Context, token string) {
				// the front implementation passes its own context on and names no status of its own
				_ = back.Proxy.NothingWithContext(ctx, map[string]string{vworld.TokenKey: "fwd-" + token})
			}
		}
		for _, callers := range []int{1, 4, 32} {
			if cfg.Late && callers == 4 {
				expectEnter = install(app, cfg, flog, 1)
			}
			if cfg.SlowMs > 0 && callers != 4 {
				continue // four slow calls at once are enough
			}
			if cfg.Plain && callers > 1 {
				break // the context-less servant is told the token of the one call in flight
			}
			n := perCfg / 3 / callers
			if n < 2 {
				n = 2
			}
			if cfg.SlowMs > 0 {
				n = run.Pick(1, 3)
			}
			var wg sync.WaitGroup
			stop := atomic.Bool{}
			for g := 0; g < callers; g++ {
				wg.Add(1)
				go func(g int) {
					defer wg.Done()
					r := rand.New(rand.NewSource(run.Seed*7907 + int64(ci*1000+callers*37+g)))
					vg := &valueGen{g: sch.NewGen(r), r: r}
					vg.g.MaxDepth = 4
					for i := 0; i < n && !stop.Load(); i++ {
						if !oneCall(w, tap, cfg, expectEnter, flog, funcs, vg, r, seq.Add(1)) {
							stop.Store(true)
						}
					}
				}(g)
			}
			wg.Wait()
			if stop.Load() {
				break
			}
		}
		quiet = append(quiet, quietWorld{cfg.Name, w, tap})
	}
	// ---- nothing is delivered again later: the connections stay open and silent for 2.3 s (the
	// client's once-per-second housekeeping runs twice); every call's records were dropped when it
	// was judged, so anything recorded now is a late, additional execution ----
	time.Sleep(2300 * time.Millisecond)
	for _, q := range quiet {
		run.Eval(1)
		left := q.w.Servant.Leftover()
		if backWorldOf[q.name] != nil {
			for k, v := range backWorldOf[q.name].Servant.Leftover() {
				left[k] = v
			}
		}
		if len(left) > 0 {
			var ex []string
			for k, v := range left {
				ex = append(ex, fmt.Sprintf("%s x%d", k, v))
				if len(ex) >= 5 {
					break
				}
			}
			run.Violation("not-executed-exactly-once", "delivered-again-later", fmt.Sprintf("configuration %s: %d calls were executed again while their connection sat idle after the last call (e.g. %s)", q.name, len(left), strings.Join(ex, ", ")),
				map[string]interface{}{"config": q.name, "late_executions": left})
		}
		q.tap.Close()
	}
	run.Finish()
}

func oneCall(w *vworld.World, tap *netlab.Tap, cfg filterCfg, expectEnter []string, flog *filterLog, funcs []*vworld.Func, vg *valueGen, r *rand.Rand, n int64) bool {
	fn := funcs[r.Intn(len(funcs))]
	token := fmt.Sprintf("t%d-%s", n, cfg.Name)
	form := []string{"ctx", "ctx", "plain", "oneway"}[r.Intn(4)]
	mode := []int{sch.ModeRandom, sch.ModeBoundary, sch.ModeNonZero, sch.ModeDefault, sch.ModeBig}[r.Intn(5)]
	// ---- inputs ----
	var ins []interface{}
	var inVals []*rc.Value
	var inParams []vworld.Param
	for _, p := range fn.Params {
		if p.Out {
			continue
		}
		gv, mv := vg.goValue(p.T, p.GoT, mode)
		ins = append(ins, gv)
		inVals = append(inVals, mv)
		inParams = append(inParams, p)
	}
	ctxKind, stKind := r.Intn(6), r.Intn(6)
	reqCtx := strMap(r, ctxKind)
	if reqCtx == nil {
		reqCtx = map[string]string{}
	}
	reqCtx[vworld.TokenKey] = token
	var reqSt map[string]string
	if r.Intn(2) == 0 {
		reqSt = strMap(r, stKind)
		if reqSt == nil {
			reqSt = map[string]string{}
		}
	}
	sentSt := reqSt
	sentCtx := map[string]string{}
	for k, v := range reqCtx {
		sentCtx[k] = v
	}
	// ---- directive ----
	d := &vworld.Directive{}
	var wantRet *rc.Value
	var wantOuts []*rc.Value
	var outParams []vworld.Param
	outcome := r.Intn(6)
	switch {
	case outcome == 0:
		code := []int32{2, -1, -6, 100, 1, 2147483647, -2147483648}[r.Intn(7)]
		d.Err = tars.Errorf(code, "servant error %d for %s", code, token)
		if r.Intn(6) == 0 {
			d.Err = &tars.Error{Code: code, Message: ""} // a code with nothing to say
		}
	case outcome == 1:
		d.Err = errors.New("plain failure of " + token)
	default:
		if fn.RetGoT != nil {
			gv, mv := vg.goValue(fn.RetT, fn.RetGoT, mode)
			d.Ret, wantRet = gv, mv
		}
		for _, p := range fn.Params {
			if !p.Out {
				continue
			}
			gv, mv := vg.goValue(p.T, p.GoT, mode)
			d.Outs = append(d.Outs, gv)
			wantOuts = append(wantOuts, mv)
			outParams = append(outParams, p)
		}
	}
	if r.Intn(2) == 0 && w.Plain == nil {
		d.RspContext = strMap(r, 2+r.Intn(4))
		d.RspStatus = strMap(r, 2+r.Intn(4))
	}
	if cfg.SlowMs > 0 {
		gate := make(chan struct{})
		d.Gate = gate
		time.AfterFunc(time.Duration(cfg.SlowMs)*time.Millisecond, func() { close(gate) })
		if form == "oneway" {
			form = "ctx"
		}
	}
	if w.Plain != nil {
		w.Plain.SetCurrent(token)
		if form == "oneway" {
			form = "ctx" // a one-way call returns before the implementation ran: the next token would overtake it
		}
	}
	w.Servant.SetDirective(token, d)
	defer w.Servant.Forget(token)
	// ---- the call ----
	done := make(chan vworld.CallResult, 1)
	go func() { done <- w.Call(context.Background(), fn, form, ins, reqCtx, reqSt) }()
	var res vworld.CallResult
	select {
	case res = <-done:
	case <-time.After(30 * time.Second):
		run.Violation("call-does-not-return", fn.Name, fmt.Sprintf("%s(%s) did not return within 30 s on a healthy loopback server", fn.Name, form), map[string]interface{}{"function": fn.Name, "form": form, "config": cfg})
		return false
	}
	run.Eval(1)
	wit := func(extra map[string]interface{}) map[string]interface{} {
		var inr []string
		for i, v := range inVals {
			inr = append(inr, inParams[i].Name+"="+rc.Render(inParams[i].T, v))
		}
		m := map[string]interface{}{"config": cfg, "function": fn.Name, "form": form, "token": token, "inputs": inr, "request_context_entries": len(sentCtx), "request_status": sentSt != nil, "directive_error": fmt.Sprint(d.Err)}
		for k, v := range extra {
			m[k] = v
		}
		return m
	}
	// ---- exactly once ----
	var recs []*vworld.Received
	waitFor(func() bool { recs = w.Servant.ReceivedFor(token); return len(recs) >= 1 }, 5*time.Second)
	if form == "oneway" {
		time.Sleep(time.Millisecond)
		recs = w.Servant.ReceivedFor(token)
	}
	if len(recs) != 1 {
		run.Violation("not-executed-exactly-once", form, fmt.Sprintf("%s(%s): the implementation ran %d times for one call", fn.Name, form, len(recs)), wit(map[string]interface{}{"executions": len(recs)}))
		return false
	}
	rec := recs[0]
	// ---- what the servant received ----
	if len(rec.Ins) != len(inVals) {
		run.Violation("argument-count", fn.Name, "servant saw a different number of arguments", wit(nil))
		return false
	}
	for i, p := range inParams {
		got := sch.FromGo(p.T, reflect.ValueOf(rec.Ins[i]))
		if diff := rc.Diff(p.T, inVals[i], got, p.Name); diff != "" {
			run.Violation("argument-changed", fn.Name+":"+p.T.Kind.String(), fmt.Sprintf("%s: argument differs at the implementation: %s", fn.Name, diff), wit(map[string]interface{}{"difference": diff, "received": rc.Render(p.T, got)}))
			return false
		}
	}
	if w.Plain != nil {
		// request context / status are not observable without a context
	} else if !mapsEqual(rec.ReqContext, sentCtx) {
		run.Violation("request-context-changed", form, fmt.Sprintf("%s: request context at the implementation has %d entries, caller passed %d", fn.Name, len(rec.ReqContext), len(sentCtx)), wit(nil))
		return false
	}
	if w.Plain == nil && !mapsEqual(rec.ReqStatus, sentSt) {
		run.Violation("request-status-changed", form, fmt.Sprintf("%s: request status at the implementation %v, caller passed %v", fn.Name, clipMap(rec.ReqStatus), clipMap(sentSt)), wit(nil))
		return false
	}
	// ---- second hop: the back implementation sees what the front implementation passed, nothing else ----
	if cfg.TwoHop && backWorld != nil {
		var brecs []*vworld.Received
		waitFor(func() bool { brecs = backWorld.Servant.ReceivedFor("fwd-" + token); return len(brecs) >= 1 }, 3*time.Second)
		backWorld.Servant.Forget("fwd-" + token)
		if len(brecs) != 1 {
			run.Violation("not-executed-exactly-once", "second-hop", fmt.Sprintf("%s: the call the implementation made on to the second servant ran %d times", fn.Name, len(brecs)), wit(nil))
			return false
		}
		if !mapsEqual(brecs[0].ReqContext, map[string]string{vworld.TokenKey: "fwd-" + token}) {
			run.Violation("request-context-changed", "second-hop", fmt.Sprintf("%s: the second servant saw request context %s, its caller passed only the token", fn.Name, clipMap(brecs[0].ReqContext)), wit(nil))
			return false
		}
		if len(brecs[0].ReqStatus) != 0 {
			run.Violation("request-status-changed", "second-hop", fmt.Sprintf("%s: the second servant saw request status %s, its caller passed none (first-hop status: %s)", fn.Name, clipMap(brecs[0].ReqStatus), clipMap(sentSt)), wit(nil))
			return false
		}
	}
	// ---- what the caller got ----
	if form == "oneway" {
		if res.Err != nil {
			run.Violation("oneway-call-error", fn.Name, "one-way call returned "+res.Err.Error(), wit(nil))
			return false
		}
		// no response frame with this request's id on the wire
		var id int32
		found := false
		frames := tap.Frames()
		for _, f := range frames {
			if f.ToServer && f.Req != nil && f.Req.Context[vworld.TokenKey] == token {
				id, found = f.Req.RequestID, true
				if f.Req.PacketType != 1 {
					run.Violation("oneway-not-marked", fn.Name, "one-way request went out with packet type 0", wit(nil))
					return false
				}
			}
		}
		if found {
			time.Sleep(2 * time.Millisecond)
			for _, f := range tap.Frames() {
				if !f.ToServer && f.Rsp != nil && f.Rsp.RequestID == id {
					run.Violation("oneway-answered", fn.Name, fmt.Sprintf("a response frame with the id %d of a one-way request was written by the server", id), wit(nil))
					return false
				}
			}
		}
	} else if d.Err != nil {
		if res.Err == nil {
			run.Violation("error-lost", errKind(d.Err)+":"+cfg.ServerKind, fmt.Sprintf("%s: the implementation returned error %q, the caller got success", fn.Name, d.Err), wit(nil))
			return false
		}
		wantCode := tars.GetErrorCode(d.Err)
		if gc := tars.GetErrorCode(res.Err); gc != wantCode {
			run.Violation("error-code-changed", errKind(d.Err)+":"+cfg.ServerKind, fmt.Sprintf("%s: implementation error code %d, caller sees %d (%v)", fn.Name, wantCode, gc, res.Err), wit(nil))
			return false
		}
		// (an empty message travels as an empty description; what text the caller's error shows for
		// it is the framework's choice: only the code is compared then)
		if d.Err.Error() != "" && res.Err.Error() != d.Err.Error() {
			run.Violation("error-message-changed", errKind(d.Err)+":"+cfg.ServerKind, fmt.Sprintf("%s: implementation error %q, caller sees %q", fn.Name, d.Err, res.Err), wit(nil))
			return false
		}
	} else {
		if res.Err != nil {
			run.Violation("unexpected-error", fn.Name, fmt.Sprintf("%s: the implementation succeeded, the caller got %v", fn.Name, res.Err), wit(nil))
			return false
		}
		if fn.RetGoT != nil {
			got := sch.FromGo(fn.RetT, reflect.ValueOf(res.Ret))
			if diff := rc.Diff(fn.RetT, wantRet, got, "ret"); diff != "" {
				run.Violation("return-value-changed", fn.Name, diff, wit(map[string]interface{}{"difference": diff}))
				return false
			}
		}
		for i, p := range outParams {
			got := sch.FromGo(p.T, reflect.ValueOf(res.Outs[i]))
			if diff := rc.Diff(p.T, wantOuts[i], got, p.Name); diff != "" {
				run.Violation("out-parameter-changed", fn.Name+":"+p.Name, diff, wit(map[string]interface{}{"difference": diff}))
				return false
			}
		}
		wantC := d.RspContext
		if !mapsEqual(res.RspContext, wantC) {
			run.Violation("response-context-changed", form, fmt.Sprintf("%s: caller's context map after the call %v, implementation set %v", fn.Name, clipMap(res.RspContext), clipMap(wantC)), wit(nil))
			return false
		}
		if sentSt != nil && !mapsEqual(res.RspStatus, d.RspStatus) {
			run.Violation("response-status-changed", form, fmt.Sprintf("%s: caller's status map after the call %v, implementation set %v", fn.Name, clipMap(res.RspStatus), clipMap(d.RspStatus)), wit(nil))
			return false
		}
	}
	// ---- filters ----
	evs := flog.forToken(token)
	var enters []string
	for _, e := range evs {
		if e.phase == "enter" && !strings.Contains(e.id, "shadowed") {
			enters = append(enters, e.id)
		}
	}
	if form == "oneway" {
		// server-side events may still be on their way for a one-way call
		waitFor(func() bool { return len(enterIDs(flog.forToken(token))) >= len(expectEnter) }, 2*time.Second)
		enters = enterIDs(flog.forToken(token))
	}
	// registration order is judged per side: for a one-way call the client's post filters run as soon
	// as the request is sent, so there is no defined order between the two sides
	for _, side := range []string{"c-", "s-"} {
		var got, want []string
		for _, id := range enters {
			if strings.HasPrefix(id, side) {
				got = append(got, id)
			}
		}
		for _, id := range expectEnter {
			if strings.HasPrefix(id, side) {
				want = append(want, id)
			}
		}
		if strings.Join(got, ",") != strings.Join(want, ",") {
			run.Violation("filter-sequence", cfg.Name+":"+map[string]string{"c-": "client", "s-": "server"}[side], fmt.Sprintf("%s(%s): pass-through filters saw the call as [%s], registered order is [%s]", fn.Name, form, strings.Join(got, ","), strings.Join(want, ",")), wit(nil))
			return false
		}
	}
	// middleware / single: exits in reverse order of enters per side
	for _, side := range []string{"c-", "s-"} {
		var st []string
		for _, e := range flog.forToken(token) {
			if !strings.HasPrefix(e.id, side) || strings.Contains(e.id, "pre") || strings.Contains(e.id, "post") {
				continue
			}
			if e.phase == "enter" {
				st = append(st, e.id)
			} else if len(st) == 0 || st[len(st)-1] != e.id {
				run.Violation("filter-nesting", cfg.Name, fmt.Sprintf("filter %s exited out of nesting order", e.id), wit(nil))
				return false
			} else {
				st = st[:len(st)-1]
			}
		}
	}
	outk := "ok"
	if d.Err != nil {
		outk = errKind(d.Err)
	}
	var h uint64 = 1469598103934665603
	for i, v := range inVals {
		for _, b := range rc.EncodeValue(nil, inParams[i].T, v, 1, rc.EncOpt{}) {
			h = (h ^ uint64(b)) * 1099511628211
		}
	}
	run.Distinct(fmt.Sprintf("%s|%s|%s|%s|%x", cfg.Name, fn.Name, form, outk, h))
	if n%997 == 5 {
		run.Sample(wit(map[string]interface{}{"filter_events": len(evs)}))
	}
	return true
}

func enterIDs(evs []filterEvent) []string {
	var out []string
	for _, e := range evs {
		if e.phase == "enter" && !strings.Contains(e.id, "shadowed") {
			out = append(out, e.id)
		}
	}
	return out
}

func errKind(e error) string {
	if _, ok := e.(*tars.Error); ok {
		return "tars.Error"
	}
	return "plain-error"
}

func clipMap(m map[string]string) string {
	if m == nil {
		return "nil"
	}
	keys := make([]string, 0, len(m))
	for k := range m {
		keys = append(keys, k)
	}
	sort.Strings(keys)
	if len(keys) > 6 {
		return fmt.Sprintf("map[%d entries, first keys %q]", len(keys), keys[:6])
	}
	return fmt.Sprintf("%q", m)
}

func waitFor(cond func() bool, d time.Duration) bool {
	dl := time.Now().Add(d)
	for !cond() {
		if time.Now().After(dl) {
			return false
		}
		time.Sleep(200 * time.Microsecond)
	}
	return true
}
