// C02 — primitive codec: exact round trip and wire-format conformance.
//
// Monitor: for every (type, tag, value) case the real codec.Buffer writes the field followed by a
// sentinel; the bytes are compared with the independent reference encoding, then the real
// codec.Reader reads it back; value (bit pattern), reader offset after the field and the sentinel
// are checked.  Cross-width cases feed reference encodings in every narrower wire type to every
// wider reader.
package main

import (
	"bytes"
	"fmt"
	"math"
	"runtime"
	"sync"

	"github.com/TarsCloud/TarsGo/tars/protocol/codec"

	"verif/refcodec"
	"verif/vlib"
)

type witness struct {
	Type  string `json:"type"`
	Tag   int    `json:"tag"`
	Value string `json:"value"`
	Got   string `json:"got"`
	Want  string `json:"want"`
	What  string `json:"what"`
}

type prim struct {
	name   string
	signed bool
	lo, hi int64
	write  func(b *codec.Buffer, v int64, tag byte) error
	read   func(r *codec.Reader, tag byte, init int64, require bool) (int64, error) // init: what the destination holds before the read
}

var prims = []prim{
	{"bool", false, 0, 1,
		func(b *codec.Buffer, v int64, tag byte) error { return b.WriteBool(v != 0, tag) },
		func(r *codec.Reader, tag byte, init int64, require bool) (int64, error) {
			x := init&1 != 0
			err := r.ReadBool(&x, tag, require)
			if x {
				return 1, err
			}
			return 0, err
		}},
	{"int8", true, -128, 127,
		func(b *codec.Buffer, v int64, tag byte) error { return b.WriteInt8(int8(v), tag) },
		func(r *codec.Reader, tag byte, init int64, require bool) (int64, error) {
			x := int8(init)
			err := r.ReadInt8(&x, tag, require)
			return int64(x), err
		}},
	{"uint8", false, 0, 255,
		func(b *codec.Buffer, v int64, tag byte) error { return b.WriteUint8(uint8(v), tag) },
		func(r *codec.Reader, tag byte, init int64, require bool) (int64, error) {
			x := uint8(init)
			err := r.ReadUint8(&x, tag, require)
			return int64(x), err
		}},
	{"int16", true, -32768, 32767,
		func(b *codec.Buffer, v int64, tag byte) error { return b.WriteInt16(int16(v), tag) },
		func(r *codec.Reader, tag byte, init int64, require bool) (int64, error) {
			x := int16(init)
			err := r.ReadInt16(&x, tag, require)
			return int64(x), err
		}},
	{"uint16", false, 0, 65535,
		func(b *codec.Buffer, v int64, tag byte) error { return b.WriteUint16(uint16(v), tag) },
		func(r *codec.Reader, tag byte, init int64, require bool) (int64, error) {
			x := uint16(init)
			err := r.ReadUint16(&x, tag, require)
			return int64(x), err
		}},
	{"int32", true, math.MinInt32, math.MaxInt32,
		func(b *codec.Buffer, v int64, tag byte) error { return b.WriteInt32(int32(v), tag) },
		func(r *codec.Reader, tag byte, init int64, require bool) (int64, error) {
			x := int32(init)
			err := r.ReadInt32(&x, tag, require)
			return int64(x), err
		}},
	{"uint32", false, 0, math.MaxUint32,
		func(b *codec.Buffer, v int64, tag byte) error { return b.WriteUint32(uint32(v), tag) },
		func(r *codec.Reader, tag byte, init int64, require bool) (int64, error) {
			x := uint32(init)
			err := r.ReadUint32(&x, tag, require)
			return int64(x), err
		}},
	{"int64", true, math.MinInt64, math.MaxInt64,
		func(b *codec.Buffer, v int64, tag byte) error { return b.WriteInt64(v, tag) },
		func(r *codec.Reader, tag byte, init int64, require bool) (int64, error) {
			x := int64(init)
			err := r.ReadInt64(&x, tag, require)
			return x, err
		}},
}

const sentinel = int8(0x5A)

var run *vlib.Run

// offsetOf returns the reader's position in input (public API only: Next returns a sub-slice of
// the input, so its capacity tells where it starts).
func offsetOf(r *codec.Reader, input []byte) int {
	return cap(input) - cap(r.Next(1))
}

func report(class, ty string, tag int, value string, got, want []byte, what string) {
	run.Violation(class, ty, what, witness{ty, tag, value, fmt.Sprintf("%x", got), fmt.Sprintf("%x", want), what})
}

// intCase runs one integer case; returns false on violation.
func intCase(p *prim, v int64, tag int, buf *codec.Buffer) {
	buf.Reset()
	if err := p.write(buf, v, byte(tag)); err != nil {
		report("write-error", p.name, tag, fmt.Sprint(v), nil, nil, err.Error())
		return
	}
	fieldLen := buf.Len()
	_ = buf.WriteInt8(sentinel, 255)
	got := buf.ToBytes()
	var wantArr [16]byte
	want := refcodec.AppendInt(wantArr[:0], v, tag)
	if !bytes.Equal(got[:fieldLen], want) {
		report("bytes-mismatch", p.name, tag, fmt.Sprint(v), got[:fieldLen], want, "bytes written differ from the reference encoding")
		return
	}
	input := make([]byte, len(got))
	copy(input, got)
	r := codec.NewReader(input)
	back, err := p.read(r, byte(tag), ^v, true) // the destination is in use: it holds something else
	if err != nil {
		report("read-error", p.name, tag, fmt.Sprint(v), got, want, err.Error())
		return
	}
	if back != v {
		report("roundtrip-mismatch", p.name, tag, fmt.Sprint(v), got, want, fmt.Sprintf("read back %d", back))
		return
	}
	var s int8
	if err := r.ReadInt8(&s, 255, true); err != nil || s != sentinel {
		report("sentinel", p.name, tag, fmt.Sprint(v), got, want, fmt.Sprintf("sentinel after the field read as %d err=%v", s, err))
		return
	}
	r2 := codec.NewReader(input)
	// the same field read as an optional one (require=false): present, so the same value and position
	if back2, err := p.read(r2, byte(tag), ^v, false); err != nil || back2 != v {
		report("roundtrip-mismatch", p.name, tag, fmt.Sprint(v)+" read with require=false", got, want, fmt.Sprintf("read back %d err=%v", back2, err))
		return
	}
	if off := offsetOf(r2, input); off != fieldLen {
		report("offset", p.name, tag, fmt.Sprint(v), got, want, fmt.Sprintf("reader at offset %d after the field, field length %d", off, fieldLen))
	}
}

// wideCase feeds value v encoded by the reference in wire width w to reader p.
func wideCase(p *prim, v int64, w, tag int) {
	enc := refcodec.AppendIntWidth(nil, v, w, tag)
	fieldLen := len(enc)
	enc = refcodec.AppendIntWidth(enc, int64(sentinel), refcodec.TByte, 255)
	input := make([]byte, len(enc))
	copy(input, enc)
	r := codec.NewReader(input)
	back, err := p.read(r, byte(tag), ^v, tag%2 == 0)
	val := fmt.Sprintf("%d as %s", v, refcodec.TypeName(w))
	if err != nil {
		report("widening-rejected", p.name, tag, val, enc, nil, err.Error())
		return
	}
	if back != v {
		report("widening-value", p.name, tag, val, enc, nil, fmt.Sprintf("read back %d", back))
		return
	}
	if off := offsetOf(r, input); off != fieldLen {
		report("widening-offset", p.name, tag, val, enc, nil, fmt.Sprintf("offset %d, field length %d", off, fieldLen))
	}
}

func boundaryInts(lo, hi int64) []int64 {
	set := map[int64]bool{}
	add := func(v int64) {
		if v >= lo && v <= hi {
			set[v] = true
		}
	}
	for k := uint(0); k < 64; k++ {
		p := int64(1) << k
		for d := int64(-2); d <= 2; d++ {
			add(p + d)
			add(-p + d)
		}
	}
	for _, v := range []int64{lo, lo + 1, hi, hi - 1, 0, 1, -1, -129, -128, 127, 128, -32769, -32768, 32767, 32768, 255, 256, 65535, 65536,
		math.MinInt32, math.MinInt32 - 1, math.MaxInt32, math.MaxInt32 + 1, math.MaxUint32, math.MaxUint32 + 1, math.MinInt64, math.MaxInt64} {
		add(v)
	}
	out := make([]int64, 0, len(set))
	for v := range set {
		out = append(out, v)
	}
	return out
}

func fitsWire(v int64, w int) bool {
	switch w {
	case refcodec.TZero:
		return v == 0
	case refcodec.TByte:
		return v >= -128 && v <= 127
	case refcodec.TShort:
		return v >= -32768 && v <= 32767
	case refcodec.TInt:
		return v >= math.MinInt32 && v <= math.MaxInt32
	}
	return true
}

func maxWire(name string) int {
	switch name {
	case "bool", "int8":
		return refcodec.TByte
	case "uint8", "int16":
		return refcodec.TShort
	case "uint16", "int32":
		return refcodec.TInt
	}
	return refcodec.TLong
}

func parallel(n int, f func(i int)) {
	var wg sync.WaitGroup
	ch := make(chan int)
	for w := 0; w < runtime.NumCPU(); w++ {
		wg.Add(1)
		go func() {
			defer wg.Done()
			for i := range ch {
				f(i)
			}
		}()
	}
	for i := 0; i < n; i++ {
		ch <- i
	}
	close(ch)
	wg.Wait()
}

func floatCases32(rng func() uint64, nrand int) []uint32 {
	c := []uint32{0, 0x80000000, 0x7f800000, 0xff800000, 0x7fc00000, 0xffc00000, 0x7f800001, 0xff800001, 0x7fbfffff, 0x7fffffff, 0xffffffff,
		1, 0x80000001, 0x007fffff, 0x00800000, 0x7f7fffff, 0xff7fffff, 0x3f800000, 0xbf800000, 0x7fc00001, 0x7fa00000}
	for i := 0; i < 32; i++ {
		c = append(c, 1<<uint(i), ^uint32(1<<uint(i)))
	}
	for i := 0; i < nrand; i++ {
		c = append(c, uint32(rng()))
	}
	return c
}

func floatCases64(rng func() uint64, nrand int) []uint64 {
	c := []uint64{0, 1 << 63, 0x7ff0000000000000, 0xfff0000000000000, 0x7ff8000000000000, 0xfff8000000000000, 0x7ff0000000000001, 0xfff0000000000001,
		0x7ff7ffffffffffff, 0x7fffffffffffffff, 0xffffffffffffffff, 1, 0x8000000000000001, 0x000fffffffffffff, 0x0010000000000000,
		0x7fefffffffffffff, 0x3ff0000000000000, 0xbff0000000000000, 0x7ff4000000000000}
	for i := 0; i < 64; i++ {
		c = append(c, 1<<uint(i), ^uint64(1<<uint(i)))
	}
	for i := 0; i < nrand; i++ {
		c = append(c, rng())
	}
	return c
}

func float32Case(bits uint32, tag int) {
	buf := codec.NewBuffer()
	_ = buf.WriteFloat32(math.Float32frombits(bits), byte(tag))
	fieldLen := buf.Len()
	_ = buf.WriteInt8(sentinel, 255)
	got := buf.ToBytes()
	want := refcodec.AppendFloat32(nil, bits, tag)
	val := fmt.Sprintf("bits %#08x", bits)
	if !bytes.Equal(got[:fieldLen], want) {
		report("bytes-mismatch", "float32", tag, val, got[:fieldLen], want, "bytes differ from reference")
		return
	}
	input := append([]byte(nil), got...)
	input = input[:len(input):len(input)]
	r := codec.NewReader(input)
	x := math.Float32frombits(^bits)
	if err := r.ReadFloat32(&x, byte(tag), true); err != nil {
		report("read-error", "float32", tag, val, got, want, err.Error())
		return
	}
	if math.Float32bits(x) != bits {
		report("roundtrip-mismatch", "float32", tag, val, got, want, fmt.Sprintf("read back bits %#08x", math.Float32bits(x)))
		return
	}
	if off := offsetOf(r, input); off != fieldLen {
		report("offset", "float32", tag, val, got, want, fmt.Sprintf("offset %d field length %d", off, fieldLen))
	}
	// widening: a double reader accepts the float encoding with the same numeric value
	r2 := codec.NewReader(input)
	d := -1 - float64(math.Float32frombits(bits))
	if d != d {
		d = 1
	}
	if err := r2.ReadFloat64(&d, byte(tag), tag%2 == 0); err != nil {
		report("widening-rejected", "float64", tag, val+" as Float", got, nil, err.Error())
		return
	}
	f := math.Float32frombits(bits)
	if f != f {
		if d == d {
			report("widening-value", "float64", tag, val+" as Float", got, nil, "NaN read as a number")
		}
	} else if d != float64(f) || math.Signbit(d) != math.Signbit(float64(f)) {
		report("widening-value", "float64", tag, val+" as Float", got, nil, fmt.Sprintf("read %v want %v", d, float64(f)))
	}
	if off := offsetOf(r2, input); off != fieldLen {
		report("widening-offset", "float64", tag, val+" as Float", got, nil, fmt.Sprintf("offset %d field length %d", off, fieldLen))
	}
}

func float64Case(bits uint64, tag int) {
	buf := codec.NewBuffer()
	_ = buf.WriteFloat64(math.Float64frombits(bits), byte(tag))
	fieldLen := buf.Len()
	_ = buf.WriteInt8(sentinel, 255)
	got := buf.ToBytes()
	want := refcodec.AppendFloat64(nil, bits, tag)
	val := fmt.Sprintf("bits %#016x", bits)
	if !bytes.Equal(got[:fieldLen], want) {
		report("bytes-mismatch", "float64", tag, val, got[:fieldLen], want, "bytes differ from reference")
		return
	}
	input := append([]byte(nil), got...)
	input = input[:len(input):len(input)]
	r := codec.NewReader(input)
	x := math.Float64frombits(^bits)
	if err := r.ReadFloat64(&x, byte(tag), true); err != nil {
		report("read-error", "float64", tag, val, got, want, err.Error())
		return
	}
	if math.Float64bits(x) != bits {
		report("roundtrip-mismatch", "float64", tag, val, got, want, fmt.Sprintf("read back bits %#016x", math.Float64bits(x)))
		return
	}
	if off := offsetOf(r, input); off != fieldLen {
		report("offset", "float64", tag, val, got, want, fmt.Sprintf("offset %d field length %d", off, fieldLen))
	}
	var s int8
	if err := r2sentinel(input, byte(tag), &s); err != nil || s != sentinel {
		report("sentinel", "float64", tag, val, got, want, fmt.Sprintf("sentinel %d err=%v", s, err))
	}
}

func r2sentinel(input []byte, tag byte, s *int8) error {
	r := codec.NewReader(input)
	var x float64
	if err := r.ReadFloat64(&x, tag, true); err != nil {
		return err
	}
	return r.ReadInt8(s, 255, true)
}

func stringCase(s []byte, tag int) {
	buf := codec.NewBuffer()
	_ = buf.WriteString(string(s), byte(tag))
	fieldLen := buf.Len()
	_ = buf.WriteInt8(sentinel, 255)
	got := buf.ToBytes()
	want := refcodec.AppendString(nil, s, tag)
	val := fmt.Sprintf("len %d head %x", len(s), s[:min(len(s), 16)])
	if !bytes.Equal(got[:fieldLen], want) {
		report("bytes-mismatch", "string", tag, val, got[:min(fieldLen, 32)], want[:min(len(want), 32)], "bytes differ from reference")
		return
	}
	input := append([]byte(nil), got...)
	input = input[:len(input):len(input)]
	r := codec.NewReader(input)
	x := string(s) + "~what the destination held before"
	if err := r.ReadString(&x, byte(tag), true); err != nil {
		report("read-error", "string", tag, val, nil, nil, err.Error())
		return
	}
	if x != string(s) {
		report("roundtrip-mismatch", "string", tag, val, nil, nil, fmt.Sprintf("read back len %d", len(x)))
		return
	}
	var sv int8
	if err := r.ReadInt8(&sv, 255, true); err != nil || sv != sentinel {
		report("sentinel", "string", tag, val, nil, nil, fmt.Sprintf("sentinel %d err=%v", sv, err))
		return
	}
	r2 := codec.NewReader(input)
	y := "~stale"
	if err := r2.ReadString(&y, byte(tag), false); err != nil || y != string(s) {
		report("roundtrip-mismatch", "string", tag, val+" read with require=false", nil, nil, fmt.Sprintf("read back len %d err=%v", len(y), err))
		return
	}
	if off := offsetOf(r2, input); off != fieldLen {
		report("offset", "string", tag, val, nil, nil, fmt.Sprintf("offset %d field length %d", off, fieldLen))
	}
	// the value read is a value of its own: it stays what was written when the caller's input
	// buffer is used for the next message
	for i := range input {
		input[i] ^= 0xFF
	}
	if x != string(s) || y != string(s) {
		report("roundtrip-mismatch", "string", tag, val+" then the input buffer reused", nil, nil, "the string read changed when the input buffer it was read from was overwritten")
		return
	}
	// a String4 encoding of a short string is also a well-formed string field
	if len(s) <= 255 {
		enc := refcodec.AppendString4(nil, s, tag)
		fl := len(enc)
		enc = refcodec.AppendIntWidth(enc, int64(sentinel), refcodec.TByte, 255)
		enc = enc[:len(enc):len(enc)]
		r3 := codec.NewReader(enc)
		x = "~stale~" + string(s)
		if err := r3.ReadString(&x, byte(tag), true); err != nil || x != string(s) {
			report("widening-value", "string", tag, val+" as String4", nil, nil, fmt.Sprintf("err=%v len=%d", err, len(x)))
		} else if off := offsetOf(r3, enc); off != fl {
			report("widening-offset", "string", tag, val+" as String4", nil, nil, fmt.Sprintf("offset %d field length %d", off, fl))
		} else {
			for i := range enc {
				enc[i] ^= 0xFF
			}
			if x != string(s) {
				report("widening-value", "string", tag, val+" as String4 then the input buffer reused", nil, nil, "the string read changed when the input buffer it was read from was overwritten")
			}
		}
	}
}

func main() {
	run = vlib.Start("C02")
	run.SetRule("exhaustive: bool,int8,uint8,int16,uint16 x all 256 tags x all values; boundary-dense (all +-2^k+-{0,1,2}, width limits) x 256 tags and seeded-random (value, tag) for int32/uint32/int64/float32/float64; strings of boundary lengths with arbitrary bytes x tags {0,1,14,15,16,254,255}; cross-width: every narrower reference encoding into every wider reader. A case is (type, tag, value[, wire width]); all enumerated cases are distinct by construction, random ones are counted via a hash set.")
	run.Assume("reference encoder refcodec (written from the wire-format description) is correct")

	if rp := run.ReplayPath(); rp != "" {
		replay(rp)
		run.Finish()
		return
	}

	// ---- exhaustive 8/16-bit types x all tags ----
	var exhaustive int64
	for pi := range prims[:5] {
		p := &prims[pi]
		parallel(256, func(tag int) {
			buf := codec.NewBuffer()
			for v := p.lo; v <= p.hi; v++ {
				intCase(p, v, tag, buf)
			}
			run.Eval(p.hi - p.lo + 1)
		})
		exhaustive += (p.hi - p.lo + 1) * 256
	}
	run.DistinctN(exhaustive)
	run.Set("exhaustive_8_16bit_cases", exhaustive)
	run.Sample(map[string]interface{}{"type": "int16", "tag": 200, "value": -129, "bytes": fmt.Sprintf("%x", refcodec.AppendInt(nil, -129, 200))})

	// ---- wide integers: boundaries x all tags ----
	var boundaryCases int64
	for pi := 5; pi < len(prims); pi++ {
		p := &prims[pi]
		bs := boundaryInts(p.lo, p.hi)
		parallel(256, func(tag int) {
			buf := codec.NewBuffer()
			for _, v := range bs {
				intCase(p, v, tag, buf)
			}
			run.Eval(int64(len(bs)))
		})
		boundaryCases += int64(len(bs)) * 256
	}
	run.DistinctN(boundaryCases)
	run.Set("boundary_int_cases", boundaryCases)

	// ---- wide integers: random ----
	nrand := run.Pick(1_000_000, 50_000_000)
	workers := runtime.NumCPU()
	var randDistinct sync.Map
	var randCount int64
	var mu sync.Mutex
	for pi := 5; pi < len(prims); pi++ {
		p := &prims[pi]
		parallel(workers, func(w int) {
			rng := run.Rand(fmt.Sprintf("int-%s-%d", p.name, w))
			buf := codec.NewBuffer()
			seen := map[[2]int64]struct{}{}
			n := nrand / workers
			for i := 0; i < n; i++ {
				var v int64
				switch rng.Intn(4) {
				case 0:
					v = int64(rng.Uint64())
				case 1:
					v = int64(rng.Uint64()) >> uint(rng.Intn(64))
				case 2:
					v = int64(int32(rng.Uint32()))
				default:
					v = int64(int32(rng.Uint32())) >> uint(rng.Intn(32))
				}
				if v < p.lo || v > p.hi {
					if p.name == "uint32" {
						v = int64(uint32(v))
					} else {
						v = int64(int32(v))
					}
				}
				tag := rng.Intn(256)
				intCase(p, v, tag, buf)
				if len(seen) < 200000 {
					seen[[2]int64{v, int64(tag)}] = struct{}{}
				}
			}
			run.Eval(int64(n))
			mu.Lock()
			randCount += int64(len(seen))
			mu.Unlock()
		})
	}
	_ = randDistinct
	run.Set("random_int_cases_distinct_lower_bound_per_worker_sets", randCount)

	// ---- cross width ----
	var wide int64
	widths := []int{refcodec.TZero, refcodec.TByte, refcodec.TShort, refcodec.TInt, refcodec.TLong}
	for pi := range prims {
		p := &prims[pi]
		var vals []int64
		if p.hi <= 65535 && p.lo >= -32768 {
			for v := p.lo; v <= p.hi; v++ {
				vals = append(vals, v)
			}
		} else {
			vals = boundaryInts(p.lo, p.hi)
			rng := run.Rand("wide-" + p.name)
			for i := 0; i < 20000; i++ {
				v := int64(rng.Uint64()) >> uint(rng.Intn(64))
				if v >= p.lo && v <= p.hi {
					vals = append(vals, v)
				}
			}
		}
		tags := []int{0, 1, 14, 15, 16, 127, 128, 254, 255}
		var n int64
		for _, tag := range tags {
			for _, v := range vals {
				for _, w := range widths {
					if w > maxWire(p.name) && w != refcodec.TZero {
						continue
					}
					if !fitsWire(v, w) {
						continue
					}
					wideCase(p, v, w, tag)
					n++
				}
			}
		}
		run.Eval(n)
		wide += n
	}
	run.DistinctN(wide)
	run.Set("cross_width_cases", wide)
	run.Sample(map[string]interface{}{"reader": "int64", "tag": 15, "value": -1, "wire": "Byte", "bytes": fmt.Sprintf("%x", refcodec.AppendIntWidth(nil, -1, refcodec.TByte, 15))})

	// ZeroTag into float readers
	for _, tag := range []int{0, 14, 15, 255} {
		enc := refcodec.AppendIntWidth(nil, 0, refcodec.TZero, tag)
		r := codec.NewReader(enc)
		f := float32(3)
		if err := r.ReadFloat32(&f, byte(tag), true); err != nil || f != 0 {
			report("widening-value", "float32", tag, "Zero marker", enc, nil, fmt.Sprintf("read %v err=%v", f, err))
		}
		r = codec.NewReader(enc)
		d := float64(3)
		if err := r.ReadFloat64(&d, byte(tag), true); err != nil || d != 0 {
			report("widening-value", "float64", tag, "Zero marker", enc, nil, fmt.Sprintf("read %v err=%v", d, err))
		}
		run.Eval(2)
		run.DistinctN(2)
	}

	// ---- floats ----
	frand := run.Pick(200_000, 20_000_000)
	rng := run.Rand("floats")
	f32 := floatCases32(rng.Uint64, 2000)
	f64 := floatCases64(rng.Uint64, 2000)
	parallel(256, func(tag int) {
		for _, b := range f32 {
			float32Case(b, tag)
		}
		for _, b := range f64 {
			float64Case(b, tag)
		}
		run.Eval(int64(len(f32) + len(f64)))
	})
	run.DistinctN(int64(256 * (len(f32) + len(f64))))
	parallel(workers, func(w int) {
		rng := run.Rand(fmt.Sprintf("frand-%d", w))
		n := frand / workers
		for i := 0; i < n; i++ {
			float32Case(rng.Uint32(), rng.Intn(256))
			float64Case(rng.Uint64(), rng.Intn(256))
		}
		run.Eval(int64(2 * n))
	})
	run.Sample(map[string]interface{}{"type": "float32", "tag": 7, "bits": "0x7fa00000 (signalling NaN)", "bytes": fmt.Sprintf("%x", refcodec.AppendFloat32(nil, 0x7fa00000, 7))})

	// ---- strings ----
	lens := []int{0, 1, 2, 127, 128, 254, 255, 256, 257, 1000, 65535, 65536, 65537, 1 << 20}
	if run.Thorough() {
		lens = append(lens, 1<<24, 3, 4, 5, 253, 511, 512, 32767, 32768)
	}
	srng := run.Rand("strings")
	var strCases int64
	for _, l := range lens {
		for variant := 0; variant < 4; variant++ {
			s := make([]byte, l)
			switch variant {
			case 0:
				srng.Read(s)
			case 1: // all NUL
			case 2:
				for i := range s {
					s[i] = 0xff
				}
			case 3:
				for i := range s {
					s[i] = "\x00\x0b\x0a\xf0\x80é"[i%7]
				}
			}
			for _, tag := range []int{0, 1, 14, 15, 16, 254, 255} {
				stringCase(s, tag)
				strCases++
			}
		}
	}
	nstr := run.Pick(20000, 400000)
	parallel(workers, func(w int) {
		rng := run.Rand(fmt.Sprintf("srand-%d", w))
		for i := 0; i < nstr/workers; i++ {
			l := rng.Intn(600)
			if rng.Intn(20) == 0 {
				l = rng.Intn(70000)
			}
			s := make([]byte, l)
			rng.Read(s)
			stringCase(s, rng.Intn(256))
		}
		run.Eval(int64(nstr / workers))
	})
	run.Eval(strCases)
	run.DistinctN(strCases)
	run.Set("string_boundary_cases", strCases)
	run.Sample(map[string]interface{}{"type": "string", "tag": 254, "len": 256, "head_bytes": fmt.Sprintf("%x", refcodec.AppendString(nil, make([]byte, 256), 254)[:8])})
	tupPhase()
	run.SetExhaustive(false)
	run.Set("exhaustive_subspace", "bool/int8/uint8/int16/uint16 x tags 0..255 x all values is enumerated completely; wider types are sampled")
	run.Finish()
}

func replay(path string) {
	var w witness
	if err := vlib.LoadReplay(path, &w); err != nil {
		fmt.Println("cannot load replay:", err)
		return
	}
	fmt.Printf("replaying %+v\n", w)
	for pi := range prims {
		if prims[pi].name == w.Type {
			var v int64
			var wire string
			if n, _ := fmt.Sscanf(w.Value, "%d as %s", &v, &wire); n == 2 {
				for wt, nm := range refcodec.TypeNames {
					if nm == wire {
						wideCase(&prims[pi], v, wt, w.Tag)
					}
				}
			} else if n, _ := fmt.Sscanf(w.Value, "%d", &v); n == 1 {
				intCase(&prims[pi], v, w.Tag, codec.NewBuffer())
			}
			run.Eval(1)
		}
	}
	var b32 uint32
	var b64 uint64
	if w.Type == "float32" {
		if n, _ := fmt.Sscanf(w.Value, "bits 0x%x", &b32); n == 1 {
			float32Case(b32, w.Tag)
		}
	}
	if w.Type == "float64" {
		if n, _ := fmt.Sscanf(w.Value, "bits 0x%x", &b64); n == 1 {
			if len(w.Value) <= len("bits 0x00000000")+0 {
				float32Case(uint32(b64), w.Tag)
			} else {
				float64Case(b64, w.Tag)
			}
		}
	}
	if w.Type == "string" {
		var l int
		if n, _ := fmt.Sscanf(w.Value, "len %d", &l); n == 1 {
			s := make([]byte, l)
			run.Rand("replay").Read(s)
			stringCase(s, w.Tag)
		}
	}
}
