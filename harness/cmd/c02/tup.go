// C02, attribute sets: tup.UniAttribute.Put encodes a primitive with the codec (tag 0) and holds the
// bytes under a name; the held bytes must be, and stay, the prescribed wire bytes of that value
// whatever else is put into the same set afterwards, and must come back unchanged from
// Encode -> Decode.  (Put prints one line per call on stdout: the phase is kept small.)
package main

import (
	"bytes"
	"fmt"
	"math"
	"os"

	"github.com/TarsCloud/TarsGo/tars/protocol/codec"
	"github.com/TarsCloud/TarsGo/tars/protocol/tup"

	"verif/refcodec"
)

type tupVal struct {
	v    interface{}
	want []byte
	desc string
}

func tupValues() []tupVal {
	var out []tupVal
	add := func(v interface{}, want []byte) {
		out = append(out, tupVal{v, want, fmt.Sprintf("%T(%v)", v, v)})
	}
	for _, x := range []int64{0, 1, -1, 127, -128, 128, -129, 32767, -32768, 32768, -32769, math.MaxInt32, math.MinInt32, math.MaxInt32 + 1, math.MinInt32 - 1, math.MaxInt64, math.MinInt64} {
		add(x, refcodec.AppendInt(nil, x, 0))
		if x >= math.MinInt32 && x <= math.MaxInt32 {
			add(int32(x), refcodec.AppendInt(nil, x, 0))
		}
		if x >= math.MinInt16 && x <= math.MaxInt16 {
			add(int16(x), refcodec.AppendInt(nil, x, 0))
		}
		if x >= math.MinInt8 && x <= math.MaxInt8 {
			add(int8(x), refcodec.AppendInt(nil, x, 0))
		}
		if x >= 0 && x <= math.MaxUint32 {
			add(uint32(x), refcodec.AppendInt(nil, x, 0))
		}
		if x >= 0 && x <= math.MaxUint16 {
			add(uint16(x), refcodec.AppendInt(nil, x, 0))
		}
		if x >= 0 && x <= math.MaxUint8 {
			add(uint8(x), refcodec.AppendInt(nil, x, 0))
		}
	}
	add(true, refcodec.AppendInt(nil, 1, 0))
	add(false, refcodec.AppendInt(nil, 0, 0))
	for _, f := range []float32{0, 1.5, -2.25, math.MaxFloat32, math.SmallestNonzeroFloat32} {
		add(f, refcodec.AppendFloat32(nil, math.Float32bits(f), 0))
	}
	for _, f := range []float64{0, 1.5, -2.25, math.MaxFloat64, math.SmallestNonzeroFloat64} {
		add(f, refcodec.AppendFloat64(nil, math.Float64bits(f), 0))
	}
	for _, n := range []int{0, 1, 7, 255, 256, 1000} {
		s := bytes.Repeat([]byte{'a' + byte(n%26)}, n)
		add(string(s), refcodec.AppendString(nil, s, 0))
	}
	return out
}

func tupPhase() {
	vals := tupValues()
	// Put prints "<key> = <n>" per call: keep the check's own output readable
	stdout := os.Stdout
	if null, err := os.OpenFile(os.DevNull, os.O_WRONLY, 0); err == nil {
		os.Stdout = null
		defer func() { os.Stdout = stdout; null.Close() }()
	}
	orders := 6
	for o := 0; o < orders; o++ {
		rng := run.Rand(fmt.Sprintf("tup-order-%d", o))
		idx := rng.Perm(len(vals))
		switch o {
		case 0:
			for i := range idx {
				idx[i] = i
			}
		case 1:
			for i := range idx {
				idx[i] = len(vals) - 1 - i
			}
		}
		ua := tup.NewUniAttribute()
		for _, i := range idx {
			if err := ua.Put(fmt.Sprintf("k%03d", i), vals[i].v); err != nil {
				report("tup-put-error", "UniAttribute", 0, vals[i].desc, nil, vals[i].want, "Put refused a primitive: "+err.Error())
				return
			}
		}
		check := func(u *tup.UniAttribute, stage string) bool {
			for n, i := range idx {
				var got []byte
				if err := u.GetBuffer(fmt.Sprintf("k%03d", i), &got); err != nil {
					report("tup-value-lost", "UniAttribute", 0, vals[i].desc, nil, vals[i].want, stage+": "+err.Error())
					return false
				}
				if !bytes.Equal(got, vals[i].want) {
					report("tup-held-bytes-changed", "UniAttribute", 0, vals[i].desc, got, vals[i].want,
						fmt.Sprintf("%s: the bytes held for the value put as number %d of %d are not its wire bytes (order %d)", stage, n+1, len(idx), o))
					return false
				}
				run.Eval(1)
			}
			return true
		}
		if !check(ua, "after all Puts") {
			return
		}
		buf := codec.NewBuffer()
		if err := ua.Encode(buf); err != nil {
			report("tup-encode-error", "UniAttribute", 0, "", nil, nil, err.Error())
			return
		}
		ub := tup.NewUniAttribute()
		if err := ub.Decode(codec.NewReader(buf.ToBytes())); err != nil {
			report("tup-decode-error", "UniAttribute", 0, "", buf.ToBytes(), nil, err.Error())
			return
		}
		if !check(ub, "after Encode -> Decode") {
			return
		}
		run.Add("tup_attribute_sets_checked", 1)
		run.Add("tup_values_put", int64(len(idx)))
	}
}
