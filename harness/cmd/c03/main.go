// C03 — generated struct codecs round-trip and match the IDL schema encoding.
//
// Monitor: for every generated struct type found in the working tree (framework bindings under
// tars/protocol/res and the IDL corpus of /verif/idl compiled by the working tree's tars2go) values
// from every generation mode are encoded by the real generated code; the bytes are (1) decoded by
// the generated code into a fresh struct and compared, (2) decoded by the independent
// schema-directed reference decoder and compared, (3) checked for canonical form (tags of the
// schema only, strictly ascending, admissible wire type, required present, narrowest integers).
// The same through WriteBlock/ReadBlock under several tags.  The schema read from the Go struct
// tags is cross-checked against the .tars declaration.
package main

import (
	"fmt"
	"reflect"
	"runtime"
	"runtime/debug"
	"sync"

	"github.com/TarsCloud/TarsGo/tars/protocol/codec"

	rc "verif/refcodec"
	"verif/resreg"
	"verif/sch"
	"verif/vlib"
)

var run *vlib.Run

type tinfo struct {
	e  resreg.Entry
	s  *rc.Struct
	st *rc.Type
}

func hexClip(b []byte) string {
	if len(b) > 200 {
		return fmt.Sprintf("%x…(%d bytes)", b[:200], len(b))
	}
	return fmt.Sprintf("%x", b)
}

func oneCase(ti *tinfo, v *rc.Value, mode int, blockTag int) {
	defer func() {
		if r := recover(); r != nil {
			run.Violation("panic", ti.e.Name, fmt.Sprintf("%v", r), map[string]interface{}{"type": ti.e.Name, "value": rc.Render(ti.st, v), "stack": vlib.Tail(string(debug.Stack()), 2000)})
		}
	}()
	obj := ti.e.New()
	sch.ToGo(ti.st, v, reflect.ValueOf(obj).Elem())
	buf := codec.NewBuffer()
	var err error
	if blockTag >= 0 {
		err = obj.WriteBlock(buf, byte(blockTag))
	} else {
		err = obj.WriteTo(buf)
	}
	wit := func(extra map[string]interface{}) map[string]interface{} {
		m := map[string]interface{}{"type": ti.e.Name, "mode": mode, "value": rc.Render(ti.st, v), "block_tag": blockTag, "bytes": hexClip(buf.ToBytes())}
		for k, x := range extra {
			m[k] = x
		}
		return m
	}
	if err != nil {
		run.Violation("encode-error", ti.e.Name, err.Error(), wit(nil))
		return
	}
	enc := append([]byte(nil), buf.ToBytes()...)
	// (1) generated decoder into a fresh struct
	obj2 := ti.e.New()
	rd := codec.NewReader(enc)
	if blockTag >= 0 {
		err = obj2.ReadBlock(rd, byte(blockTag), true)
	} else {
		err = obj2.ReadFrom(rd)
	}
	if err != nil {
		run.Violation("decode-error", ti.e.Name, err.Error(), wit(nil))
		return
	}
	v2 := sch.FromGo(ti.st, reflect.ValueOf(obj2).Elem())
	if d := rc.Diff(ti.st, v, v2, ""); d != "" {
		run.Violation("roundtrip-mismatch", ti.e.Name, d, wit(map[string]interface{}{"decoded": rc.Render(ti.st, v2), "difference": d}))
		return
	}
	// (2)+(3) reference
	var nodes []*rc.Node
	if blockTag >= 0 {
		n, perr := rc.ParseOne(enc)
		if perr != nil || n.End != len(enc) || n.Type != rc.TStructBegin || n.Tag != blockTag {
			run.Violation("malformed-encoding", ti.e.Name, fmt.Sprintf("WriteBlock output is not one struct field under tag %d: %v", blockTag, perr), wit(nil))
			return
		}
		nodes = n.Sub
	} else {
		var perr error
		nodes, perr = rc.ParseFields(enc)
		if perr != nil {
			run.Violation("malformed-encoding", ti.e.Name, "reference parser rejects the bytes: "+perr.Error(), wit(nil))
			return
		}
	}
	v3, derr := rc.DecodeNodes(ti.s, nodes)
	if derr != nil {
		run.Violation("reference-decode-error", ti.e.Name, derr.Error(), wit(nil))
		return
	}
	if d := rc.Diff(ti.st, v, v3, ""); d != "" {
		run.Violation("reference-value-mismatch", ti.e.Name, d, wit(map[string]interface{}{"reference_decoded": rc.Render(ti.st, v3), "difference": d}))
		return
	}
	if cerr := rc.CheckCanonical(ti.s, nodes); cerr != nil {
		run.Violation("non-canonical-encoding", ti.e.Name, cerr.Error(), wit(nil))
		return
	}
	run.Distinct(ti.e.Name + "|" + string(enc))
}

func main() {
	run = vlib.Start("C03")
	run.SetRule("every generated struct type in the working tree (registry rebuilt by scanning tars/protocol/res/* and the tars2go output for /verif/idl/*.tars) x N values from 5 generation modes (all defaults, all non-default, width boundaries/float specials/boundary string lengths, random mix, big containers) x {WriteTo/ReadFrom, WriteBlock/ReadBlock at tags 0,1,14,15,200,255}. A case is (type, value, form); distinct = distinct (type, encoding) pairs, counted.")
	run.Assume("reference decoder and canonical-form checker in harness/refcodec; schema = Go struct tags (reflection) cross-checked with the .tars declaration; defaults from the .tars files")
	run.Assume("negative zero is not generated for optional float members (the writer omits members comparing equal to the default); NaN/-0 are not used as map keys")
	if len(resreg.Types) == 0 {
		fmt.Println("registry is empty: the check was built without the overlay")
		run.Finish()
	}
	u, err := sch.LoadUniverse(resreg.TarsFiles)
	if err != nil {
		fmt.Println("cannot read IDL sources:", err)
		run.Finish()
	}
	var tis []*tinfo
	idlChecked, idlMissing := 0, 0
	for _, e := range resreg.Types {
		obj := e.New()
		s, err := u.SchemaOf(obj)
		if err != nil {
			run.Violation("schema-unreadable", e.Name, err.Error(), map[string]interface{}{"type": e.Name})
			continue
		}
		switch d := u.CompareWithIDL(obj, s); d {
		case "":
			idlChecked++
		case "?":
			idlMissing++
		default:
			run.Violation("struct-tags-disagree-with-idl", e.Name, d, map[string]interface{}{"type": e.Name})
		}
		tis = append(tis, &tinfo{e: e, s: s, st: &rc.Type{Kind: rc.KStruct, St: s}})
	}
	run.Set("struct_types", len(tis))
	run.Set("struct_types_cross_checked_with_idl", idlChecked)
	run.Set("struct_types_without_idl_declaration", idlMissing)
	n := run.Pick(150, 4000)
	blockTags := []int{0, 1, 14, 15, 200, 255}
	var wg sync.WaitGroup
	sem := make(chan struct{}, runtime.NumCPU())
	for i, ti := range tis {
		wg.Add(1)
		sem <- struct{}{}
		go func(i int, ti *tinfo) {
			defer wg.Done()
			defer func() { <-sem }()
			g := sch.NewGen(run.Rand("c03-" + ti.e.Name))
			for k := 0; k < n; k++ {
				mode := k % sch.NumModes
				v := g.Struct(ti.s, mode)
				oneCase(ti, v, mode, -1)
				oneCase(ti, v, mode, blockTags[k%len(blockTags)])
				run.Eval(2)
				if i == 0 && k == 3 {
					run.Sample(map[string]interface{}{"type": ti.e.Name, "mode": mode, "value": rc.Render(ti.st, v)})
				}
			}
		}(i, ti)
	}
	wg.Wait()
	for _, ti := range tis {
		if ti.e.Name == "VT.OptScalars" {
			g := sch.NewGen(run.Rand("sample"))
			v := g.Struct(ti.s, sch.ModeBoundary)
			run.Sample(map[string]interface{}{"type": ti.e.Name, "value": rc.Render(ti.st, v), "encoding": hexClip(rc.EncodeStruct(nil, ti.s, v, rc.EncOpt{OmitDefaults: true}))})
		}
	}
	run.Finish()
}
