package main

import (
	"context"
	"encoding/json"
	"fmt"
	"math/rand"
	"reflect"
	"strings"

	"github.com/TarsCloud/TarsGo/tars"
	"github.com/TarsCloud/TarsGo/tars/util/current"
	"github.com/TarsCloud/TarsGo/tars/util/rogger"

	"verif/gen/VI"
	"verif/netlab"
	rc "verif/refcodec"
	"verif/resreg"
	"verif/sch"
	"verif/vworld"
)

// jsonDispatchPhase: "an absent optional field decodes to its IDL default" at the place where the
// JSON protocol version meets the generated dispatcher.  A JSON-version request carries the
// in-parameters as members of one JSON document; an old writer leaves out the members of a struct
// parameter it does not know.  The implementation must then be handed the struct with those members
// at their IDL defaults — the same value the binary versions produce.  Control: the same request
// with every member present must hand the implementation exactly the generated value (otherwise
// the value does not survive JSON — non-UTF-8 strings, NaN — and the case is not judged).
func jsonDispatchPhase(r *rand.Rand) {
	u, err := sch.LoadUniverse(resreg.TarsFiles)
	if err != nil {
		run.Inconclusive("json dispatch phase: " + err.Error())
		return
	}
	funcs, err := vworld.LoadFuncs(u)
	if err != nil {
		run.Inconclusive("json dispatch phase: " + err.Error())
		return
	}
	rogger.SetLevel(rogger.OFF)
	app := tars.VerifNewApp()
	servant := vworld.NewServant()
	proto := app.NewProtocol(new(VI.Echo), servant, true)
	g := sch.NewGen(r)
	g.MaxDepth = 3
	id := int32(900)
	call := func(fn *vworld.Func, doc map[string]json.RawMessage, tok string) bool {
		b, err := json.Marshal(doc)
		if err != nil {
			return false
		}
		id++
		frame := (&netlab.Request{Version: 5, RequestID: id, Servant: "Verif.C04.Echo", Func: fn.Name, Buffer: b, Timeout: 0,
			Context: map[string]string{vworld.TokenKey: tok}, Status: map[string]string{}}).Encode()
		ctx := current.ContextWithTarsCurrent(context.Background())
		_ = proto.Invoke(ctx, frame)
		return true
	}
	jsonName := func(gt reflect.Type, f *rc.Field) string {
		for k := 0; k < gt.NumField(); k++ {
			if strings.Split(gt.Field(k).Tag.Get("tars"), ",")[0] == f.Name {
				return strings.Split(gt.Field(k).Tag.Get("json"), ",")[0]
			}
		}
		return ""
	}
	rounds := run.Pick(12, 300)
	judged := 0
	for round := 0; round < rounds; round++ {
		for _, fn := range funcs {
			var ins []vworld.Param
			structParams := 0
			for _, p := range fn.Params {
				if !p.Out {
					ins = append(ins, p)
					if p.T.Kind == rc.KStruct {
						structParams++
					}
				}
			}
			if structParams == 0 {
				continue
			}
			vals := make([]*rc.Value, len(ins))
			doc := map[string]json.RawMessage{}
			ok := true
			for i, p := range ins {
				vals[i] = g.Value(p.T, []int{sch.ModeNonZero, sch.ModeRandom, sch.ModeBoundary}[round%3], 0, false, nil)
				gv := reflect.New(p.GoT)
				sch.ToGo(p.T, vals[i], gv.Elem())
				raw, err := json.Marshal(gv.Interface())
				if err != nil {
					ok = false
					break
				}
				doc[p.Name] = raw
			}
			if !ok {
				run.Add("json_dispatch_value_not_expressible_in_json_not_judged", 1)
				continue
			}
			received := func(tok string) []*rc.Value {
				recs := servant.ReceivedFor(tok)
				servant.Forget(tok)
				if len(recs) != 1 || len(recs[0].Ins) != len(ins) {
					return nil
				}
				out := make([]*rc.Value, len(ins))
				for i, p := range ins {
					out[i] = sch.FromGo(p.T, reflect.ValueOf(recs[0].Ins[i]))
				}
				return out
			}
			tok := fmt.Sprintf("c04json-%d-%s-all", round, fn.Name)
			if !call(fn, doc, tok) {
				continue
			}
			got := received(tok)
			control := got != nil
			for i := range ins {
				if control && !rc.Equal(ins[i].T, got[i], vals[i]) {
					control = false
				}
			}
			if !control {
				run.Add("json_dispatch_value_does_not_survive_json_not_judged", 1)
				continue
			}
			// old writers: every struct parameter without one optional member, without all optional
			// members, and without the parameter itself
			for i, p := range ins {
				if p.T.Kind != rc.KStruct {
					continue
				}
				var members map[string]json.RawMessage
				if json.Unmarshal(doc[p.Name], &members) != nil {
					continue
				}
				var opts []*rc.Field
				for _, f := range p.T.St.Fields {
					if !f.Require && jsonName(p.GoT, f) != "" {
						opts = append(opts, f)
					}
				}
				type variant struct {
					what string
					drop []*rc.Field
					all  bool
				}
				vs := []variant{{what: "the whole parameter", all: true}}
				if len(opts) > 0 {
					vs = append(vs, variant{what: "every optional member", drop: opts})
					one := opts[r.Intn(len(opts))]
					vs = append(vs, variant{what: "optional member " + one.Name, drop: []*rc.Field{one}})
				}
				for vi, v := range vs {
					d2 := map[string]json.RawMessage{}
					for k, x := range doc {
						d2[k] = x
					}
					want := &rc.Value{Fs: map[int]*rc.Value{}}
					for tag, x := range vals[i].Fs {
						want.Fs[tag] = x
					}
					if v.all {
						delete(d2, p.Name)
						want = rc.StructDefault(p.T.St)
					} else {
						m2 := map[string]json.RawMessage{}
						for k, x := range members {
							m2[k] = x
						}
						for _, f := range v.drop {
							delete(m2, jsonName(p.GoT, f))
							want.Fs[f.Tag] = rc.DefaultOf(f)
						}
						raw, _ := json.Marshal(m2)
						d2[p.Name] = raw
					}
					tok := fmt.Sprintf("c04json-%d-%s-%s-%d", round, fn.Name, p.Name, vi)
					if !call(fn, d2, tok) {
						continue
					}
					run.Eval(1)
					got := received(tok)
					if got == nil {
						run.Violation("absent-optional-not-default", "json-dispatch:not-executed", fmt.Sprintf("JSON request for %s without %s of %q: the implementation was not executed exactly once", fn.Name, v.what, p.Name),
							map[string]interface{}{"function": fn.Name, "parameter": p.Name, "omitted": v.what, "document": d2})
						return
					}
					if diff := rc.Diff(p.T, got[i], want, p.Name); diff != "" {
						run.Violation("absent-optional-not-default", "json-dispatch:"+p.T.St.Name, fmt.Sprintf("JSON request for %s without %s of %q (%s): the implementation was handed a value that is not the members present plus IDL defaults: %s", fn.Name, v.what, p.Name, p.T, diff),
							map[string]interface{}{"function": fn.Name, "parameter": p.Name, "omitted": v.what, "document": d2, "difference": diff})
						return
					}
					judged++
					run.Distinct(fmt.Sprintf("jsondispatch|%s|%s|%s|%d", fn.Name, p.Name, v.what, round%3))
				}
			}
		}
	}
	run.Set("json_dispatch_cases_judged", judged)
	if judged == 0 {
		run.Inconclusive("json dispatch phase judged nothing")
	}
}
