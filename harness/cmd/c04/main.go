// C04 — schema evolution: unknown fields are skipped, absent optionals take defaults.
//
// Monitor: valid reference encodings of generated-struct values are re-encoded with well-formed
// unknown fields of every wire type spliced in at every position tag order allows (top level,
// nested structs, list elements, map values); the real generated decoder must succeed and yield
// exactly the value decoded without the extras, and after ReadBlock the reader must stand exactly
// behind the StructEnd (offset and sentinel).  Optional members are dropped from encodings and
// must decode to their IDL default, into a fresh struct and into a reused struct previously
// filled with other values; every required member is dropped in turn and decoding must fail.
// Evolution pairs (EvoOld/EvoNew) are decoded across versions.
package main

import (
	"fmt"
	"math/rand"
	"reflect"
	"runtime/debug"
	"strings"

	"github.com/TarsCloud/TarsGo/tars/protocol/codec"

	rc "verif/refcodec"
	"verif/resreg"
	"verif/sch"
	"verif/vlib"
)

var run *vlib.Run

type tinfo struct {
	e  resreg.Entry
	s  *rc.Struct
	st *rc.Type
}

type point struct {
	Path string
	Idx  int
	Tags []int
}

func hexClip(b []byte) string {
	if len(b) > 160 {
		return fmt.Sprintf("%x…(%d bytes)", b[:160], len(b))
	}
	return fmt.Sprintf("%x", b)
}

func itoa(i int) string { return fmt.Sprint(i) }

// points enumerates the insertion points of a parsed encoding, schema-directed.
func points(s *rc.Struct, nodes []*rc.Node, path string, out *[]point) {
	inSchema := map[int]bool{}
	for _, f := range s.Fields {
		inSchema[f.Tag] = true
	}
	prev := -1
	for i := 0; i <= len(nodes); i++ {
		next := 256
		if i < len(nodes) {
			next = nodes[i].Tag
		}
		var free []int
		for t := prev + 1; t < next; t++ {
			if !inSchema[t] {
				free = append(free, t)
			}
		}
		if len(free) > 0 {
			tags := []int{free[0]}
			for _, t := range free {
				if t >= 15 && t != free[0] {
					tags = append(tags, t)
					break
				}
			}
			if last := free[len(free)-1]; last != tags[len(tags)-1] && last != tags[0] {
				tags = append(tags, last)
			}
			*out = append(*out, point{path, i, tags})
		}
		if i < len(nodes) {
			prev = nodes[i].Tag
			if f := s.Field(nodes[i].Tag); f != nil {
				pointsIn(f.T, nodes[i], path+"."+itoa(nodes[i].Tag), out)
			}
		}
	}
}

func pointsIn(t *rc.Type, n *rc.Node, path string, out *[]point) {
	switch t.Kind {
	case rc.KStruct:
		if n.Type == rc.TStructBegin {
			points(t.St, n.Sub, path, out)
		}
	case rc.KVector, rc.KArray:
		for k, c := range n.List {
			pointsIn(t.Elem, c, path+"["+itoa(k)+"]", out)
		}
	case rc.KMap:
		for k, c := range n.Vals {
			pointsIn(t.Elem, c, path+"{"+itoa(k)+"}", out)
		}
	}
}

func decodeFresh(ti *tinfo, b []byte) (v *rc.Value, err error, pan string) {
	defer func() {
		if r := recover(); r != nil {
			pan = fmt.Sprintf("%v\n%s", r, vlib.Tail(string(debug.Stack()), 1500))
		}
	}()
	obj := ti.e.New()
	err = obj.ReadFrom(codec.NewReader(b))
	if err == nil {
		v = sch.FromGo(ti.st, reflect.ValueOf(obj).Elem())
	}
	return
}

var blockSentinel = int8(0x33)

// blockCheck wraps fields in StructBegin(tag)..StructEnd + sentinel and checks ReadBlock's final position.
func blockCheck(ti *tinfo, fields []byte, tag int, wit func(map[string]interface{}) map[string]interface{}, kind string) {
	var b []byte
	b = rc.AppendHead(b, rc.TStructBegin, tag)
	b = append(b, fields...)
	b = rc.AppendHead(b, rc.TStructEnd, 0)
	structLen := len(b)
	b = rc.AppendIntWidth(b, int64(blockSentinel), rc.TByte, 255)
	b = b[:len(b):len(b)]
	defer func() {
		if r := recover(); r != nil {
			run.Violation("panic", ti.e.Name, fmt.Sprint(r), wit(map[string]interface{}{"stack": vlib.Tail(string(debug.Stack()), 1500)}))
		}
	}()
	obj := ti.e.New()
	rd := codec.NewReader(b)
	if err := obj.ReadBlock(rd, byte(tag), true); err != nil {
		run.Violation("unknown-field-breaks-decoding", kind, "ReadBlock: "+err.Error(), wit(map[string]interface{}{"block": hexClip(b)}))
		return
	}
	rd2 := codec.NewReader(b)
	obj2 := ti.e.New()
	_ = obj2.ReadBlock(rd2, byte(tag), true)
	if off := cap(b) - cap(rd2.Next(1)); off != structLen {
		run.Violation("skip-not-exact", kind, fmt.Sprintf("after ReadBlock the reader is at offset %d, the struct ends at %d", off, structLen), wit(map[string]interface{}{"block": hexClip(b)}))
		return
	}
	var s int8
	if err := rd.ReadInt8(&s, 255, true); err != nil || s != blockSentinel {
		run.Violation("skip-not-exact", kind, fmt.Sprintf("sentinel after the struct read as %d err=%v", s, err), wit(map[string]interface{}{"block": hexClip(b)}))
	}
}

func kindOfType(t *rc.Type) string {
	switch t.Kind {
	case rc.KVector:
		if t.Elem.Kind == rc.KInt8 {
			return "vector<byte>"
		}
		return "vector"
	case rc.KMap:
		return "map"
	case rc.KStruct:
		return "struct"
	case rc.KArray:
		return "array"
	case rc.KString:
		return "string"
	case rc.KFloat, rc.KDouble:
		return "float"
	case rc.KBool:
		return "bool"
	}
	return "integer"
}

func main() {
	run = vlib.Start("C04")
	run.SetRule("for every generated struct type x values: (a) every insertion point tag order allows (top level, nested structs, list elements, map values) x every kind of well-formed unknown field (" + fmt.Sprint(len(rc.ExtraKinds)) + " kinds: all scalar widths, String1/String4, maps, lists incl. mixed-width ints and nesting 6, simple lists full of head-like bytes, structs incl. extended tags) -> decode equals decode without extras; ReadBlock end position exact; (b) every subset-drop of optional members -> IDL default, fresh and reused target; (c) each required member dropped -> error; (d) EvoOld/EvoNew cross-version decoding; (e) TUP requests to the generated dispatcher with one in-parameter attribute omitted -> the implementation must not run. A case is one (type, encoding); distinct encodings are counted.")
	run.Assume("encodings are produced by the reference encoder (harness/refcodec), not by the code under test")
	if len(resreg.Types) == 0 {
		fmt.Println("registry is empty")
		run.Finish()
	}
	u, err := sch.LoadUniverse(resreg.TarsFiles)
	if err != nil {
		fmt.Println(err)
		run.Finish()
	}
	var tis []*tinfo
	byName := map[string]*tinfo{}
	for _, e := range resreg.Types {
		s, err := u.SchemaOf(e.New())
		if err != nil {
			continue
		}
		ti := &tinfo{e: e, s: s, st: &rc.Type{Kind: rc.KStruct, St: s}}
		tis = append(tis, ti)
		byName[e.Name] = ti
	}
	nVals := run.Pick(8, 120)
	kindsPerPoint := run.Pick(4, len(rc.ExtraKinds))
	skipped := map[string]int64{}
	for _, ti := range tis {
		r := run.Rand("c04-" + ti.e.Name)
		g := sch.NewGen(r)
		for k := 0; k < nVals; k++ {
			mode := []int{sch.ModeNonZero, sch.ModeRandom, sch.ModeBoundary, sch.ModeDefault}[k%4]
			v := g.Struct(ti.s, mode)
			base := rc.EncodeStruct(nil, ti.s, v, rc.EncOpt{OmitDefaults: k%2 == 0})
			wit := func(extra map[string]interface{}) map[string]interface{} {
				m := map[string]interface{}{"type": ti.e.Name, "value": rc.Render(ti.st, v), "base_encoding": hexClip(base)}
				for a, b := range extra {
					m[a] = b
				}
				return m
			}
			v0, err0, pan0 := decodeFresh(ti, base)
			run.Eval(1)
			if pan0 != "" || err0 != nil {
				run.Violation("valid-encoding-rejected", ti.e.Name, fmt.Sprintf("err=%v panic=%s", err0, pan0), wit(nil))
				continue
			}
			if d := rc.Diff(ti.st, v, v0, ""); d != "" {
				run.Violation("valid-encoding-misdecoded", ti.e.Name, d, wit(nil))
				continue
			}
			nodes, _ := rc.ParseFields(base)
			// ---- (a) unknown fields ----
			var pts []point
			points(ti.s, nodes, "", &pts)
			for pi, p := range pts {
				for kk := 0; kk <= kindsPerPoint; kk++ {
					var kind string
					switch {
					case kk == kindsPerPoint:
						// one very deeply nested unknown field at every fifth point (every point of the first value)
						if k != 0 && (pi+k)%5 != 0 {
							continue
						}
						kind = rc.DeepKinds[(pi+k)%len(rc.DeepKinds)]
					case kindsPerPoint == len(rc.ExtraKinds):
						kind = rc.ExtraKinds[kk]
					default:
						kind = rc.ExtraKinds[(pi*7+kk*5+k)%len(rc.ExtraKinds)]
					}
					if kind == "string4-64k" && !run.Thorough() && (pi+k)%9 != 0 {
						continue
					}
					tag := p.Tags[(kk+pi)%len(p.Tags)]
					extra := rc.ExtraField(kind, tag, r)
					spliced := rc.EncodeSpliced(nodes, "", func(path string, i, n, prevTag, nextTag int) []byte {
						if path == p.Path && i == p.Idx {
							return extra
						}
						return nil
					})
					run.Eval(1)
					run.Add("unknown_fields_spliced", 1)
					skipped[kind]++
					w2 := func(x map[string]interface{}) map[string]interface{} {
						m := wit(x)
						m["extra_kind"], m["extra_tag"], m["at_path"], m["at_index"], m["spliced_encoding"] = kind, tag, p.Path, p.Idx, hexClip(spliced)
						return m
					}
					v1, err1, pan1 := decodeFresh(ti, spliced)
					if pan1 != "" {
						run.Violation("panic", kind, pan1, w2(nil))
						continue
					}
					if err1 != nil {
						run.Violation("unknown-field-breaks-decoding", kind, fmt.Sprintf("%s with an unknown %s field (tag %d) at %q: %v", ti.e.Name, kind, tag, p.Path, err1), w2(nil))
						continue
					}
					if d := rc.Diff(ti.st, v0, v1, ""); d != "" {
						run.Violation("unknown-field-changes-value", kind, fmt.Sprintf("%s with an unknown %s field (tag %d) at %q: %s", ti.e.Name, kind, tag, p.Path, d), w2(map[string]interface{}{"difference": d}))
						continue
					}
					if pi%3 == 0 {
						blockCheck(ti, spliced, []int{0, 3, 15, 200}[(pi+kk)%4], w2, kind)
					}
					run.Distinct(ti.e.Name + "|" + string(spliced))
				}
			}
			// ---- (b) absent optionals ----
			var optional []*rc.Field
			for _, f := range ti.s.Fields {
				if !f.Require {
					optional = append(optional, f)
				}
			}
			if len(optional) > 0 {
				for trial := 0; trial < 3; trial++ {
					drop := map[int]bool{}
					for _, f := range optional {
						if trial == 0 || r.Intn(2) == 0 {
							drop[f.Tag] = true
						}
					}
					var kept []*rc.Node
					want := &rc.Value{Fs: map[int]*rc.Value{}}
					for t, fv := range v.Fs {
						want.Fs[t] = fv
					}
					full, _ := rc.ParseFields(rc.EncodeStruct(nil, ti.s, v, rc.EncOpt{}))
					for _, n := range full {
						if !drop[n.Tag] {
							kept = append(kept, n)
						}
					}
					for _, f := range optional {
						if drop[f.Tag] {
							want.Fs[f.Tag] = rc.DefaultOf(f)
						}
					}
					var enc []byte
					for _, n := range kept {
						enc = rc.Reencode(enc, n, n.Tag)
					}
					run.Eval(1)
					w3 := func(x map[string]interface{}) map[string]interface{} {
						m := wit(x)
						m["encoding_without_optionals"] = hexClip(enc)
						return m
					}
					// fresh target
					vf, errf, panf := decodeFresh(ti, enc)
					if panf != "" || errf != nil {
						run.Violation("absent-optional-rejected", ti.e.Name, fmt.Sprintf("err=%v %s", errf, panf), w3(nil))
					} else if d := rc.Diff(ti.st, want, vf, ""); d != "" {
						run.Violation("absent-optional-not-default", "fresh:"+ti.e.Name, d, w3(map[string]interface{}{"difference": d}))
					}
					// reused target, previously holding other values in every member
					func() {
						defer func() {
							if rr := recover(); rr != nil {
								run.Violation("panic", ti.e.Name, fmt.Sprint(rr), w3(nil))
							}
						}()
						obj := ti.e.New()
						prevV := g.Struct(ti.s, sch.ModeNonZero)
						sch.ToGo(ti.st, prevV, reflect.ValueOf(obj).Elem())
						if err := obj.ReadFrom(codec.NewReader(enc)); err != nil {
							run.Violation("absent-optional-rejected", ti.e.Name, "reused target: "+err.Error(), w3(nil))
							return
						}
						vr := sch.FromGo(ti.st, reflect.ValueOf(obj).Elem())
						if d := rc.Diff(ti.st, want, vr, ""); d != "" {
							// classify by the member kind that kept the stale value
							mk := "?"
							for _, f := range optional {
								if drop[f.Tag] && rc.Diff(f.T, want.Fs[f.Tag], vr.Fs[f.Tag], "") != "" {
									mk = kindOfType(f.T)
									if f.HasDefault {
										mk += "-with-default"
									} else {
										mk += "-no-default"
									}
									break
								}
							}
							if mk == "?" {
								mk = "nested:" + strings.SplitN(strings.TrimPrefix(d, "."), ":", 2)[0]
							}
							run.Violation("stale-value-on-reuse", mk, fmt.Sprintf("%s decoded into a reused struct: %s", ti.e.Name, d),
								w3(map[string]interface{}{"difference": d, "previous_content": rc.Render(ti.st, prevV)}))
						}
					}()
					run.Distinct(ti.e.Name + "|opt|" + string(enc))
				}
			}
			// ---- (b') optionals absent at every nesting level: members of nested structs, of struct
			// elements of vectors and of struct values of maps at their defaults and left off the wire
			for trial := 0; trial < 2; trial++ {
				want := deepDefault(ti.st, v, r, trial == 0)
				enc := rc.EncodeStruct(nil, ti.s, want, rc.EncOpt{OmitDefaults: true})
				run.Eval(1)
				w3 := func(x map[string]interface{}) map[string]interface{} {
					m := wit(x)
					m["encoding_without_optionals"] = hexClip(enc)
					return m
				}
				vf, errf, panf := decodeFresh(ti, enc)
				if panf != "" || errf != nil {
					run.Violation("absent-optional-rejected", "nested:"+ti.e.Name, fmt.Sprintf("optional members absent at every nesting level: err=%v %s", errf, panf), w3(nil))
				} else if d := rc.Diff(ti.st, want, vf, ""); d != "" {
					run.Violation("absent-optional-not-default", "nested:"+ti.e.Name, d, w3(map[string]interface{}{"difference": d}))
				}
				run.Distinct(ti.e.Name + "|deepopt|" + string(enc))
			}
			// ---- (c) required members dropped ----
			full, _ := rc.ParseFields(rc.EncodeStruct(nil, ti.s, v, rc.EncOpt{}))
			for _, f := range ti.s.Fields {
				if !f.Require {
					continue
				}
				var enc []byte
				for _, n := range full {
					if n.Tag != f.Tag {
						enc = rc.Reencode(enc, n, n.Tag)
					}
				}
				run.Eval(1)
				_, errq, panq := decodeFresh(ti, enc)
				if panq != "" {
					run.Violation("panic", ti.e.Name, panq, wit(map[string]interface{}{"encoding": hexClip(enc)}))
				} else if errq == nil {
					run.Violation("missing-required-accepted", ti.e.Name+"."+f.Name, fmt.Sprintf("required member %s (tag %d) absent, decoding succeeded", f.Name, f.Tag), wit(map[string]interface{}{"encoding": hexClip(enc)}))
				}
				run.Distinct(ti.e.Name + "|req|" + string(enc))
			}
			if k == 1 && ti.e.Name == "VT.Outer" {
				run.Sample(map[string]interface{}{"type": ti.e.Name, "insertion_points": len(pts), "example_point": pts[len(pts)/2], "extra_kinds": rc.ExtraKinds})
			}
		}
	}
	// ---- (d) evolution pairs ----
	if oldT, newT := byName["VT.EvoOld"], byName["VT.EvoNew"]; oldT != nil && newT != nil {
		r := run.Rand("evo")
		g := sch.NewGen(r)
		for k := 0; k < run.Pick(300, 10000); k++ {
			evo(oldT, newT, g, k)
			evo(newT, oldT, g, k)
		}
	} else {
		run.Inconclusive("evolution pair types not found in the registry")
	}
	for k, n := range skipped {
		run.Add("skipped_"+k, n)
	}
	tupDispatchPhase(vlib.SeedRand(run.Seed, "c04-tupdispatch"))
	jsonDispatchPhase(vlib.SeedRand(run.Seed, "c04-jsondispatch"))
	run.Finish()
}

// deepDefault returns a copy of v in which optional members — at every nesting level — are set to
// their defaults (all of them, or each with probability 1/2), so that an encoder that omits
// defaults leaves them off the wire.
func deepDefault(t *rc.Type, v *rc.Value, r *rand.Rand, all bool) *rc.Value {
	switch t.Kind {
	case rc.KStruct:
		out := &rc.Value{Fs: map[int]*rc.Value{}}
		for _, f := range t.St.Fields {
			fv := v.Fs[f.Tag]
			if fv == nil {
				fv = rc.DefaultOf(f)
			}
			if !f.Require && f.T.Kind != rc.KStruct && f.T.Kind != rc.KArray && (all || r.Intn(2) == 0) {
				out.Fs[f.Tag] = rc.DefaultOf(f)
				continue
			}
			out.Fs[f.Tag] = deepDefault(f.T, fv, r, all)
		}
		return out
	case rc.KVector, rc.KArray:
		if rc.IsByteSeq(t) || len(v.L) == 0 {
			return v
		}
		out := &rc.Value{}
		for _, e := range v.L {
			out.L = append(out.L, deepDefault(t.Elem, e, r, all))
		}
		return out
	case rc.KMap:
		out := &rc.Value{MK: v.MK}
		for _, e := range v.MV {
			out.MV = append(out.MV, deepDefault(t.Elem, e, r, all))
		}
		return out
	}
	return v
}

// evo encodes a value of schema `from` and decodes it with the generated decoder of schema `to`:
// common members keep their values, members unknown to `to` are skipped, members absent in `from`
// take their defaults.
func evo(from, to *tinfo, g *sch.Gen, k int) {
	v := g.Struct(from.s, []int{sch.ModeRandom, sch.ModeNonZero, sch.ModeBoundary}[k%3])
	enc := rc.EncodeStruct(nil, from.s, v, rc.EncOpt{OmitDefaults: k%2 == 0})
	want := &rc.Value{Fs: map[int]*rc.Value{}}
	for _, f := range to.s.Fields {
		if ff := from.s.Field(f.Tag); ff != nil {
			want.Fs[f.Tag] = v.Fs[f.Tag]
		} else {
			want.Fs[f.Tag] = rc.DefaultOf(f)
		}
	}
	run.Eval(1)
	got, err, pan := decodeFresh(to, enc)
	wit := map[string]interface{}{"writer_schema": from.e.Name, "reader_schema": to.e.Name, "value": rc.Render(from.st, v), "encoding": hexClip(enc)}
	if pan != "" || err != nil {
		run.Violation("cross-version-decode-fails", from.e.Name+"->"+to.e.Name, fmt.Sprintf("err=%v %s", err, pan), wit)
		return
	}
	if d := rc.Diff(to.st, want, got, ""); d != "" {
		wit["difference"] = d
		run.Violation("cross-version-value-mismatch", from.e.Name+"->"+to.e.Name, d, wit)
		return
	}
	run.Distinct("evo|" + from.e.Name + "|" + string(enc))
}

var _ = rand.Int
