package main

import (
	"context"
	"fmt"
	"math/rand"

	"github.com/TarsCloud/TarsGo/tars"
	"github.com/TarsCloud/TarsGo/tars/util/current"
	"github.com/TarsCloud/TarsGo/tars/util/rogger"

	"verif/gen/VI"
	"verif/netlab"
	rc "verif/refcodec"
	"verif/resreg"
	"verif/sch"
	"verif/vworld"
)

// tupDispatchPhase: "an absent required field is an error" at the place where the TUP protocol
// version meets the generated dispatcher.  A TUP request carries the in-parameters as named
// attributes; the generated Dispatch looks each one up and decodes it as a required field.  An old
// (or foreign) client that omits a parameter must be answered with an error: the implementation
// must not run, least of all with a value taken from a neighbouring parameter.  Control: the same
// request with every attribute present runs the implementation exactly once (otherwise the
// request builder is wrong and the function is not judged).
func tupDispatchPhase(r *rand.Rand) {
	u, err := sch.LoadUniverse(resreg.TarsFiles)
	if err != nil {
		run.Inconclusive("tup dispatch phase: " + err.Error())
		return
	}
	funcs, err := vworld.LoadFuncs(u)
	if err != nil {
		run.Inconclusive("tup dispatch phase: " + err.Error())
		return
	}
	rogger.SetLevel(rogger.OFF)
	app := tars.VerifNewApp()
	servant := vworld.NewServant()
	proto := app.NewProtocol(new(VI.Echo), servant, true)
	g := sch.NewGen(r)
	g.MaxDepth = 3
	id := int32(500)
	call := func(fn *vworld.Func, attrs map[string][]byte, order []string, tok string) {
		var b []byte
		b = rc.AppendHead(b, rc.TMap, 0)
		b = rc.AppendInt(b, int64(len(order)), 0)
		for _, k := range order {
			b = rc.AppendString(b, []byte(k), 0)
			b = rc.AppendSimpleList(b, attrs[k], 1)
		}
		id++
		frame := (&netlab.Request{Version: 3, RequestID: id, Servant: "Verif.C04.Echo", Func: fn.Name, Buffer: b, Timeout: 0,
			Context: map[string]string{vworld.TokenKey: tok}, Status: map[string]string{}}).Encode()
		ctx := current.ContextWithTarsCurrent(context.Background())
		_ = proto.Invoke(ctx, frame)
	}
	rounds := run.Pick(6, 120)
	for round := 0; round < rounds; round++ {
		for _, fn := range funcs {
			var ins []vworld.Param
			for _, p := range fn.Params {
				if !p.Out {
					ins = append(ins, p)
				}
			}
			if len(ins) == 0 {
				continue
			}
			attrs := map[string][]byte{}
			var order []string
			for _, p := range ins {
				v := g.Value(p.T, []int{sch.ModeNonZero, sch.ModeRandom, sch.ModeBoundary}[round%3], 0, false, nil)
				attrs[p.Name] = rc.EncodeValue(nil, p.T, v, 0, rc.EncOpt{})
				order = append(order, p.Name)
			}
			if round%2 == 1 {
				r.Shuffle(len(order), func(i, j int) { order[i], order[j] = order[j], order[i] })
			}
			tok := fmt.Sprintf("c04tup-%d-%s-all", round, fn.Name)
			call(fn, attrs, order, tok)
			if n := len(servant.ReceivedFor(tok)); n != 1 {
				run.Add("tup_dispatch_control_not_executed_function_not_judged", 1)
				servant.Forget(tok)
				continue
			}
			servant.Forget(tok)
			for _, miss := range ins {
				var ord []string
				for _, k := range order {
					if k != miss.Name {
						ord = append(ord, k)
					}
				}
				tok := fmt.Sprintf("c04tup-%d-%s-no-%s", round, fn.Name, miss.Name)
				call(fn, attrs, ord, tok)
				run.Eval(1)
				recs := servant.ReceivedFor(tok)
				servant.Forget(tok)
				if len(recs) != 0 {
					run.Violation("absent-required-accepted", "tup-dispatch:"+kindOfType(miss.T), fmt.Sprintf("TUP request for %s without the attribute %q (%s): the implementation was executed instead of the request being rejected", fn.Name, miss.Name, miss.T),
						map[string]interface{}{"function": fn.Name, "missing_parameter": miss.Name, "attributes_sent": ord, "executions": len(recs)})
					return
				}
				run.Distinct(fmt.Sprintf("tupdispatch|%s|%s|%d", fn.Name, miss.Name, round%3))
			}
		}
	}
}
