package main

import (
	"fmt"
	"time"

	"verif/appchild"
	rc "verif/refcodec"
	"verif/vlib"
)

// adminPhase: the administration servant every application runs is a network entry point too.  A
// real application (child process, real tars.Run) receives well-formed `notify` requests whose
// command string is hostile — commands without their argument, blanks only, unknown commands,
// very long ones — on its admin port; after each the application must still be there and answer an
// ordinary request.  (Commands that are meant to end or restart the process are not sent.)
func adminPhase(run *vlib.Run) {
	a, err := appchild.Start(appchild.Config{GracedownMs: 3000})
	if err != nil {
		if a != nil {
			a.Kill()
		}
		run.Inconclusive("admin phase: application child: " + err.Error())
		return
	}
	defer a.Kill()
	cmds := []string{"", " ", "   ", "tars.viewversion", "tars.viewversion x y", "tars.setloglevel", "tars.setloglevel ", "tars.setloglevel NOSUCH", "tars.setloglevel DEBUG extra",
		"tars.loadconfig", "tars.loadconfig ", "tars.loadconfig  ", "tars.connection", "tars.help", "tars.closecore", "tars.closecore ", "tars.closecore maybe", "tars.enabledaylog", "tars.enabledaylog remote", "tars.enabledaylog remote|x",
		"tars.enabledaylog local|x|", "tars.reloadlocator", "tars.reloadlocator reload", "tars.viewstatus", "tars.viewbuildid", "tars.viewcapability", "unknown.command", "tars.", "\x00", "tars.setloglevel\tINFO", "tars.loadconfig\x00",
		string(make([]byte, 70000)), "tars.setloglevel " + string(make([]byte, 70000))}
	for i, cmd := range cmds {
		buf := rc.AppendString(nil, []byte(cmd), 1)
		_, cerr := a.Call(a.AdminAddr, "tcp", "AdminObj", "notify", int32(300+i), buf, 5*time.Second)
		run.Eval(1)
		what := cmd
		if len(what) > 40 {
			what = fmt.Sprintf("%q… (%d bytes)", what[:40], len(cmd))
		}
		time.Sleep(30 * time.Millisecond)
		_, perr := a.Call(a.TCPAddr, "tcp", a.TCPObj, "echo", int32(600+i), []byte("still-there"), 5*time.Second)
		if a.Exited() || perr != nil {
			ls := a.Lines()
			if len(ls) > 25 {
				ls = ls[len(ls)-25:]
			}
			run.Violation("server-process-killed", "admin:notify", fmt.Sprintf("after the admin command %q (a well-formed notify request) the application %s (answer to the command: %v; ordinary request afterwards: %v)", what,
				map[bool]string{true: "had exited", false: "no longer answers"}[a.Exited()], cerr, perr),
				map[string]interface{}{"command": what, "command_len": len(cmd), "exited": a.Exited(), "child_output_tail": ls})
			return
		}
		run.Distinct("admin|" + what)
	}
	run.Set("admin_commands_survived", len(cmds))
}
