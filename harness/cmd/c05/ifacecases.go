package main

import (
	"context"
	"fmt"
	"reflect"
	"strings"

	"github.com/TarsCloud/TarsGo/tars"
	"github.com/TarsCloud/TarsGo/tars/model"
	"github.com/TarsCloud/TarsGo/tars/protocol/res/requestf"
	"github.com/TarsCloud/TarsGo/tars/util/current"
	"github.com/TarsCloud/TarsGo/tars/util/endpoint"
	"github.com/TarsCloud/TarsGo/tars/util/tools"

	"verif/gen/VI"
	"verif/netlab"
	rc "verif/refcodec"
	"verif/resreg"
	"verif/sch"
	"verif/vlib"
	"verif/vworld"
)

// Decode entry points behind the packet decoders: the argument buffer of a well-formed request is
// decoded by the tars2go-generated DISPATCHER (a panic there is turned into os.Exit by the server's
// Invoke), the result buffer of a well-formed response by the generated PROXY in the caller's
// goroutine.  Both are driven with the generated code for /verif/idl (interface VI.Echo, one
// function per IDL type category): entry `dispatch:<func>` = a request frame through the real
// Protocol.Invoke with the generated dispatcher and a recording servant, in the TARS, TUP and JSON
// protocol versions; entry `proxy:<func>` = the generated proxy method called on a servant whose
// answer carries the hostile buffer.

var ifaceFuncs []*vworld.Func

func loadIfaceFuncs() []*vworld.Func {
	if ifaceFuncs != nil {
		return ifaceFuncs
	}
	u, err := sch.LoadUniverse(resreg.TarsFiles)
	if err != nil {
		return nil
	}
	ifaceFuncs, _ = vworld.LoadFuncs(u)
	return ifaceFuncs
}

type mutated struct {
	kind, what string
	bytes      []byte
}

// mutations: hostile variants of one well-formed field sequence (the same families as for structs).
func mutations(base []byte, all bool) []mutated {
	var out []mutated
	nodes, _ := rc.ParseFields(base)
	var flat []*rc.Node
	collectAll(nodes, &flat)
	for _, n := range flat {
		if n.LenPos >= 0 && n.Type != rc.TString1 {
			remaining := len(base) - n.LenEnd
			for _, nl := range []int64{-1, -2147483648, 2147483647, int64(remaining + 1), 16777216} {
				var lb []byte
				if n.Type == rc.TString4 {
					lb = []byte{byte(nl >> 24), byte(nl >> 16), byte(nl >> 8), byte(nl)}
				} else {
					lb = rc.AppendInt(nil, nl, 0)
				}
				d := append(append(append([]byte(nil), base[:n.LenPos]...), lb...), base[n.LenEnd:]...)
				out = append(out, mutated{fmt.Sprintf("len:%s=%d", rc.TypeName(n.Type), nl), fmt.Sprintf("%s length at offset %d set to %d", rc.TypeName(n.Type), n.LenPos, nl), d})
			}
		}
		if len(flat) < 40 || all {
			for ty := 0; ty < 16; ty++ {
				if ty == n.Type {
					continue
				}
				d := append([]byte(nil), base...)
				d[n.Start] = d[n.Start]&0xf0 | byte(ty)
				out = append(out, mutated{fmt.Sprintf("type:%s->%d", rc.TypeName(n.Type), ty), fmt.Sprintf("head at offset %d: wire type %s replaced by %d", n.Start, rc.TypeName(n.Type), ty), d})
			}
		}
	}
	for c := 0; c < len(base); c += 1 + len(base)/16 {
		out = append(out, mutated{"truncate", fmt.Sprintf("prefix %d of %d", c, len(base)), base[:c:c]})
	}
	return out
}

func ifaceCases(seed int64, thorough bool) []hcase {
	funcs := loadIfaceFuncs()
	var cases []hcase
	nVals := 1
	if thorough {
		nVals = 6
	}
	for _, fn := range funcs {
		r := vlib.SeedRand(seed, "c05-iface-"+fn.Name)
		g := sch.NewGen(r)
		g.MaxDepth = 3
		req := func(version int16, body []byte) []byte {
			return (&netlab.Request{Version: version, RequestID: 77, Servant: "Verif.C05.Echo", Func: fn.Name, Buffer: body, Timeout: 0,
				Context: map[string]string{vworld.TokenKey: "c05"}, Status: map[string]string{}}).Encode()
		}
		for k := 0; k < nVals; k++ {
			mode := []int{sch.ModeNonZero, sch.ModeRandom}[k%2]
			// request side: in parameters under their positions (TARS) / as named attributes (TUP)
			var tarsBody, tupBody []byte
			cnt := 0
			var attrs []byte
			for _, p := range fn.Params {
				if p.Out {
					continue
				}
				g.Budget = 60
				v := g.Value(p.T, mode, 1, false, nil)
				tarsBody = rc.EncodeValue(tarsBody, p.T, v, p.Tag, rc.EncOpt{})
				attrs = rc.AppendString(attrs, []byte(p.Name), 0)
				attrs = rc.AppendSimpleList(attrs, rc.EncodeValue(nil, p.T, v, 0, rc.EncOpt{}), 1)
				cnt++
			}
			tupBody = rc.AppendHead(tupBody, rc.TMap, 0)
			tupBody = rc.AppendInt(tupBody, int64(cnt), 0)
			tupBody = append(tupBody, attrs...)
			if cnt > 0 {
				for _, m := range mutations(tarsBody, k == 0) {
					cases = append(cases, hcase{entry: "dispatch:" + fn.Name, kind: "tars:" + m.kind, what: "argument buffer (TARS version): " + m.what, bytes: req(1, m.bytes)})
				}
				for _, m := range mutations(tupBody, k == 0) {
					cases = append(cases, hcase{entry: "dispatch:" + fn.Name, kind: "tup:" + m.kind, what: "argument buffer (TUP version): " + m.what, bytes: req(3, m.bytes)})
				}
			}
			// response side: return value under tag 0, out parameters under their positions
			var rsp []byte
			if fn.RetT != nil {
				g.Budget = 60
				rsp = rc.EncodeValue(rsp, fn.RetT, g.Value(fn.RetT, mode, 1, false, nil), 0, rc.EncOpt{})
			}
			for _, p := range fn.Params {
				if p.Out {
					g.Budget = 60
					rsp = rc.EncodeValue(rsp, p.T, g.Value(p.T, mode, 1, false, nil), p.Tag, rc.EncOpt{})
				}
			}
			if len(rsp) > 0 {
				for _, m := range mutations(rsp, k == 0) {
					cases = append(cases, hcase{entry: "proxy:" + fn.Name, kind: m.kind, what: "result buffer: " + m.what, bytes: m.bytes})
				}
			}
		}
		// random buffers in every version, and documents a JSON decoder may choke on
		nr := 30
		if thorough {
			nr = 600
		}
		for i := 0; i < nr; i++ {
			b := make([]byte, r.Intn(48))
			r.Read(b)
			if i%3 == 0 {
				for j := range b {
					if r.Intn(2) == 0 {
						b[j] = byte(r.Intn(16)<<4 | r.Intn(14))
					}
				}
			}
			cases = append(cases, hcase{entry: "dispatch:" + fn.Name, kind: "tars:random", what: "random argument buffer (TARS version)", bytes: req(1, b)})
			cases = append(cases, hcase{entry: "dispatch:" + fn.Name, kind: "tup:random", what: "random argument buffer (TUP version)", bytes: req(3, append([]byte{0x08}, b...))})
			cases = append(cases, hcase{entry: "proxy:" + fn.Name, kind: "random", what: "random result buffer", bytes: b})
		}
		var names []string
		for _, p := range fn.Params {
			if !p.Out {
				names = append(names, p.Name)
			}
		}
		first := "x"
		if len(names) > 0 {
			first = names[0]
		}
		for _, doc := range []string{``, `{`, `[]`, `null`, `"s"`, `{"` + first + `":null}`, `{"` + first + `":{}}`, `{"` + first + `":[]}`, `{"` + first + `":"text"}`, `{"` + first + `":1e999}`,
			`{"` + first + `":-1}`, `{"` + first + `":[[[[[[[[1]]]]]]]]}`, `{"` + first + `":` + strings.Repeat("[", 100000) + `}`, `{"` + first + `":` + strings.Repeat(`{"a":`, 50000) + `1` + strings.Repeat("}", 50000) + `}`,
			`{"` + first + `":99999999999999999999999999}`, `{"` + first + `":true}`, strings.Repeat(`{"k":"v"},`, 10)} {
			what := doc
			if len(what) > 40 {
				what = what[:40] + "…"
			}
			cases = append(cases, hcase{entry: "dispatch:" + fn.Name, kind: "json", what: "argument document (JSON version) " + what, bytes: req(5, []byte(doc))})
		}
	}
	return cases
}

var (
	protoEcho *tars.Protocol
	echoProxy *VI.Echo
	hostile   *hostileServant
)

// hostileServant answers every call of the generated proxy with a well-formed response whose
// result buffer is the input of the case.
type hostileServant struct{ buf []byte }

func (h *hostileServant) Name() string { return "Verif.C05.Echo" }
func (h *hostileServant) TarsInvoke(ctx context.Context, cType byte, fn string, buf []byte, status map[string]string, rctx map[string]string, resp *requestf.ResponsePacket) error {
	// the answer also carries response context and status entries, as a server may set them
	*resp = requestf.ResponsePacket{IVersion: 1, IRequestId: 1, SBuffer: tools.ByteToInt8(h.buf),
		Context: map[string]string{"rsp-ctx": "v"}, Status: map[string]string{"rsp-status": "v"}}
	return nil
}
func (h *hostileServant) TarsSetTimeout(t int)                  {}
func (h *hostileServant) TarsSetProtocol(model.Protocol)        {}
func (h *hostileServant) Endpoints() []*endpoint.Endpoint       { return nil }
func (h *hostileServant) SetPushCallback(callback func([]byte)) {}

func setupIface() {
	protoEcho = tars.VerifNewApp().NewProtocol(new(VI.Echo), vworld.NewServant(), true)
	hostile = &hostileServant{}
	echoProxy = new(VI.Echo)
	echoProxy.SetServant(hostile)
}

// runIfaceCase runs a dispatch:/proxy: case (inside runCase's recover); false if the entry is not one.
func runIfaceCase(c *hcase, input []byte) bool {
	switch {
	case strings.HasPrefix(c.entry, "dispatch:"):
		_ = protoEcho.Invoke(current.ContextWithTarsCurrent(context.Background()), input)
		return true
	case strings.HasPrefix(c.entry, "proxy:"):
		name := strings.TrimPrefix(c.entry, "proxy:")
		for _, fn := range loadIfaceFuncs() {
			if fn.Name != name {
				continue
			}
			m := reflect.ValueOf(echoProxy).MethodByName(fn.GoName + "WithContext")
			args := []reflect.Value{reflect.ValueOf(context.Background())}
			for i := range fn.Params {
				pt := m.Type().In(1 + i)
				if pt.Kind() == reflect.Ptr {
					args = append(args, reflect.New(pt.Elem()))
				} else {
					args = append(args, reflect.Zero(pt))
				}
			}
			// the caller passes no option map, a context map, or context and status maps
			for k := 0; k < len(input)%3; k++ {
				args = append(args, reflect.ValueOf(map[string]string{"req": "v"}))
			}
			hostile.buf = input
			m.Call(args)
		}
		return true
	}
	return false
}
