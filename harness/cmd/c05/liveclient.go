package main

import (
	"bufio"
	"bytes"
	"context"
	"fmt"
	"os"
	"os/exec"
	"strings"
	"sync"
	"sync/atomic"
	"time"

	"verif/netlab"
	rc "verif/refcodec"
	"verif/rpcw"
	"verif/vlib"
)

// Live client phase: a real client process (communicator, ServantProxy, transport client) calls a
// scripted peer that answers every request with a HOSTILE response addressed to that very request —
// the request id is right, something behind it is damaged (cut, mistyped, a lying length), or the
// frame is garbage — and, on every other call, a correct response right behind it.  No response
// from the network may end the client process; what the calls return is not judged (a damaged
// answer may be dropped and the call run into its timeout).

func liveClientMain() {
	vlib.LimitAddressSpace(12 << 30)
	addr := os.Getenv("C05_CLIENT")
	cl := rpcw.NewDirect([]string{addr}, rpcw.Opt{InvokeTimeoutMs: 250, ReadTimeout: 100 * time.Millisecond})
	fmt.Println("READY")
	in := bufio.NewReader(os.Stdin)
	for {
		line, err := in.ReadString('\n')
		if err != nil {
			os.Exit(0)
		}
		var from, to int
		if n, _ := fmt.Sscanf(line, "CALLS %d %d", &from, &to); n != 2 {
			continue
		}
		var wg sync.WaitGroup
		var ok, failed atomic.Int64
		sem := make(chan struct{}, 16)
		for i := from; i < to; i++ {
			wg.Add(1)
			sem <- struct{}{}
			go func(i int) {
				defer wg.Done()
				defer func() { <-sem }()
				ctx, cancel := context.WithTimeout(context.Background(), 2*time.Second)
				defer cancel()
				if _, _, err := cl.Call(ctx, "f", []byte(fmt.Sprintf("c05cli-%d", i)), false); err != nil {
					failed.Add(1)
				} else {
					ok.Add(1)
				}
			}(i)
		}
		wg.Wait()
		fmt.Printf("DONE %d %d ok=%d failed=%d\n", from, to, ok.Load(), failed.Load())
	}
}

// hostileResponses builds the hostile answers for one request id.
func hostileResponses(id int32) [][2]interface{} {
	good := (&netlab.Response{Version: 1, RequestID: id, Buffer: []byte("payload"), Status: map[string]string{"k": "v"}, ResultDesc: "ok", HasDesc: true, Context: map[string]string{"c": "d"}, HasContext: true}).Encode()
	body := good[4:]
	var out [][2]interface{}
	add := func(what string, b []byte) { out = append(out, [2]interface{}{what, netlab.Frame(b)}) }
	nodes, _ := rc.ParseFields(body)
	idEnd := 0
	for _, n := range nodes {
		if n.Tag == 3 {
			idEnd = n.End
		}
	}
	for c := idEnd; c < len(body); c++ {
		add(fmt.Sprintf("response cut at %d of %d bytes (behind the request id)", c, len(body)), body[:c:c])
	}
	var flat []*rc.Node
	collectAll(nodes, &flat)
	for _, n := range flat {
		if n.Start < idEnd {
			continue
		}
		for ty := 0; ty < 16; ty++ {
			if ty == n.Type {
				continue
			}
			d := append([]byte(nil), body...)
			d[n.Start] = d[n.Start]&0xf0 | byte(ty)
			add(fmt.Sprintf("head at offset %d: wire type %s replaced by %d", n.Start, rc.TypeName(n.Type), ty), d)
		}
		if n.LenPos >= 0 && n.Type != rc.TString1 {
			for _, nl := range []int64{-1, -2147483648, 2147483647, int64(len(body) - n.LenEnd + 1)} {
				lb := rc.AppendInt(nil, nl, 0)
				if n.Type == rc.TString4 {
					lb = []byte{byte(nl >> 24), byte(nl >> 16), byte(nl >> 8), byte(nl)}
				}
				add(fmt.Sprintf("%s length at offset %d set to %d", rc.TypeName(n.Type), n.LenPos, nl), append(append(append([]byte(nil), body[:n.LenPos]...), lb...), body[n.LenEnd:]...))
			}
		}
	}
	return out
}

func liveClientPhase(run *vlib.Run) {
	// the answers depend on the id the client draws: built per request
	var mu sync.Mutex
	next := 0
	variants := len(hostileResponses(1))
	sent := 0
	srv := netlab.NewScriptServer(func(ev *netlab.ReqEvent) {
		if ev.Err != nil || ev.Req.Func != "f" {
			return
		}
		hs := hostileResponses(ev.Req.RequestID)
		mu.Lock()
		k := next % len(hs)
		next++
		sent++
		mu.Unlock()
		_ = ev.Conn.Send(hs[k][1].([]byte))
		if k%2 == 0 {
			_ = ev.Conn.Send((&netlab.Response{Version: 1, RequestID: ev.Req.RequestID, Buffer: ev.Req.Buffer}).Encode())
		}
	})
	defer srv.Stop()
	cmd := exec.Command(os.Args[0])
	cmd.Env = append(os.Environ(), "C05_CLIENT="+srv.Addr)
	stdin, _ := cmd.StdinPipe()
	stdout, _ := cmd.StdoutPipe()
	var stderr bytes.Buffer
	cmd.Stderr = &stderr
	if err := cmd.Start(); err != nil {
		run.Inconclusive("live client phase: cannot start the client: " + err.Error())
		return
	}
	exited := make(chan struct{})
	lines := make(chan string, 16)
	go func() {
		sc := bufio.NewScanner(stdout)
		for sc.Scan() {
			lines <- sc.Text()
		}
		_ = cmd.Wait()
		close(exited)
	}()
	defer func() {
		stdin.Close()
		select {
		case <-exited:
		case <-time.After(3 * time.Second):
			_ = cmd.Process.Kill()
		}
	}()
	wait := func(prefix string, d time.Duration) (string, bool) {
		dl := time.After(d)
		for {
			select {
			case l := <-lines:
				if strings.HasPrefix(l, prefix) {
					return l, true
				}
			case <-exited:
				return "", false
			case <-dl:
				return "", false
			}
		}
	}
	if _, ok := wait("READY", 20*time.Second); !ok {
		run.Inconclusive("live client phase: the client did not come up: " + vlib.Tail(stderr.String(), 300))
		return
	}
	total := 2 * variants
	for from := 0; from < total; from += 64 {
		to := min(from+64, total)
		fmt.Fprintf(stdin, "CALLS %d %d\n", from, to)
		line, ok := wait("DONE", 60*time.Second)
		run.Eval(int64(to - from))
		if !ok {
			died := false
			select {
			case <-exited:
				died = true
			default:
			}
			mu.Lock()
			k := (next - 1 + variants) % variants
			mu.Unlock()
			what := hostileResponses(1)[k][0].(string)
			if died {
				run.Violation("client-process-killed", "live-client:"+firstFatal(stderr.String()), fmt.Sprintf("the client process ended while calls %d..%d were answered with damaged responses addressed to them (last one sent: %s)", from, to, what),
					map[string]interface{}{"last_hostile_response": what, "stderr_tail": vlib.Tail(stderr.String(), 2500), "exit": cmd.ProcessState.String()})
			} else {
				run.Violation("hang", "live-client", fmt.Sprintf("calls %d..%d did not return within 60 s although every call has a 250 ms timeout", from, to), map[string]interface{}{"last_hostile_response": what})
			}
			return
		}
		run.Distinct("liveclient|" + line)
	}
	run.Set("live_client_hostile_responses_sent", sent)
}
