// C05 — decoder totality: arbitrary bytes never crash, hang or exhaust the process.
//
// Monitor: hostile byte strings (structure-aware mutations of reference encodings of every
// generated struct type: every embedded length set to -1 / -2^31 / 2^31-1 / remaining+1, every
// head's wire type swapped, list counts beyond fixed array sizes; nesting bombs of StructBegin /
// LIST / MAP / mixed up to the maximum packet length; seeded random bytes; frames of length 0..4)
// are fed to every network-reachable decode entry point in child processes.  Each child carries an
// address-space limit and writes the case index ahead of running it, so a panic that escapes, a
// fatal runtime error (stack exhaustion, out of memory), an os.Exit from CheckPanic or a hang is
// attributed to exactly one input.  Inside the child a recovered panic, bytes allocated beyond
// 4096*len(input)+1MiB and CPU time beyond 5s/MiB+5s are violations.
package main

import (
	"bufio"
	"bytes"
	"context"
	"encoding/binary"
	"fmt"
	"github.com/TarsCloud/TarsGo/tars/protocol/push"
	"io"
	"net"
	"os"
	"os/exec"
	"runtime"
	"runtime/debug"
	"runtime/metrics"
	"sort"
	"strings"
	"sync/atomic"
	"syscall"
	"time"

	"github.com/TarsCloud/TarsGo/tars"
	"github.com/TarsCloud/TarsGo/tars/protocol"
	"github.com/TarsCloud/TarsGo/tars/protocol/codec"
	"github.com/TarsCloud/TarsGo/tars/protocol/res/requestf"
	"github.com/TarsCloud/TarsGo/tars/protocol/tup"
	"github.com/TarsCloud/TarsGo/tars/util/current"
	"github.com/TarsCloud/TarsGo/tars/util/rogger"

	"verif/appchild"
	"verif/netlab"
	rc "verif/refcodec"
	"verif/resreg"
	"verif/sch"
	"verif/vlib"
)

type tinfo struct {
	e  resreg.Entry
	s  *rc.Struct
	st *rc.Type
}

type hcase struct {
	entry string // "struct:<name>" | "block:<name>" | "tup" | "unpack" | "invoke" | "invoketimeout"
	ti    *tinfo
	kind  string // mutation kind (for the signature)
	what  string
	bytes []byte
	bomb  func() []byte // lazily built large inputs
}

func (c *hcase) input() []byte {
	if c.bytes == nil && c.bomb != nil {
		c.bytes = c.bomb()
	}
	return c.bytes
}

func hexClip(b []byte) string {
	if len(b) > 200 {
		return fmt.Sprintf("%x…(%d bytes)", b[:200], len(b))
	}
	return fmt.Sprintf("%x", b)
}

func frame(body []byte) []byte {
	b := make([]byte, 4+len(body))
	binary.BigEndian.PutUint32(b, uint32(4+len(body)))
	copy(b[4:], body)
	return b
}

func collectAll(nodes []*rc.Node, out *[]*rc.Node) {
	for _, n := range nodes {
		*out = append(*out, n)
		collectAll(n.Sub, out)
		collectAll(n.List, out)
		collectAll(n.Keys, out)
		collectAll(n.Vals, out)
	}
}

func repeat(unit []byte, n int, tail []byte) []byte {
	b := make([]byte, 0, len(unit)*n+len(tail))
	for i := 0; i < n; i++ {
		b = append(b, unit...)
	}
	return append(b, tail...)
}

const maxPacket = 10485760

// spinCPULimit: CPU time one decode may use before the batch child gives up on it: twice the
// per-case bound of 5 s per MiB + 5 s (process CPU time, so GC and the harness count too).
func spinCPULimit(inputLen int) time.Duration {
	return 2 * (5*time.Second + time.Duration(inputLen)*5*time.Second/(1<<20))
}

// bombs returns nesting bombs; each is placed under the given tag.
func bombs(tag int, thorough bool) map[string]func() []byte {
	head := func(ty int) []byte { return rc.AppendHead(nil, ty, tag) }
	out := map[string]func() []byte{}
	depths := map[string]int{"10": 10, "1e3": 1000, "1e5": 100000, "1e6": 1000000, "max": maxPacket - 64}
	for name, d := range depths {
		d := d
		per := func(unitLen int) int { return min(d, (maxPacket-64)/unitLen) }
		out["struct-nest-"+name] = func() []byte { return append(head(rc.TStructBegin), repeat([]byte{0x0a}, per(1), nil)...) }
		out["list-nest-"+name] = func() []byte { return append(head(rc.TList), repeat([]byte{0x00, 0x01, 0x09}, per(3), nil)...) }
		out["map-nest-"+name] = func() []byte {
			return append(head(rc.TMap), repeat([]byte{0x00, 0x01, 0x0c, 0x18}, per(4), nil)...)
		}
		// nesting through the map KEY needs only 3 bytes per level
		out["mapkey-nest-"+name] = func() []byte { return append(head(rc.TMap), repeat([]byte{0x00, 0x01, 0x08}, per(3), nil)...) }
		out["mixed-nest-"+name] = func() []byte {
			return append(head(rc.TStructBegin), repeat([]byte{0x09, 0x00, 0x01, 0x08, 0x00, 0x01, 0x0c, 0x1a}, per(8), nil)...)
		}
	}
	if !thorough {
		for k := range out {
			if strings.HasSuffix(k, "1e6") {
				delete(out, k)
			}
		}
	}
	return out
}

func genCases(seed int64, thorough bool, tis []*tinfo) []hcase {
	var cases []hcase
	nVals := 2
	if thorough {
		nVals = 20
	}
	var reqT *tinfo
	for _, ti := range tis {
		if ti.e.Name == "requestf.RequestPacket" {
			reqT = ti
		}
	}
	addAll := func(ti *tinfo, kind, what string, body []byte) {
		cases = append(cases, hcase{entry: "struct:" + ti.e.Name, ti: ti, kind: kind, what: what, bytes: body})
		if ti.e.Name == "requestf.RequestPacket" {
			cases = append(cases, hcase{entry: "invoke", ti: ti, kind: kind, what: what, bytes: frame(body)})
			cases = append(cases, hcase{entry: "invoketimeout", ti: ti, kind: kind, what: what, bytes: frame(body)})
		}
		if ti.e.Name == "requestf.ResponsePacket" {
			cases = append(cases, hcase{entry: "unpack", ti: ti, kind: kind, what: what, bytes: frame(body)})
		}
	}
	for _, ti := range tis {
		r := vlib.SeedRand(seed, "c05-"+ti.e.Name)
		g := sch.NewGen(r)
		for k := 0; k < nVals; k++ {
			v := g.Struct(ti.s, []int{sch.ModeNonZero, sch.ModeRandom}[k%2])
			base := rc.EncodeStruct(nil, ti.s, v, rc.EncOpt{})
			nodes, _ := rc.ParseFields(base)
			var all []*rc.Node
			collectAll(nodes, &all)
			for _, n := range all {
				// every embedded length -> hostile values
				if n.LenPos >= 0 && n.Type != rc.TString1 {
					remaining := len(base) - n.LenEnd
					for _, nl := range []int64{-1, -2147483648, 2147483647, int64(remaining + 1), 16777216} {
						var lb []byte
						if n.Type == rc.TString4 {
							lb = []byte{byte(nl >> 24), byte(nl >> 16), byte(nl >> 8), byte(nl)}
						} else {
							lb = rc.AppendInt(nil, nl, 0)
						}
						d := append(append(append([]byte(nil), base[:n.LenPos]...), lb...), base[n.LenEnd:]...)
						addAll(ti, fmt.Sprintf("len:%s=%d", rc.TypeName(n.Type), nl), fmt.Sprintf("%s length at offset %d set to %d", rc.TypeName(n.Type), n.LenPos, nl), d)
					}
				}
				// wire type of every head swapped (a sample of heads beyond the first 40)
				if len(all) < 40 || k == 0 {
					for ty := 0; ty < 16; ty++ {
						if ty == n.Type {
							continue
						}
						d := append([]byte(nil), base...)
						d[n.Start] = d[n.Start]&0xf0 | byte(ty)
						addAll(ti, fmt.Sprintf("type:%s->%d", rc.TypeName(n.Type), ty), fmt.Sprintf("head at offset %d: wire type %s replaced by %d", n.Start, rc.TypeName(n.Type), ty), d)
					}
				}
			}
			// truncations at a stride
			for c := 0; c < len(base); c += 1 + len(base)/24 {
				addAll(ti, "truncate", fmt.Sprintf("prefix %d of %d", c, len(base)), base[:c:c])
			}
		}
		// lists longer than a fixed array / absurd counts with real elements
		for _, f := range ti.s.Fields {
			if f.T.Kind == rc.KArray {
				for _, cnt := range []int{f.T.Len + 1, f.T.Len + 100, 100000} {
					var d []byte
					for _, f2 := range ti.s.Fields {
						if f2.Tag == f.Tag {
							d = rc.AppendHead(d, rc.TList, f.Tag)
							d = rc.AppendInt(d, int64(cnt), 0)
							for i := 0; i < cnt; i++ {
								d = rc.EncodeValue(d, f.T.Elem, rc.GoZero(f.T.Elem), 0, rc.EncOpt{})
							}
						} else {
							d = rc.EncodeValue(d, f2.T, rc.DefaultOf(f2), f2.Tag, rc.EncOpt{})
						}
					}
					addAll(ti, "array-overrun", fmt.Sprintf("list of %d elements for the fixed array %s[%d]", cnt, f.Name, f.T.Len), d)
				}
			}
		}
		// nesting bombs where an unknown tag is skipped (a tag below the first schema tag if free,
		// else the first free tag) and where the first struct-typed member is read
		free := 0
		for ti.s.Field(free) != nil {
			free++
		}
		isPacket := ti.e.Name == "requestf.RequestPacket" || ti.e.Name == "requestf.ResponsePacket" || strings.HasPrefix(ti.e.Name, "VT.Outer") || strings.HasPrefix(ti.e.Name, "VT.OnlyOptional")
		if isPacket || thorough {
			bm := bombs(free, thorough)
			for _, name := range sortedKeys(bm) {
				mk := bm[name]
				var prefix []byte
				for _, f2 := range ti.s.Fields {
					if f2.Tag < free {
						prefix = rc.EncodeValue(prefix, f2.T, rc.DefaultOf(f2), f2.Tag, rc.EncOpt{})
					}
				}
				pfx := prefix
				build := func() []byte { return append(append([]byte(nil), pfx...), mk()...) }
				cases = append(cases, hcase{entry: "struct:" + ti.e.Name, ti: ti, kind: "bomb-skip:" + name, what: "unknown field (tag " + fmt.Sprint(free) + ") holding a " + name + " nesting", bomb: build})
				if ti.e.Name == "requestf.RequestPacket" {
					cases = append(cases, hcase{entry: "invoke", ti: ti, kind: "bomb-skip:" + name, what: "request frame with a " + name + " nesting in an unknown field", bomb: func() []byte { return frame(build()) }})
				}
				if ti.e.Name == "requestf.ResponsePacket" {
					cases = append(cases, hcase{entry: "unpack", ti: ti, kind: "bomb-skip:" + name, what: "response frame with a " + name + " nesting in an unknown field", bomb: func() []byte { return frame(build()) }})
				}
			}
		}
		// hostile lengths inside an UNKNOWN field (the skip path sizes it from the announced length
		// alone): the usual extremes, and negative lengths that would move the reader back onto the
		// field's own head or to the start of the input
		{
			var prefix []byte
			for _, f2 := range ti.s.Fields {
				if f2.Tag < free {
					prefix = rc.EncodeValue(prefix, f2.T, rc.DefaultOf(f2), f2.Tag, rc.EncOpt{})
				}
			}
			type shape struct {
				wire int
				pre  []byte // between the head and the length
				body []byte
			}
			for _, sh := range []shape{{rc.TSimpleList, []byte{0x00}, []byte{1, 2, 3}}, {rc.TList, nil, []byte{0x0c}}, {rc.TMap, nil, []byte{0x0c, 0x1c}}} {
				head := rc.AppendHead(nil, sh.wire, free)
				for _, w := range []int{rc.TByte, rc.TShort, rc.TInt} {
					own := len(head) + len(sh.pre) + len(rc.AppendIntWidth(nil, -1, w, 0))
					vals := []int64{-1, -2, -3, int64(-own), int64(-own - 1), int64(-own + 1), int64(-own - len(prefix)), int64(-len(sh.body)), -2147483648, 2147483647, int64(len(sh.body) + 1), 16777216}
					for _, nl := range vals {
						if (w == rc.TByte && (nl < -128 || nl > 127)) || (w == rc.TShort && (nl < -32768 || nl > 32767)) {
							continue
						}
						d := append(append(append(append([]byte(nil), prefix...), head...), sh.pre...), rc.AppendIntWidth(nil, nl, w, 0)...)
						d = append(d, sh.body...)
						cases = append(cases, hcase{entry: "struct:" + ti.e.Name, ti: ti, kind: fmt.Sprintf("skip-len:%s=%d", rc.TypeName(sh.wire), nl), what: fmt.Sprintf("unknown %s field (tag %d) announcing length %d in a %s", rc.TypeName(sh.wire), free, nl, rc.TypeName(w)), bytes: d})
						if ti.e.Name == "requestf.RequestPacket" {
							cases = append(cases, hcase{entry: "invoke", ti: ti, kind: fmt.Sprintf("skip-len:%s=%d", rc.TypeName(sh.wire), nl), what: fmt.Sprintf("request with an unknown %s field announcing length %d", rc.TypeName(sh.wire), nl), bytes: frame(d)})
						}
						if ti.e.Name == "requestf.ResponsePacket" {
							cases = append(cases, hcase{entry: "unpack", ti: ti, kind: fmt.Sprintf("skip-len:%s=%d", rc.TypeName(sh.wire), nl), what: fmt.Sprintf("response with an unknown %s field announcing length %d", rc.TypeName(sh.wire), nl), bytes: frame(d)})
						}
					}
				}
			}
			for _, nl := range []int64{-1, -5, -9, int64(-9 - len(prefix)), -2147483648, 2147483647, 4, 16777216} {
				d := append(append([]byte(nil), prefix...), rc.AppendHead(nil, rc.TString4, free)...)
				d = append(d, byte(nl>>24), byte(nl>>16), byte(nl>>8), byte(nl), 'a', 'b', 'c')
				cases = append(cases, hcase{entry: "struct:" + ti.e.Name, ti: ti, kind: fmt.Sprintf("skip-len:String4=%d", nl), what: fmt.Sprintf("unknown String4 field (tag %d) announcing length %d", free, nl), bytes: d})
			}
		}
		// random bytes
		rr := vlib.SeedRand(seed, "rand-"+ti.e.Name)
		nr := 60
		if thorough {
			nr = 3000
		}
		for i := 0; i < nr; i++ {
			b := make([]byte, rr.Intn(64))
			rr.Read(b)
			if i%3 == 0 { // bias towards plausible heads
				for j := range b {
					if rr.Intn(2) == 0 {
						b[j] = byte(rr.Intn(16)<<4 | rr.Intn(14))
					}
				}
			}
			cases = append(cases, hcase{entry: "struct:" + ti.e.Name, ti: ti, kind: "random", what: "random bytes", bytes: b})
			cases = append(cases, hcase{entry: "block:" + ti.e.Name, ti: ti, kind: "random", what: "random bytes (ReadBlock tag 0)", bytes: append([]byte{0x0a}, b...)})
		}
	}
	// TUP attribute sets
	tr := vlib.SeedRand(seed, "tup")
	for i := 0; i < 400; i++ {
		var b []byte
		b = rc.AppendHead(b, rc.TMap, 0)
		b = rc.AppendInt(b, []int64{1, 2, -1, 2147483647, 65536}[i%5], 0)
		b = rc.AppendString(b, []byte("k"), 0)
		b = rc.AppendHead(b, rc.TSimpleList, 1)
		b = rc.AppendHead(b, rc.TByte, 0)
		b = rc.AppendInt(b, []int64{3, -1, -2147483648, 2147483647, 70000, 0}[i%6], 0)
		b = append(b, 1, 2, 3)
		if i >= 30 {
			b = make([]byte, 1+tr.Intn(48))
			tr.Read(b)
			b[0] = 0x08
		}
		cases = append(cases, hcase{entry: "tup", kind: "tup", what: "hostile TUP attribute set", bytes: b})
	}
	// frames of length 0..4 and lying length prefixes for the frame-level entry points
	for _, fb := range [][]byte{{}, {0}, {0, 0}, {0, 0, 0}, {0, 0, 0, 4}, {0, 0, 0, 0}, {0xff, 0xff, 0xff, 0xff}, {0, 0, 0, 5, 0x10}, {0, 0, 0, 3}} {
		for _, e := range []string{"invoke", "invoketimeout", "unpack"} {
			cases = append(cases, hcase{entry: e, ti: reqT, kind: fmt.Sprintf("short-frame-%d", len(fb)), what: fmt.Sprintf("frame of %d bytes", len(fb)), bytes: fb})
		}
	}
	cases = append(cases, semanticCases(reqT)...)
	cases = append(cases, ifaceCases(seed, thorough)...)
	return cases
}

// semanticCases: well-formed request packets whose FIELD VALUES are hostile — the values the
// server interprets before (or instead of) dispatching: message-type bits with the status entries
// they make the server parse (dyeing key, trace key, ...), versions, packet types, timeouts,
// servant and function names.  A packet that decodes fine must not kill the process either.
func semanticCases(reqT *tinfo) []hcase {
	var cases []hcase
	add := func(kind, what string, rq *netlab.Request) {
		f := rq.Encode()
		cases = append(cases, hcase{entry: "invoke", ti: reqT, kind: kind, what: what, bytes: f})
		cases = append(cases, hcase{entry: "invoketimeout", ti: reqT, kind: kind, what: what, bytes: f})
	}
	long := strings.Repeat("a", 70000)
	values := []string{"", "-", ".", "f", "f-", "-f", "f.2-abc", "f-0a1b.2c|span|parent", "|", "||", "|||", "a|b|c|d|e", "f.-", ".-", "f..-x", "ffffffffffffffffffff-1",
		"f.99999999999999999999-x", "\x00", "\xff\xfe", long, "1-2-3|4|5", " ", "%s%n", "f.2-abc|s|p|extra", "-|-|-", "f.2.3.4-x|y|z", "7fffffff.4294967296-id|s|p", "-1.-1-x|s|p"}
	keys := []string{"STATUS_DYED_KEY", "STATUS_TRACE_KEY", "STATUS_GRID_KEY", "STATUS_SAMPLE_KEY", "STATUS_RESULT_CODE", "STATUS_RESULT_DESC", "STATUS_SETNAME_VALUE", "STATUS_UID"}
	id := int32(70000)
	for _, mt := range []int32{0x04, 0x100, 0x104, 0x1ff, -1, -2147483648} {
		for _, k := range keys {
			for vi, v := range values {
				id++
				fn := []string{"tars_ping", "echo"}[vi%2]
				add(fmt.Sprintf("status:%s:mt%#x", k, uint32(mt)), fmt.Sprintf("well-formed request, message type %#x, status[%s] = %q", uint32(mt), k, clipStr(v)),
					&netlab.Request{Version: 1, MessageType: mt, RequestID: id, Servant: "Verif.C05.Obj", Func: fn, Timeout: 3000, Status: map[string]string{k: v}, Context: map[string]string{k: v}})
			}
		}
	}
	for _, ver := range []int16{-1, 0, 1, 2, 3, 5, 7, 32767} {
		for _, pt := range []int8{-128, -1, 0, 1, 2, 127} {
			for _, to := range []int32{-2147483648, -1, 0, 1, 2147483647} {
				for _, fn := range []string{"", "tars_ping", "echo", long} {
					id++
					add("fields", fmt.Sprintf("well-formed request with version %d, packet type %d, timeout %d, function %q", ver, pt, to, clipStr(fn)),
						&netlab.Request{Version: ver, PacketType: pt, RequestID: id, Servant: []string{"Verif.C05.Obj", "", long}[int(id)%3], Func: fn, Timeout: to, Buffer: []byte{0x0c}})
				}
			}
		}
	}
	return cases
}

func clipStr(s string) string {
	if len(s) > 40 {
		return s[:40] + fmt.Sprintf("…(%d bytes)", len(s))
	}
	return s
}

type reporter interface {
	Violation(class, locus, detail string, witness interface{})
	Eval(n int64)
	Distinct(key string)
	Add(k string, n int64)
}

var allocSample = []metrics.Sample{{Name: "/gc/heap/allocs:bytes"}}

func allocated() uint64 {
	metrics.Read(allocSample)
	return allocSample[0].Value.Uint64()
}

func panicSite(stack string) string {
	lines := strings.Split(stack, "\n")
	for i, l := range lines {
		if strings.HasPrefix(l, "panic(") {
			for _, m := range lines[i+1:] {
				m = strings.TrimSpace(m)
				if strings.HasPrefix(m, "/") || strings.HasPrefix(m, "runtime.") || strings.HasPrefix(m, "panic(") {
					continue
				}
				if j := strings.LastIndex(m, "("); j > 0 {
					m = m[:j]
				}
				if j := strings.LastIndex(m, "/"); j >= 0 {
					m = m[j+1:]
				}
				return m
			}
		}
	}
	return "unknown"
}

// procCPU returns the CPU time (user + system) this process has consumed so far.
func procCPU() time.Duration {
	var ru syscall.Rusage
	if syscall.Getrusage(syscall.RUSAGE_SELF, &ru) != nil {
		return 0
	}
	return time.Duration(ru.Utime.Nano() + ru.Stime.Nano())
}

type nopDispatch struct{}

func (nopDispatch) Dispatch(ctx context.Context, imp interface{}, req *requestf.RequestPacket, rsp *requestf.ResponsePacket, wc bool) error {
	return nil
}

var proto *tars.Protocol

func runCase(rep reporter, c *hcase) {
	in := c.input()
	input := append([]byte(nil), in...)
	wit := func() map[string]interface{} {
		return map[string]interface{}{"entry": c.entry, "mutation": c.kind, "what": c.what, "input_len": len(in), "input": hexClip(in)}
	}
	a0 := allocated()
	t0 := procCPU()
	func() {
		defer func() {
			if r := recover(); r != nil {
				st := string(debug.Stack())
				msg := fmt.Sprint(r)
				kind := msg
				if i := strings.Index(kind, ":"); i > 0 && strings.HasPrefix(kind, "runtime error") {
					kind = strings.TrimSpace(kind[i+1:])
				}
				if len(kind) > 40 {
					kind = kind[:40]
				}
				for _, d := range "0123456789" {
					kind = strings.ReplaceAll(kind, string(d), "")
				}
				w := wit()
				w["panic"], w["stack"] = msg, vlib.Tail(st, 1800)
				rep.Violation("panic", panicSite(st)+":"+strings.TrimSpace(kind), fmt.Sprintf("%s on %s: panic: %s", c.entry, c.what, msg), w)
			}
		}()
		switch {
		case runIfaceCase(c, input):
		case strings.HasPrefix(c.entry, "struct:"):
			_ = c.ti.e.New().ReadFrom(codec.NewReader(input))
		case strings.HasPrefix(c.entry, "block:"):
			_ = c.ti.e.New().ReadBlock(codec.NewReader(input), 0, true)
		case c.entry == "tup":
			_ = tup.NewUniAttribute().Decode(codec.NewReader(input))
		case c.entry == "unpack":
			// the client's receive loop only hands over frames ParsePackage accepted
			if _, st := (&protocol.TarsProtocol{}).ParsePackage(input); st == protocol.PackageFull {
				_, _ = (&protocol.TarsProtocol{}).ResponseUnpack(input)
			}
		case c.entry == "invoke":
			// the UDP receive path hands any datagram to Invoke
			ctx := current.ContextWithTarsCurrent(context.Background())
			_ = proto.Invoke(ctx, input)
		case c.entry == "invoketimeout":
			_ = proto.InvokeTimeout(input)
		}
	}()
	// CPU time consumed by this (single-case-at-a-time) child process, not elapsed time: a loaded
	// machine must not turn into a verdict
	el := procCPU() - t0
	da := allocated() - a0
	rep.Eval(1)
	if da > 64<<20 {
		debug.FreeOSMemory() // keep a later, innocent case from running out of memory
	}
	if limit := uint64(4096*len(in) + (1 << 20)); da > limit {
		w := wit()
		w["allocated_bytes"], w["limit_bytes"] = da, limit
		rep.Violation("over-allocation", c.entry+":"+c.kind, fmt.Sprintf("%s on %s (%d input bytes): %d bytes allocated, bound %d", c.entry, c.what, len(in), da, limit), w)
	}
	if bound := time.Duration(5*float64(len(in))/(1<<20)*float64(time.Second)) + 5*time.Second; el > bound {
		w := wit()
		w["cpu_s"], w["bound_s"] = el.Seconds(), bound.Seconds()
		rep.Violation("cpu-blowup", c.entry+":"+c.kind, fmt.Sprintf("%s on %s consumed %v of CPU (bound %v)", c.entry, c.what, el, bound), w)
	}
	if len(in) < 1<<16 {
		rep.Distinct(c.entry + "|" + string(in))
	} else {
		rep.Distinct(c.entry + "|" + c.kind + "|" + fmt.Sprint(len(in)))
	}
	c.bytes = nil
}

func loadTypes() []*tinfo {
	u, err := sch.LoadUniverse(resreg.TarsFiles)
	if err != nil {
		fmt.Fprintln(os.Stderr, err)
		return nil
	}
	var tis []*tinfo
	for _, e := range resreg.Types {
		s, err := u.SchemaOf(e.New())
		if err != nil {
			continue
		}
		tis = append(tis, &tinfo{e: e, s: s, st: &rc.Type{Kind: rc.KStruct, St: s}})
	}
	return tis
}

func main() {
	appchild.MaybeChild()
	thorough := os.Getenv("VERIF_TIER") == "thorough"
	var seed int64 = 1
	fmt.Sscanf(os.Getenv("VERIF_SEED"), "%d", &seed)
	tis := loadTypes()
	rogger.SetLevel(rogger.OFF)
	if os.Getenv("C05_LIVE") != "" {
		liveServerMain()
		return
	}
	if os.Getenv("C05_CLIENT") != "" {
		liveClientMain()
		return
	}
	if vlib.IsBatchChild() {
		vlib.LimitAddressSpace(12 << 30)
		runtime.GOMAXPROCS(2)
		proto = tars.VerifNewApp().NewProtocol(nopDispatch{}, nil, true)
		setupIface()
		em := vlib.NewEmitter()
		cases := genCases(seed, thorough, tis)
		from, to := vlib.ChildRange()
		wal := vlib.OpenWAL()
		// a decode that never returns: decided on the CPU time the process has burnt since the case
		// began (a logical bound, independent of how loaded the machine is); exit 97 is read by the
		// parent as "hang" at the case in the write-ahead file
		var curCase, curLimit int64 = -1, int64(spinCPULimit(maxPacket))
		go func() {
			last, startCPU := int64(-1), time.Duration(0)
			for {
				time.Sleep(200 * time.Millisecond)
				c, cpu := atomic.LoadInt64(&curCase), procCPU()
				if c != last {
					last, startCPU = c, cpu
					continue
				}
				if c >= 0 && cpu-startCPU > time.Duration(atomic.LoadInt64(&curLimit)) {
					fmt.Fprintf(os.Stderr, "fatal error: the decode of one input has used %v of CPU time without returning\n", cpu-startCPU)
					os.Exit(97)
				}
			}
		}()
		for i := from; i < to && i < len(cases); i++ {
			wal.Mark(i)
			atomic.StoreInt64(&curLimit, int64(spinCPULimit(maxPacket))) // while a lazily built input is being built
			atomic.StoreInt64(&curCase, int64(i))
			atomic.StoreInt64(&curLimit, int64(spinCPULimit(len(cases[i].input()))))
			runCase(em, &cases[i])
		}
		atomic.StoreInt64(&curCase, -1)
		wal.Done()
		return
	}
	run := vlib.Start("C05")
	run.SetRule("hostile inputs for every generated struct type (reference encodings with every embedded length set to -1/-2^31/2^31-1/remaining+1/2^24, every head's wire type swapped to each of the 15 other codes, strided truncations, list counts beyond fixed arrays, random bytes), nesting bombs (StructBegin/LIST/MAP/mixed, depth 10..10^5 and up to the 10 MiB maximum packet) in a skipped unknown field, hostile TUP attribute sets, frames of 0..4 bytes; entry points: ReadFrom/ReadBlock of every struct, UniAttribute.Decode, TarsProtocol.ResponseUnpack (client receive path), Protocol.Invoke / InvokeTimeout (server receive path incl. the UDP path that passes any datagram). A case is one (entry point, input); distinct inputs are counted.")
	run.Assume("allocation is measured as the process-wide allocated-bytes counter around one decode in a 2-thread child; bound 4096*len+1MiB")
	run.Assume("recursive IDL types (a struct containing itself through a vector) are not part of the corpus")
	if len(tis) == 0 {
		run.Finish()
	}
	cases := genCases(seed, thorough, tis)
	run.Set("cases_total", len(cases))
	kinds := map[string]int{}
	for _, c := range cases {
		k := c.kind
		if i := strings.Index(k, ":"); i > 0 {
			k = k[:i]
		}
		kinds[c.entry[:min(len(c.entry), 6)]+"/"+k]++
	}
	run.Set("cases_by_entry_and_mutation", kinds)
	for _, c := range cases {
		if c.entry == "invoke" && strings.HasPrefix(c.kind, "len:List") {
			run.Sample(map[string]interface{}{"entry": c.entry, "mutation": c.what, "input": hexClip(c.input())})
			break
		}
	}
	run.Sample(map[string]interface{}{"entry": "struct:requestf.RequestPacket", "mutation": "bomb-skip:struct-nest-max", "input": "0a x 10485696 under unknown tag 0"})
	run.RunBatches(len(cases), 2500, 12, nil, 15*time.Minute, func(o vlib.BatchOutcome) {
		if o.Case < 0 || o.Case >= len(cases) {
			run.Violation("process-death", "outside-any-case", fmt.Sprintf("decode child ended abnormally (exit %d): %s", o.Exit, vlib.Tail(o.Stderr, 300)), map[string]interface{}{"stderr": o.Stderr})
			return
		}
		c := &cases[o.Case]
		in := c.input()
		why := "unknown"
		for _, l := range strings.Split(o.Stderr, "\n") {
			if strings.HasPrefix(l, "fatal error:") || strings.HasPrefix(l, "panic:") || strings.HasPrefix(l, "runtime: goroutine stack exceeds") {
				why = strings.TrimSpace(l)
				break
			}
		}
		if why == "unknown" && o.Exit == 255 {
			why = "os.Exit(-1) (CheckPanic after a recovered panic)"
		}
		for _, d := range "0123456789" {
			why = strings.ReplaceAll(why, string(d), "")
		}
		if len(why) > 70 {
			why = why[:70]
		}
		class := "process-death"
		if o.Kind == "hang" {
			class = "hang"
			why = "no return within the batch watchdog"
		} else if o.Exit == 97 {
			class = "hang"
			why = "still decoding after the CPU-time bound"
		}
		run.Violation(class, c.entry+":"+strings.SplitN(c.kind, "=", 2)[0]+":"+why, fmt.Sprintf("%s on %s (%d bytes) ended the process: %s (exit %d, cpu %v)", c.entry, c.what, len(in), why, o.Exit, o.CPU),
			map[string]interface{}{"entry": c.entry, "mutation": c.kind, "what": c.what, "input_len": len(in), "input": hexClip(in), "exit": o.Exit, "stderr_tail": vlib.Tail(o.Stderr, 2500)})
	})
	livePhase(run, seed, thorough)
	liveClientPhase(run)
	adminPhase(run)
	run.Finish()
}

// ---------- live phase: a real server process (TCP + UDP, real tars.Protocol) fed hostile packets ----------

type nopPush struct{}

func (nopPush) OnConnect(ctx context.Context, req []byte) []byte { return req }
func (nopPush) OnClose(ctx context.Context)                      {}

func liveServerMain() {
	vlib.LimitAddressSpace(12 << 30)
	p := tars.VerifNewApp().NewProtocol(nopDispatch{}, nil, true)
	tconf := netlab.DefaultServerConf("tcp")
	uconf := netlab.DefaultServerConf("udp")
	if _, err := netlab.StartServer(p, tconf); err != nil {
		fmt.Println("ERR", err)
		os.Exit(3)
	}
	if _, err := netlab.StartServer(p, uconf); err != nil {
		fmt.Println("ERR", err)
		os.Exit(3)
	}
	// the framework's other server-side protocol (tars/protocol/push): it trusts the transport to
	// hand over complete packages only
	ptconf := netlab.DefaultServerConf("tcp")
	puconf := netlab.DefaultServerConf("udp")
	pp := push.NewServer(nopPush{})
	if _, err := netlab.StartServer(pp, ptconf); err != nil {
		fmt.Println("ERR", err)
		os.Exit(3)
	}
	if _, err := netlab.StartServer(pp, puconf); err != nil {
		fmt.Println("ERR", err)
		os.Exit(3)
	}
	fmt.Printf("READY %s %s %s %s\n", tconf.Address, uconf.Address, ptconf.Address, puconf.Address)
	in := bufio.NewReader(os.Stdin)
	for {
		line, err := in.ReadString('\n')
		if err != nil {
			os.Exit(0)
		}
		if strings.HasPrefix(line, "M") {
			// live heap after a collection: what the server still holds
			runtime.GC()
			var ms runtime.MemStats
			runtime.ReadMemStats(&ms)
			fmt.Printf("MEM %d %d\n", ms.HeapAlloc, ms.Sys)
		}
	}
}

type liveItem struct {
	Proto string `json:"proto"`
	What  string `json:"what"`
	data  []byte
	Hex   string `json:"input"`
	Len   int    `json:"input_len"`
}

func procCPUTicks(pid int) int64 {
	b, err := os.ReadFile(fmt.Sprintf("/proc/%d/stat", pid))
	if err != nil {
		return -1
	}
	s := string(b)
	if i := strings.LastIndex(s, ")"); i >= 0 {
		f := strings.Fields(s[i+1:])
		if len(f) > 13 {
			var u, k int64
			fmt.Sscan(f[11], &u)
			fmt.Sscan(f[12], &k)
			return u + k
		}
	}
	return -1
}

func livePhase(run *vlib.Run, seed int64, thorough bool) {
	cmd := exec.Command(os.Args[0])
	cmd.Env = append(os.Environ(), "C05_LIVE=1")
	stdin, _ := cmd.StdinPipe()
	stdout, _ := cmd.StdoutPipe()
	var stderr bytes.Buffer
	cmd.Stderr = &stderr
	if err := cmd.Start(); err != nil {
		run.Inconclusive("cannot start live server: " + err.Error())
		return
	}
	exited := make(chan struct{})
	go func() { _ = cmd.Wait(); close(exited) }()
	defer func() {
		stdin.Close()
		select {
		case <-exited:
		case <-time.After(3 * time.Second):
			_ = cmd.Process.Kill()
		}
	}()
	var tcpAddr, udpAddr, pushTCP, pushUDP string
	if _, err := fmt.Fscanf(stdout, "READY %s %s %s %s\n", &tcpAddr, &udpAddr, &pushTCP, &pushUDP); err != nil {
		run.Inconclusive("live server did not come up: " + err.Error() + " " + vlib.Tail(stderr.String(), 300))
		return
	}
	alive := func() bool {
		select {
		case <-exited:
			return false
		default:
			return true
		}
	}
	pingID := int32(1000)
	ping := func(proto string) error {
		pingID++
		req := (&netlab.Request{Version: 1, RequestID: pingID, Servant: "Verif.C05.Obj", Func: "tars_ping", Timeout: 3000}).Encode()
		addr := tcpAddr
		if proto == "udp" {
			addr = udpAddr
		}
		c, err := net.DialTimeout(proto, addr, 3*time.Second)
		if err != nil {
			return err
		}
		defer c.Close()
		if _, err := c.Write(req); err != nil {
			return err
		}
		_ = c.SetReadDeadline(time.Now().Add(5 * time.Second))
		var frame []byte
		if proto == "udp" {
			b := make([]byte, 65536)
			n, err := c.Read(b)
			if err != nil {
				return err
			}
			frame = b[:n]
		} else {
			fr := &netlab.FrameReader{Conn: c}
			f, err := fr.Next(5 * time.Second)
			if err != nil {
				return err
			}
			frame = f
		}
		rsp, err := netlab.ParseResponse(frame)
		if err != nil {
			return fmt.Errorf("ping answer undecodable: %v", err)
		}
		if rsp.RequestID != pingID || rsp.Ret != 0 {
			return fmt.Errorf("ping answered with id %d ret %d", rsp.RequestID, rsp.Ret)
		}
		return nil
	}
	if err := ping("tcp"); err != nil {
		run.Inconclusive("live server does not answer a ping before any hostile input: " + err.Error())
		return
	}
	r := vlib.SeedRand(seed, "live")
	var items []liveItem
	add := func(proto, what string, d []byte) {
		items = append(items, liveItem{Proto: proto, What: what, data: d, Hex: hexClip(d), Len: len(d)})
	}
	valid := (&netlab.Request{Version: 1, RequestID: 7, Servant: "Verif.C05.Obj", Func: "f", Buffer: []byte{1, 2, 3}, Timeout: 3000, Context: map[string]string{"a": "b"}}).Encode()
	for _, proto := range []string{"tcp", "udp"} {
		for _, d := range [][]byte{{}, {0}, {0, 0}, {0, 0, 0}, {0, 0, 0, 0}, {0, 0, 0, 1}, {0, 0, 0, 3}, {0, 0, 0, 4}, {0, 0, 0, 5, 0x10}, {0xff, 0xff, 0xff, 0xff}, {0x7f, 0xff, 0xff, 0xff}, {0x00, 0xa0, 0x00, 0x01}} {
			if proto == "tcp" && len(d) == 0 {
				continue
			}
			add(proto, fmt.Sprintf("raw bytes %x", d), d)
		}
		// request whose sBuffer is a LIST of length -1 / 2^31-1
		for _, ln := range []int64{-1, 2147483647} {
			var b []byte
			b = rc.AppendInt(b, 1, 1)
			b = rc.AppendInt(b, 0, 2)
			b = rc.AppendInt(b, 0, 3)
			b = rc.AppendInt(b, 9, 4)
			b = rc.AppendString(b, []byte("o"), 5)
			b = rc.AppendString(b, []byte("f"), 6)
			b = rc.AppendHead(b, rc.TList, 7)
			b = rc.AppendInt(b, ln, 0)
			add(proto, fmt.Sprintf("request with sBuffer as LIST of length %d", ln), frame(b))
		}
		size := 60000
		if proto == "tcp" {
			size = maxPacket - 64
		}
		units := map[string][]byte{"struct": {0x0a}, "list": {0x00, 0x01, 0x09}, "map": {0x00, 0x01, 0x08}}
		for _, name := range []string{"list", "map", "struct"} {
			unit := units[name]
			head := rc.AppendHead(nil, map[string]int{"struct": rc.TStructBegin, "list": rc.TList, "map": rc.TMap}[name], 0)
			add(proto, fmt.Sprintf("request frame of %d bytes of nested %s heads in an unknown field", size, name), frame(append(head, repeat(unit, size/len(unit), nil)...)))
		}
		nr := 30
		if thorough {
			nr = 1500
		}
		for i := 0; i < nr; i++ {
			d := append([]byte(nil), valid...)
			switch i % 3 {
			case 0: // random body behind a correct header
				body := make([]byte, r.Intn(200))
				r.Read(body)
				d = frame(body)
			case 1: // bit flips in a valid request
				for k := 0; k < 1+r.Intn(4); k++ {
					d[4+r.Intn(len(d)-4)] ^= byte(1 << uint(r.Intn(8)))
				}
			default: // header lies about the length
				binary.BigEndian.PutUint32(d, uint32(r.Intn(2*len(d))))
			}
			add(proto, "mutated request", d)
		}
	}
	// well-formed requests with hostile field values (a sample of the in-process family)
	sem := semanticCases(nil)
	for i := 0; i < len(sem); i += 1 + len(sem)/run.Pick(40, 400) {
		add([]string{"tcp", "udp"}[i%2], "semantic: "+sem[i].what, sem[i].bytes)
	}
	pid := cmd.Process.Pid
	// ---- a few received bytes must not make the server reserve what they announce ----
	mem := func() (int64, bool) {
		if _, err := io.WriteString(stdin, "M\n"); err != nil {
			return 0, false
		}
		var heap, sys int64
		if _, err := fmt.Fscanf(stdout, "MEM %d %d\n", &heap, &sys); err != nil {
			return 0, false
		}
		return heap, true
	}
	if h0, ok := mem(); ok {
		var held []net.Conn
		const nConn = 32
		for i := 0; i < nConn; i++ {
			for _, a := range []string{tcpAddr, pushTCP} {
				c, err := net.DialTimeout("tcp", a, 3*time.Second)
				if err != nil {
					continue
				}
				// a length prefix announcing the maximum package, followed by 4 bytes — and nothing more
				_, _ = c.Write([]byte{0x00, 0xa0, 0x00, 0x00, 0x10, 0x01, 0x2c, 0x3c})
				held = append(held, c)
			}
		}
		time.Sleep(300 * time.Millisecond)
		h1, ok1 := mem()
		for _, c := range held {
			c.Close()
		}
		if ok1 {
			grow := h1 - h0
			run.Set("live_heap_growth_for_64_connections_announcing_10MiB_bytes", grow)
			run.Eval(1)
			if grow > int64(len(held))*(1<<20) {
				run.Violation("over-allocation", "live:announced-length", fmt.Sprintf("%d connections sent 8 bytes each (a length prefix announcing 10 MiB); the server's live heap grew by %d bytes, i.e. %d bytes per connection for 8 bytes of input", len(held), grow, grow/int64(max(len(held), 1))),
					map[string]interface{}{"connections": len(held), "bytes_sent_per_connection": 8, "heap_before": h0, "heap_after": h1})
				return
			}
		}
		if err := ping("tcp"); err != nil || !alive() {
			run.Violation("server-process-killed", "tcp:announced-length", "after 64 connections announcing 10 MiB the server "+fmt.Sprint(err), map[string]interface{}{"stderr_tail": vlib.Tail(stderr.String(), 2500)})
			return
		}
	}
	for i, it := range items {
		run.Eval(1)
		run.Distinct("live|" + it.Proto + "|" + string(it.data[:min(len(it.data), 4096)]) + fmt.Sprint(len(it.data)))
		addr := tcpAddr
		if it.Proto == "udp" {
			addr = udpAddr
		}
		for _, a := range []string{addr, map[string]string{"tcp": pushTCP, "udp": pushUDP}[it.Proto]} {
			c, err := net.DialTimeout(it.Proto, a, 3*time.Second)
			if err == nil {
				if it.Proto == "udp" && len(it.data) < 8 {
					// a short datagram right behind a regular one: the server's read buffer still holds
					// the regular datagram's bytes
					_, _ = c.Write(valid)
					time.Sleep(2 * time.Millisecond)
				}
				_ = c.SetWriteDeadline(time.Now().Add(20 * time.Second))
				_, _ = c.Write(it.data)
				if it.Proto == "tcp" {
					// give the server the chance to answer or close, then leave
					_ = c.SetReadDeadline(time.Now().Add(150 * time.Millisecond))
					_, _ = c.Read(make([]byte, 4096))
				}
				c.Close()
			}
		}
		var perr error
		for _, proto := range []string{"tcp", "udp"} {
			if perr = ping(proto); perr != nil {
				break
			}
		}
		if perr != nil || !alive() {
			why := "no longer answers tars_ping (" + fmt.Sprint(perr) + ")"
			if !alive() {
				why = "exited: " + firstFatal(stderr.String())
			}
			run.Violation("server-process-killed", it.Proto+":"+strings.SplitN(it.What, " of ", 2)[0], fmt.Sprintf("after %s packet #%d (%s, %d bytes) the server process %s", it.Proto, i, it.What, it.Len, why),
				map[string]interface{}{"item": it, "stderr_tail": vlib.Tail(stderr.String(), 2500)})
			return
		}
	}
	// after the last hostile packet the server must be idle again: CPU consumed over one idle second
	time.Sleep(300 * time.Millisecond)
	t0 := procCPUTicks(pid)
	time.Sleep(time.Second)
	t1 := procCPUTicks(pid)
	run.Set("live_packets_sent", len(items))
	run.Set("live_server_idle_cpu_ticks_per_s", t1-t0)
	if t0 >= 0 && t1-t0 > 60 { // > 0.6 CPU-seconds per second with no traffic
		run.Violation("cpu-blowup", "live-server-spins", fmt.Sprintf("after the hostile packets the idle server burns %d clock ticks per second", t1-t0), map[string]interface{}{"items": len(items)})
	}
	run.Sample(map[string]interface{}{"phase": "live", "example": items[len(items)/2]})
}

func firstFatal(s string) string {
	for _, l := range strings.Split(s, "\n") {
		if strings.HasPrefix(l, "fatal error:") || strings.HasPrefix(l, "panic:") {
			return l
		}
	}
	return vlib.Tail(s, 200)
}

func sortedKeys(m map[string]func() []byte) []string {
	ks := make([]string, 0, len(m))
	for k := range m {
		ks = append(ks, k)
	}
	sort.Strings(ks)
	return ks
}
