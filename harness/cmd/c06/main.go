// C06 — truncated or mistyped input is rejected, never decoded into made-up data.
//
// Monitor: from reference encodings of values of every generated struct type three deterministic
// damage enumerations are produced — (P) every proper prefix, (L) every embedded length inflated,
// (T) every field replaced by a well-formed field of each inadmissible wire type — and fed to the
// real generated decoders in child processes (write-ahead case log, address-space limit).  The
// independent strict reference parser determines the complete fields of the damaged input; the
// real decoder may fail, or succeed with exactly the value of those complete fields (missing
// members optional and at their default); for (T) only failure is accepted.  The same for the TUP
// attribute decoder and the primitive readers.
package main

import (
	"fmt"
	"os"
	"reflect"
	"runtime/debug"
	"sort"
	"time"

	"github.com/TarsCloud/TarsGo/tars/protocol/codec"
	"github.com/TarsCloud/TarsGo/tars/protocol/tup"

	rc "verif/refcodec"
	"verif/resreg"
	"verif/sch"
	"verif/vlib"
)

type tinfo struct {
	e  resreg.Entry
	s  *rc.Struct
	st *rc.Type
}

type dcase struct {
	ti     *tinfo
	kind   string // "P" "L" "T" "TUP-P" "TUP-T"
	what   string // description of the damage
	member string // schema kind of the damaged member (for the signature)
	base   []byte
	bytes  []byte
	value  *rc.Value
}

type reporter interface {
	Violation(class, locus, detail string, witness interface{})
	Eval(n int64)
	Distinct(key string)
	Add(k string, n int64)
	Sample(v interface{})
	Inconclusive(what string)
}

func hexClip(b []byte) string {
	if len(b) > 160 {
		return fmt.Sprintf("%x…(%d bytes)", b[:160], len(b))
	}
	return fmt.Sprintf("%x", b)
}

func kindName(t *rc.Type) string {
	switch t.Kind {
	case rc.KVector, rc.KArray:
		if t.Elem.Kind == rc.KInt8 {
			return "vector<byte>"
		}
		if t.Elem.Kind == rc.KUint8 {
			return "vector<unsigned byte>"
		}
		return "vector"
	case rc.KMap:
		return "map"
	case rc.KStruct:
		return "struct"
	case rc.KString:
		return "string"
	case rc.KFloat, rc.KDouble:
		return "float"
	case rc.KBool:
		return "bool"
	}
	return "integer"
}

// memberAt finds the schema kind of the top-level member that contains byte offset off.
func memberAt(s *rc.Struct, nodes []*rc.Node, off int) string {
	for _, n := range nodes {
		if off >= n.Start && off < n.End {
			if f := s.Field(n.Tag); f != nil {
				return leafKind(f.T, n, off)
			}
		}
	}
	return "boundary"
}

// leafKind descends to the innermost field containing off.
func leafKind(t *rc.Type, n *rc.Node, off int) string {
	switch t.Kind {
	case rc.KStruct:
		for _, c := range n.Sub {
			if off >= c.Start && off < c.End {
				if f := t.St.Field(c.Tag); f != nil {
					return leafKind(f.T, c, off)
				}
			}
		}
	case rc.KVector, rc.KArray:
		for _, c := range n.List {
			if off >= c.Start && off < c.End {
				return leafKind(t.Elem, c, off)
			}
		}
	case rc.KMap:
		for i, c := range n.Vals {
			if off >= c.Start && off < c.End {
				return leafKind(t.Elem, c, off)
			}
			if k := n.Keys[i]; off >= k.Start && off < k.End {
				return leafKind(t.Key, k, off)
			}
		}
	}
	return kindName(t)
}

func inadmissibleSamples(t *rc.Type, tag int) map[string][]byte {
	out := map[string][]byte{}
	cands := map[string][]byte{
		"Zero":       rc.AppendIntWidth(nil, 0, rc.TZero, tag),
		"Byte":       rc.AppendIntWidth(nil, 5, rc.TByte, tag),
		"Short":      rc.AppendIntWidth(nil, 300, rc.TShort, tag),
		"Int":        rc.AppendIntWidth(nil, 70000, rc.TInt, tag),
		"Long":       rc.AppendIntWidth(nil, 5000000000, rc.TLong, tag),
		"Float":      rc.AppendFloat32(nil, 0x3fc00000, tag),
		"Double":     rc.AppendFloat64(nil, 0x3ff8000000000000, tag),
		"String1":    rc.AppendString(nil, []byte("abc"), tag),
		"String4":    rc.AppendString4(nil, []byte("abcd"), tag),
		"Map":        append(rc.AppendHead(nil, rc.TMap, tag), rc.AppendInt(nil, 0, 0)...),
		"List":       append(rc.AppendHead(nil, rc.TList, tag), rc.AppendInt(nil, 0, 0)...),
		"SimpleList": rc.AppendSimpleList(nil, []byte{1, 2}, tag),
		"Struct":     rc.AppendHead(rc.AppendHead(nil, rc.TStructBegin, tag), rc.TStructEnd, 0),
	}
	wire := map[string]int{"Zero": rc.TZero, "Byte": rc.TByte, "Short": rc.TShort, "Int": rc.TInt, "Long": rc.TLong, "Float": rc.TFloat, "Double": rc.TDouble,
		"String1": rc.TString1, "String4": rc.TString4, "Map": rc.TMap, "List": rc.TList, "SimpleList": rc.TSimpleList, "Struct": rc.TStructBegin}
	for name, b := range cands {
		if !rc.Admissible(t, wire[name]) {
			out[name] = b
		}
	}
	return out
}

// collectLengths lists every node (at any depth) that embeds a length.
func collectLengths(nodes []*rc.Node, out *[]*rc.Node) {
	for _, n := range nodes {
		if n.LenPos >= 0 {
			*out = append(*out, n)
		}
		collectLengths(n.Sub, out)
		collectLengths(n.List, out)
		collectLengths(n.Keys, out)
		collectLengths(n.Vals, out)
	}
}

func genCases(seed int64, thorough bool, tis []*tinfo) []dcase {
	var cases []dcase
	nVals := 12
	if thorough {
		nVals = 40
	}
	for _, ti := range tis {
		r := vlib.SeedRand(seed, "c06-"+ti.e.Name)
		g := sch.NewGen(r)
		for k := 0; k < nVals; k++ {
			v := g.Struct(ti.s, []int{sch.ModeNonZero, sch.ModeRandom, sch.ModeBoundary, sch.ModeNonZero}[k%4])
			base := rc.EncodeStruct(nil, ti.s, v, rc.EncOpt{OmitDefaults: k%2 == 1})
			nodes, _ := rc.ParseFields(base)
			// (P) prefixes: all for short encodings, field boundaries +-2 and a stride beyond
			cuts := map[int]bool{}
			if len(base) <= 600 || thorough && len(base) <= 4096 {
				for c := 0; c < len(base); c++ {
					cuts[c] = true
				}
			} else {
				var bnd []*rc.Node
				collectAll(nodes, &bnd)
				for _, n := range bnd {
					for d := -2; d <= 2; d++ {
						for _, p := range []int{n.Start + d, n.End + d, n.LenEnd + d} {
							if p >= 0 && p < len(base) {
								cuts[p] = true
							}
						}
					}
				}
				for c := 0; c < len(base); c += 97 {
					cuts[c] = true
				}
			}
			for c := range cuts {
				cases = append(cases, dcase{ti: ti, kind: "P", what: fmt.Sprintf("prefix of %d of %d bytes", c, len(base)), member: memberAt(ti.s, nodes, c), base: base, bytes: base[:c:c], value: v})
			}
			// (L) length inflation
			var lens []*rc.Node
			collectLengths(nodes, &lens)
			for _, n := range lens {
				remaining := len(base) - n.LenEnd
				var cur int
				switch n.Type {
				case rc.TString1, rc.TString4, rc.TSimpleList:
					cur = len(n.Bytes)
				case rc.TList:
					cur = len(n.List)
				case rc.TMap:
					cur = len(n.Keys)
				}
				news := []int64{int64(remaining + 1), int64(cur*2 + 1), 65536}
				if n.Type == rc.TString4 {
					news = append(news, 2147483647, 4294967295)
				}
				if n.Type == rc.TString1 {
					news = []int64{int64(cur + 1), 255, int64(min(255, remaining+1))}
				}
				// small inflations that swallow the following bytes and let the parse re-synchronise
				// somewhere else (this is how the two-byte-head rewind defect was met)
				for d := 2; d <= 6; d++ {
					if n.Type != rc.TString1 || cur+d <= 255 {
						news = append(news, int64(cur+d))
					}
				}
				if n.Type == rc.TSimpleList || n.Type == rc.TList || n.Type == rc.TMap {
					// a length with the sign bit set announces (read as unsigned) far more than remains and
					// is (read as signed) no length at all
					news = append(news, -1, -2147483648)
				}
				for _, nl := range news {
					if nl >= 0 && nl <= int64(cur) {
						continue
					}
					var lenBytes []byte
					switch n.Type {
					case rc.TString1:
						lenBytes = []byte{byte(nl)}
					case rc.TString4:
						lenBytes = []byte{byte(nl >> 24), byte(nl >> 16), byte(nl >> 8), byte(nl)}
					default:
						lenBytes = rc.AppendInt(nil, nl, 0)
						if nl < 0 {
							lenBytes = rc.AppendIntWidth(nil, nl, rc.TInt, 0) // ff ff ff ff / 80 00 00 00
						}
					}
					d := append(append(append([]byte(nil), base[:n.LenPos]...), lenBytes...), base[n.LenEnd:]...)
					cases = append(cases, dcase{ti: ti, kind: "L", what: fmt.Sprintf("%s length at offset %d inflated from %d to %d", rc.TypeName(n.Type), n.LenPos, cur, nl),
						member: rc.TypeName(n.Type), base: base, bytes: d, value: v})
				}
			}
			// (T) inadmissible wire types, top level and one level down
			for _, n := range nodes {
				f := ti.s.Field(n.Tag)
				if f == nil {
					continue
				}
				for _, nr := range sortedSamples(inadmissibleSamples(f.T, n.Tag)) {
					name, repl := nr.name, nr.repl
					d := append(append(append([]byte(nil), base[:n.Start]...), repl...), base[n.End:]...)
					cases = append(cases, dcase{ti: ti, kind: "T", what: fmt.Sprintf("member %s (%s) replaced by a %s field", f.Name, f.T, name), member: kindName(f.T) + "<-" + name, base: base, bytes: d, value: v})
				}
				if f.T.Kind == rc.KStruct && k%2 == 0 {
					for _, c := range n.Sub {
						cf := f.T.St.Field(c.Tag)
						if cf == nil {
							continue
						}
						for _, nr := range sortedSamples(inadmissibleSamples(cf.T, c.Tag)) {
							name, repl := nr.name, nr.repl
							d := append(append(append([]byte(nil), base[:c.Start]...), repl...), base[c.End:]...)
							cases = append(cases, dcase{ti: ti, kind: "T", what: fmt.Sprintf("nested member %s.%s (%s) replaced by a %s field", f.Name, cf.Name, cf.T, name), member: "nested " + kindName(cf.T) + "<-" + name, base: base, bytes: d, value: v})
						}
					}
				}
				if (f.T.Kind == rc.KVector) && len(n.List) > 0 {
					c := n.List[0]
					for _, nr := range sortedSamples(inadmissibleSamples(f.T.Elem, 0)) {
						name, repl := nr.name, nr.repl
						d := append(append(append([]byte(nil), base[:c.Start]...), repl...), base[c.End:]...)
						cases = append(cases, dcase{ti: ti, kind: "T", what: fmt.Sprintf("first element of %s (%s) replaced by a %s field", f.Name, f.T, name), member: "element " + kindName(f.T.Elem) + "<-" + name, base: base, bytes: d, value: v})
					}
				}
				if f.T.Kind == rc.KMap && len(n.Keys) > 0 {
					c := n.Vals[0]
					for _, nr := range sortedSamples(inadmissibleSamples(f.T.Elem, 1)) {
						name, repl := nr.name, nr.repl
						d := append(append(append([]byte(nil), base[:c.Start]...), repl...), base[c.End:]...)
						cases = append(cases, dcase{ti: ti, kind: "T", what: fmt.Sprintf("first value of map %s (%s) replaced by a %s field", f.Name, f.T, name), member: "mapvalue " + kindName(f.T.Elem) + "<-" + name, base: base, bytes: d, value: v})
					}
				}
			}
		}
	}
	return cases
}

func collectAll(nodes []*rc.Node, out *[]*rc.Node) {
	for _, n := range nodes {
		*out = append(*out, n)
		collectAll(n.Sub, out)
		collectAll(n.List, out)
		collectAll(n.Keys, out)
		collectAll(n.Vals, out)
	}
}

func runCase(rep reporter, c *dcase) {
	wit := func() map[string]interface{} {
		return map[string]interface{}{"type": c.ti.e.Name, "damage": c.kind, "what": c.what, "original_value": rc.Render(c.ti.st, c.value), "original_encoding": hexClip(c.base), "damaged_input": hexClip(c.bytes)}
	}
	defer func() {
		if r := recover(); r != nil {
			// a panic is a C05 matter; it is listed here as an observation, not a C06 verdict
			rep.Add("panics_observed_reported_under_C05", 1)
		}
	}()
	input := append([]byte(nil), c.bytes...)
	obj := c.ti.e.New()
	err := obj.ReadFrom(codec.NewReader(input))
	rep.Eval(1)
	if err != nil {
		rep.Add("rejected_with_error", 1)
		rep.Distinct(c.ti.e.Name + "|" + c.kind + "|" + string(c.bytes))
		return
	}
	got := sch.FromGo(c.ti.st, reflect.ValueOf(obj).Elem())
	if c.kind == "T" {
		w := wit()
		w["decoded"] = rc.Render(c.ti.st, got)
		rep.Violation("mistyped-field-accepted", c.member, fmt.Sprintf("%s: %s; decoding succeeded", c.ti.e.Name, c.what), w)
		return
	}
	nodes, stop, perr := rc.ParseFieldsPrefix(input)
	want, werr := rc.DecodeNodes(c.ti.s, nodes)
	if de, ok := werr.(*rc.DecodeError); ok && de.Pairing && perr == nil && stop == len(input) {
		// The damaged input is still a complete, well-formed field sequence in which nothing is cut
		// short and nothing announces more than remains (an inflated length swallowed its neighbours
		// and the parse re-synchronised), so the property's antecedent does not hold.  The reference
		// pairs map entries positionally and refuses this input; a reader using the format's
		// sequential rule (skip smaller tags between key and value) reads it differently, and the
		// property does not choose between the two.  Counted, not judged.
		rep.Add("wellformed_after_resync_not_judged", 1)
		return
	}
	if werr != nil {
		w := wit()
		w["decoded"], w["reference"] = rc.Render(c.ti.st, got), fmt.Sprintf("complete fields end at offset %d (%v); %v", stop, perr, werr)
		rep.Violation("damaged-input-accepted", c.kind+":"+c.member, fmt.Sprintf("%s: %s; the complete fields do not determine a value (%v) but decoding succeeded", c.ti.e.Name, c.what, werr), w)
		return
	}
	if d := rc.Diff(c.ti.st, want, got, ""); d != "" {
		w := wit()
		w["decoded"], w["value_of_complete_fields"], w["difference"] = rc.Render(c.ti.st, got), rc.Render(c.ti.st, want), d
		rep.Violation("made-up-data", c.kind+":"+c.member, fmt.Sprintf("%s: %s; decoding succeeded with a value the complete fields do not determine: %s", c.ti.e.Name, c.what, d), w)
		return
	}
	rep.Add("accepted_with_exact_value", 1)
	rep.Distinct(c.ti.e.Name + "|" + c.kind + "|" + string(c.bytes))
}

// ---------- TUP attribute sets and primitive readers (in-process part of the child) ----------

func tupCases(rep reporter, seed int64) {
	r := vlib.SeedRand(seed, "tup")
	for k := 0; k < 40; k++ {
		n := 1 + r.Intn(4)
		type ent struct {
			name string
			val  []byte
		}
		var ents []ent
		var base []byte
		base = rc.AppendHead(base, rc.TMap, 0)
		base = rc.AppendInt(base, int64(n), 0)
		var valSpans [][2]int
		for i := 0; i < n; i++ {
			val := rc.AppendInt(nil, int64(r.Uint64())>>uint(r.Intn(64)), 0)
			val = rc.AppendString(val, []byte("v"), 1)
			ents = append(ents, ent{fmt.Sprintf("k%d", i), val})
			base = rc.AppendString(base, []byte(ents[i].name), 0)
			st := len(base)
			base = rc.AppendSimpleList(base, val, 1)
			valSpans = append(valSpans, [2]int{st, len(base)})
		}
		try := func(input []byte, class, locus, what string) {
			defer func() {
				if rr := recover(); rr != nil {
					rep.Add("panics_observed_reported_under_C05", 1)
				}
			}()
			u2 := tup.NewUniAttribute()
			err := u2.Decode(codec.NewReader(append([]byte(nil), input...)))
			rep.Eval(1)
			if err != nil {
				return
			}
			got := map[string]string{}
			for _, e := range ents {
				var b []byte
				if u2.GetBuffer(e.name, &b) == nil {
					got[e.name] = fmt.Sprintf("%x", b)
				}
			}
			rep.Violation(class, locus, fmt.Sprintf("TUP attribute set of %d entries, %s: Decode succeeded with entries %v", n, what, got),
				map[string]interface{}{"encoding": hexClip(base), "damaged_input": hexClip(input), "what": what})
		}
		for c := 0; c < len(base); c++ {
			try(base[:c], "made-up-data", "TUP-P:attribute-map", fmt.Sprintf("cut at %d of %d bytes", c, len(base)))
		}
		for i, sp := range valSpans {
			for _, nr := range sortedSamples(inadmissibleSamples(&rc.Type{Kind: rc.KVector, Elem: &rc.Type{Kind: rc.KInt8}}, 1)) {
				name, repl := nr.name, nr.repl
				d := append(append(append([]byte(nil), base[:sp[0]]...), repl...), base[sp[1]:]...)
				pos := "last"
				if i < n-1 {
					pos = "non-last"
				}
				try(d, "mistyped-field-accepted", "TUP-T:"+pos+"<-"+name, fmt.Sprintf("value of entry %d of %d replaced by a %s field", i, n, name))
			}
		}
		rep.Distinct(fmt.Sprintf("tup|%x", base))
	}
}

func primitiveCases(rep reporter) {
	type rd struct {
		name string
		enc  []byte
		read func(r *codec.Reader) (string, error)
	}
	var rs []rd
	rs = append(rs, rd{"int16", rc.AppendIntWidth(nil, 0x1234, rc.TShort, 3), func(r *codec.Reader) (string, error) {
		var v int16
		e := r.ReadInt16(&v, 3, true)
		return fmt.Sprint(v), e
	}})
	rs = append(rs, rd{"int32", rc.AppendIntWidth(nil, 0x12345678, rc.TInt, 3), func(r *codec.Reader) (string, error) {
		var v int32
		e := r.ReadInt32(&v, 3, true)
		return fmt.Sprint(v), e
	}})
	rs = append(rs, rd{"int64", rc.AppendIntWidth(nil, 0x123456789abcdef0, rc.TLong, 3), func(r *codec.Reader) (string, error) {
		var v int64
		e := r.ReadInt64(&v, 3, true)
		return fmt.Sprint(v), e
	}})
	rs = append(rs, rd{"uint32-as-long", rc.AppendIntWidth(nil, 4000000000, rc.TLong, 3), func(r *codec.Reader) (string, error) {
		var v uint32
		e := r.ReadUint32(&v, 3, true)
		return fmt.Sprint(v), e
	}})
	rs = append(rs, rd{"float32", rc.AppendFloat32(nil, 0x3fc00000, 3), func(r *codec.Reader) (string, error) {
		var v float32
		e := r.ReadFloat32(&v, 3, true)
		return fmt.Sprint(v), e
	}})
	rs = append(rs, rd{"float64", rc.AppendFloat64(nil, 0x3ff8000000000000, 3), func(r *codec.Reader) (string, error) {
		var v float64
		e := r.ReadFloat64(&v, 3, true)
		return fmt.Sprint(v), e
	}})
	rs = append(rs, rd{"string1", rc.AppendString(nil, []byte("hello world"), 3), func(r *codec.Reader) (string, error) { var v string; e := r.ReadString(&v, 3, true); return v, e }})
	rs = append(rs, rd{"string4", rc.AppendString4(nil, make([]byte, 300), 3), func(r *codec.Reader) (string, error) {
		var v string
		e := r.ReadString(&v, 3, true)
		return fmt.Sprint(len(v)), e
	}})
	for _, x := range rs {
		for c := 0; c < len(x.enc); c++ {
			func() {
				defer func() {
					if rr := recover(); rr != nil {
						rep.Add("panics_observed_reported_under_C05", 1)
					}
				}()
				v, err := x.read(codec.NewReader(append([]byte(nil), x.enc[:c]...)))
				rep.Eval(1)
				if err == nil {
					rep.Violation("made-up-data", "P:primitive-"+x.name, fmt.Sprintf("Read of a %s field cut at %d of %d bytes succeeded with value %s", x.name, c, len(x.enc), v),
						map[string]interface{}{"encoding": hexClip(x.enc), "cut": c, "value": v})
				}
			}()
		}
		rep.Distinct("prim|" + x.name)
	}
	// ReadBytes / ReadSlice* with more content announced than present
	for _, n := range []int32{1, 5, 100} {
		func() {
			defer func() {
				if rr := recover(); rr != nil {
					rep.Add("panics_observed_reported_under_C05", 1)
				}
			}()
			var b []byte
			if err := codec.NewReader([]byte{1, 2}).ReadBytes(&b, n+2, true); err == nil {
				rep.Violation("made-up-data", "P:ReadBytes", fmt.Sprintf("ReadBytes(len %d) on 2 bytes of input succeeded with %x", n+2, b), map[string]interface{}{"len": n + 2})
			}
			var i8 []int8
			if err := codec.NewReader([]byte{1, 2}).ReadSliceInt8(&i8, n+2, true); err == nil {
				rep.Violation("made-up-data", "P:ReadSliceInt8", fmt.Sprintf("ReadSliceInt8(len %d) on 2 bytes of input succeeded with %v", n+2, i8), map[string]interface{}{"len": n + 2})
			}
			var u8 []uint8
			if err := codec.NewReader([]byte{1, 2}).ReadSliceUint8(&u8, n+2, true); err == nil {
				rep.Violation("made-up-data", "P:ReadSliceUint8", fmt.Sprintf("ReadSliceUint8(len %d) on 2 bytes of input succeeded with %v", n+2, u8), map[string]interface{}{"len": n + 2})
			}
			rep.Eval(3)
		}()
	}
}

func loadTypes() []*tinfo {
	u, err := sch.LoadUniverse(resreg.TarsFiles)
	if err != nil {
		fmt.Fprintln(os.Stderr, err)
		return nil
	}
	var tis []*tinfo
	for _, e := range resreg.Types {
		s, err := u.SchemaOf(e.New())
		if err != nil {
			continue
		}
		tis = append(tis, &tinfo{e: e, s: s, st: &rc.Type{Kind: rc.KStruct, St: s}})
	}
	return tis
}

func main() {
	debug.SetMaxStack(256 << 20)
	thorough := os.Getenv("VERIF_TIER") == "thorough"
	var seed int64 = 1
	fmt.Sscanf(os.Getenv("VERIF_SEED"), "%d", &seed)
	tis := loadTypes()
	if vlib.IsBatchChild() {
		vlib.LimitAddressSpace(12 << 30)
		em := vlib.NewEmitter()
		cases := genCases(seed, thorough, tis)
		from, to := vlib.ChildRange()
		wal := vlib.OpenWAL()
		for i := from; i < to && i < len(cases); i++ {
			wal.Mark(i)
			runCase(em, &cases[i])
		}
		if from == 0 {
			tupCases(em, seed)
			primitiveCases(em)
			tupDispatchPrefixes(em, seed)
			proxyResultPrefixes(em, seed)
			udpDatagramPrefixes(em, seed)
		}
		wal.Done()
		return
	}
	run := vlib.Start("C06")
	run.SetRule("for every generated struct type x values (reference-encoded): (P) every proper prefix (all cuts for encodings <= 600 bytes, field boundaries +-2 and a stride beyond), (L) every embedded String1/String4/SimpleList/List/Map length inflated to remaining+1, 2x+1, 65536 (String4 also 2^31-1 and 2^32-1), (T) every member, nested member, first list element and first map value replaced by a well-formed field of each inadmissible wire type; plus prefixes of TUP attribute sets, of single primitive fields, and of the attribute buffer of TUP requests to the generated dispatcher (the implementation must not run); a live UDP server receiving cut datagrams between complete ones of other lengths (every packet handed to the protocol must equal a sent datagram). Oracle: reference strict parser's complete fields. A case is one damaged input; distinct inputs are counted.")
	run.Assume("panics and over-allocations provoked by damaged input are judged under C05; list/map lengths are not inflated to 2^31-1 here for that reason")
	if len(tis) == 0 {
		run.Finish()
	}
	cases := genCases(seed, thorough, tis)
	run.Set("cases_P", countKind(cases, "P"))
	run.Set("cases_L", countKind(cases, "L"))
	run.Set("cases_T", countKind(cases, "T"))
	for _, c := range cases {
		if c.kind == "L" && c.ti.e.Name == "requestf.RequestPacket" {
			run.Sample(map[string]interface{}{"type": c.ti.e.Name, "damage": c.what, "input": hexClip(c.bytes)})
			break
		}
	}
	for _, c := range cases {
		if c.kind == "T" {
			run.Sample(map[string]interface{}{"type": c.ti.e.Name, "damage": c.what, "input": hexClip(c.bytes)})
			break
		}
	}
	run.RunBatches(len(cases), 4000, 12, nil, 10*time.Minute, func(o vlib.BatchOutcome) {
		if o.Case < 0 || o.Case >= len(cases) {
			run.Inconclusive(fmt.Sprintf("child ended abnormally outside any case: exit %d %s", o.Exit, vlib.Tail(o.Stderr, 200)))
			return
		}
		c := cases[o.Case]
		run.Add("child_deaths_reported_under_C05", 1)
		run.Inconclusive(fmt.Sprintf("case %d (%s %s) ended its child (%s): judged under C05", o.Case, c.ti.e.Name, c.what, o.Kind))
	})
	run.Finish()
}

func countKind(cs []dcase, k string) int {
	n := 0
	for _, c := range cs {
		if c.kind == k {
			n++
		}
	}
	return n
}

type namedSample struct {
	name string
	repl []byte
}

func sortedSamples(m map[string][]byte) []namedSample {
	var out []namedSample
	for k, v := range m {
		out = append(out, namedSample{k, v})
	}
	sort.Slice(out, func(i, j int) bool { return out[i].name < out[j].name })
	return out
}
