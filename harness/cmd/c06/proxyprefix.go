package main

import (
	"context"
	"fmt"
	"math/rand"
	"reflect"

	"github.com/TarsCloud/TarsGo/tars/model"
	"github.com/TarsCloud/TarsGo/tars/protocol/res/requestf"
	"github.com/TarsCloud/TarsGo/tars/util/endpoint"
	"github.com/TarsCloud/TarsGo/tars/util/tools"

	"verif/gen/VI"
	rc "verif/refcodec"
	"verif/resreg"
	"verif/sch"
	"verif/vworld"
)

// proxyResultPrefixes: the result buffer of a response (return value under tag 0, out parameters
// under their positions, all required) reaches the generated PROXY cut short at every proper prefix
// and with every embedded length inflated.  What is left never determines all results, so the call
// must end with an error — it must not hand the caller a return value and out parameters made up
// from what happened to be decodable.  Control: the complete buffer is accepted and decodes to the
// generated values, else the function is not judged.

type cannedServant struct{ buf []byte }

func (h *cannedServant) Name() string { return "Verif.C06.Echo" }
func (h *cannedServant) TarsInvoke(ctx context.Context, cType byte, fn string, buf []byte, status map[string]string, rctx map[string]string, resp *requestf.ResponsePacket) error {
	*resp = requestf.ResponsePacket{IVersion: 1, IRequestId: 1, SBuffer: tools.ByteToInt8(h.buf)}
	return nil
}
func (h *cannedServant) TarsSetTimeout(t int)                  {}
func (h *cannedServant) TarsSetProtocol(model.Protocol)        {}
func (h *cannedServant) Endpoints() []*endpoint.Endpoint       { return nil }
func (h *cannedServant) SetPushCallback(callback func([]byte)) {}

func proxyResultPrefixes(rep reporter, seed int64) {
	u, err := sch.LoadUniverse(resreg.TarsFiles)
	if err != nil {
		return
	}
	funcs, err := vworld.LoadFuncs(u)
	if err != nil {
		return
	}
	r := rand.New(rand.NewSource(seed*131 + 3))
	g := sch.NewGen(r)
	g.MaxDepth = 2
	canned := &cannedServant{}
	proxy := new(VI.Echo)
	proxy.SetServant(canned)
	type outcome struct {
		err   error
		pan   interface{}
		ret   *rc.Value
		outs  []*rc.Value
		outPs []vworld.Param
	}
	call := func(fn *vworld.Func, body []byte) (o outcome) {
		m := reflect.ValueOf(proxy).MethodByName(fn.GoName + "WithContext")
		args := []reflect.Value{reflect.ValueOf(context.Background())}
		var outPtrs []reflect.Value
		for i, p := range fn.Params {
			pt := m.Type().In(1 + i)
			switch {
			case p.Out:
				ptr := reflect.New(p.GoT)
				outPtrs = append(outPtrs, ptr)
				o.outPs = append(o.outPs, p)
				args = append(args, ptr)
			case pt.Kind() == reflect.Ptr:
				args = append(args, reflect.New(pt.Elem()))
			default:
				args = append(args, reflect.Zero(pt))
			}
		}
		canned.buf = body
		defer func() {
			if rr := recover(); rr != nil {
				o.pan = rr
			}
		}()
		rets := m.Call(args)
		if e := rets[len(rets)-1]; !e.IsNil() {
			o.err = e.Interface().(error)
			return
		}
		if fn.RetT != nil {
			o.ret = sch.FromGo(fn.RetT, rets[0])
		}
		for i, p := range o.outPs {
			o.outs = append(o.outs, sch.FromGo(p.T, outPtrs[i].Elem()))
		}
		return
	}
	for round := 0; round < 3; round++ {
		for _, fn := range funcs {
			mode := []int{sch.ModeNonZero, sch.ModeRandom, sch.ModeBoundary}[round]
			var b []byte
			var want []*rc.Value
			var wantRet *rc.Value
			nres := 0
			if fn.RetT != nil {
				g.Budget = 40
				wantRet = g.Value(fn.RetT, mode, 1, false, nil)
				b = rc.EncodeValue(b, fn.RetT, wantRet, 0, rc.EncOpt{})
				nres++
			}
			for _, p := range fn.Params {
				if p.Out {
					g.Budget = 40
					v := g.Value(p.T, mode, 1, false, nil)
					want = append(want, v)
					b = rc.EncodeValue(b, p.T, v, p.Tag, rc.EncOpt{})
					nres++
				}
			}
			if nres == 0 || len(b) > 3000 {
				continue
			}
			// control
			c := call(fn, b)
			ok := c.err == nil && c.pan == nil && (fn.RetT == nil || rc.Equal(fn.RetT, c.ret, wantRet))
			for i := range want {
				ok = ok && i < len(c.outs) && rc.Equal(c.outPs[i].T, c.outs[i], want[i])
			}
			if !ok {
				rep.Add("proxy_result_control_not_accepted_function_not_judged", 1)
				continue
			}
			judge := func(kind, what string, body []byte) bool {
				rep.Eval(1)
				o := call(fn, body)
				if o.pan != nil || o.err != nil {
					return true // panics are C05's; an error is the right answer
				}
				rep.Violation("made-up-data", kind+":proxy", fmt.Sprintf("response for %s whose result buffer %s: the generated proxy returned success", fn.Name, what),
					map[string]interface{}{"function": fn.Name, "damage": what, "result_buffer": hexClip(b), "damaged_buffer": hexClip(body)})
				return false
			}
			for cut := 0; cut < len(b); cut++ {
				if !judge("P", fmt.Sprintf("is cut at %d of %d bytes", cut, len(b)), b[:cut:cut]) {
					return
				}
			}
			// every embedded length announcing more than remains
			nodes, _ := rc.ParseFields(b)
			var flat []*rc.Node
			var walk func(ns []*rc.Node)
			walk = func(ns []*rc.Node) {
				for _, n := range ns {
					flat = append(flat, n)
					walk(n.Sub)
					walk(n.List)
					walk(n.Keys)
					walk(n.Vals)
				}
			}
			walk(nodes)
			for _, n := range flat {
				if n.LenPos < 0 {
					continue
				}
				remaining := len(b) - n.LenEnd
				for _, nl := range []int64{int64(remaining + 1), int64(2*remaining + 1), 65536} {
					var lb []byte
					switch n.Type {
					case rc.TString1:
						if nl > 255 {
							continue
						}
						lb = []byte{byte(nl)}
					case rc.TString4:
						lb = []byte{byte(nl >> 24), byte(nl >> 16), byte(nl >> 8), byte(nl)}
					default:
						lb = rc.AppendInt(nil, nl, 0)
					}
					d := append(append(append([]byte(nil), b[:n.LenPos]...), lb...), b[n.LenEnd:]...)
					if !judge("L", fmt.Sprintf("has the %s length at offset %d set to %d with %d bytes remaining", rc.TypeName(n.Type), n.LenPos, nl, remaining), d) {
						return
					}
				}
			}
			rep.Distinct(fmt.Sprintf("proxyprefix|%s|%d|%d", fn.Name, round, len(b)))
		}
	}
}
