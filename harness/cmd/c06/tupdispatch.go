package main

import (
	"context"
	"fmt"
	"math/rand"

	"github.com/TarsCloud/TarsGo/tars"
	"github.com/TarsCloud/TarsGo/tars/util/current"
	"github.com/TarsCloud/TarsGo/tars/util/rogger"

	"verif/gen/VI"
	"verif/netlab"
	rc "verif/refcodec"
	"verif/resreg"
	"verif/sch"
	"verif/vworld"
)

// tupDispatchPrefixes: a TUP request whose attribute buffer is cut short (every proper prefix)
// reaches the generated dispatcher through the real Protocol.Invoke.  The complete attributes
// present never determine all in-parameters, so the implementation must not be executed — least
// of all with a parameter decoded from a neighbour's bytes.  Control: the complete buffer executes
// the implementation exactly once, else the function is not judged.
func tupDispatchPrefixes(rep reporter, seed int64) {
	rogger.SetLevel(rogger.OFF)
	u, err := sch.LoadUniverse(resreg.TarsFiles)
	if err != nil {
		return
	}
	funcs, err := vworld.LoadFuncs(u)
	if err != nil {
		return
	}
	r := rand.New(rand.NewSource(seed*31 + 7))
	app := tars.VerifNewApp()
	servant := vworld.NewServant()
	proto := app.NewProtocol(new(VI.Echo), servant, true)
	g := sch.NewGen(r)
	g.MaxDepth = 2
	id := int32(900)
	call := func(fn *vworld.Func, body []byte, tok string) int {
		id++
		frame := (&netlab.Request{Version: 3, RequestID: id, Servant: "Verif.C06.Echo", Func: fn.Name, Buffer: body, Timeout: 0,
			Context: map[string]string{vworld.TokenKey: tok}, Status: map[string]string{}}).Encode()
		func() {
			defer func() { _ = recover() }()
			_ = proto.Invoke(current.ContextWithTarsCurrent(context.Background()), frame)
		}()
		n := len(servant.ReceivedFor(tok))
		servant.Forget(tok)
		return n
	}
	for round := 0; round < 2; round++ {
		for _, fn := range funcs {
			var names []string
			attrs := map[string][]byte{}
			for _, p := range fn.Params {
				if p.Out {
					continue
				}
				v := g.Value(p.T, []int{sch.ModeNonZero, sch.ModeRandom}[round%2], 0, false, nil)
				attrs[p.Name] = rc.EncodeValue(nil, p.T, v, 0, rc.EncOpt{})
				names = append(names, p.Name)
			}
			if len(names) < 2 {
				continue
			}
			if round == 1 {
				for i, j := 0, len(names)-1; i < j; i, j = i+1, j-1 {
					names[i], names[j] = names[j], names[i]
				}
			}
			var b []byte
			b = rc.AppendHead(b, rc.TMap, 0)
			b = rc.AppendInt(b, int64(len(names)), 0)
			for _, k := range names {
				b = rc.AppendString(b, []byte(k), 0)
				b = rc.AppendSimpleList(b, attrs[k], 1)
			}
			if len(b) > 3000 {
				continue
			}
			if call(fn, b, fmt.Sprintf("c06tup-%d-%s-all", round, fn.Name)) != 1 {
				rep.Add("tup_dispatch_control_not_executed_function_not_judged", 1)
				continue
			}
			for cut := 0; cut < len(b); cut++ {
				rep.Eval(1)
				if n := call(fn, b[:cut:cut], fmt.Sprintf("c06tup-%d-%s-%d", round, fn.Name, cut)); n != 0 {
					rep.Violation("made-up-data", "TUP-P:dispatch", fmt.Sprintf("TUP request for %s whose attribute buffer is cut at %d of %d bytes (attribute order %v): the implementation was executed", fn.Name, cut, len(b), names),
						map[string]interface{}{"function": fn.Name, "cut": cut, "of": len(b), "attribute_order": names, "attribute_buffer": hexClip(b)})
					return
				}
			}
			rep.Distinct(fmt.Sprintf("tupdispatch|%s|%d|%d", fn.Name, round, len(b)))
		}
	}
}
