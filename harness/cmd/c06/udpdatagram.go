package main

import (
	"bytes"
	"context"
	"encoding/binary"
	"fmt"
	"math/rand"
	"net"
	"sync"
	"time"

	"github.com/TarsCloud/TarsGo/tars/protocol"
	"github.com/TarsCloud/TarsGo/tars/protocol/codec"
	"github.com/TarsCloud/TarsGo/tars/protocol/res/requestf"
	"github.com/TarsCloud/TarsGo/tars/util/current"

	"verif/netlab"
)

// udpDatagramPrefixes: the datagram transport is the one receive path where the input of the
// decoder is a window of a buffer that is used again for the next packet.  A real UDP server gets
// valid requests of different lengths and, between them, datagrams that are proper prefixes of
// valid requests (cut at every position for short ones, strided for long ones).  The monitor sits
// where the transport hands a packet to the protocol: every packet that reaches Invoke must be,
// byte for byte, one of the datagrams that were sent — a cut datagram completed from what an
// earlier datagram left in the buffer (or from zeroes) is a request nobody sent.  What the real
// decoder makes of such a packet goes into the witness.
type udpRecProto struct {
	mu   sync.Mutex
	pkgs [][]byte
}

func (p *udpRecProto) ParsePackage(b []byte) (int, int) { return protocol.TarsRequest(b) }
func (p *udpRecProto) Invoke(ctx context.Context, pkg []byte) []byte {
	p.mu.Lock()
	p.pkgs = append(p.pkgs, append([]byte(nil), pkg...))
	p.mu.Unlock()
	current.SetPacketTypeFromContext(ctx, 0)
	rsp := make([]byte, 4)
	if len(pkg) >= 8 {
		copy(rsp, pkg[len(pkg)-4:])
	}
	return netlab.Frame(rsp)
}
func (p *udpRecProto) InvokeTimeout(pkg []byte) []byte { return netlab.Frame([]byte("T")) }
func (p *udpRecProto) GetCloseMsg() []byte             { return nil }
func (p *udpRecProto) DoClose(ctx context.Context)     {}

func udpDatagramPrefixes(rep reporter, seed int64) {
	r := rand.New(rand.NewSource(seed*977 + 11))
	for _, pool := range []int{1, 0} {
		p := &udpRecProto{}
		conf := netlab.DefaultServerConf("udp")
		conf.MaxInvoke = int32(pool)
		ts, err := netlab.StartServer(p, conf)
		if err != nil {
			rep.Inconclusive("udp datagram phase: cannot start server")
			return
		}
		raddr, _ := net.ResolveUDPAddr("udp4", conf.Address)
		cn, err := net.DialUDP("udp4", nil, raddr)
		if err != nil {
			rep.Inconclusive("udp datagram phase: dial failed")
			return
		}
		sent := map[string]string{} // datagram -> description
		var marker uint32
		send := func(d []byte, what string) bool {
			sent[string(d)] = what
			_, err := cn.Write(d)
			return err == nil
		}
		// a short complete request with a unique tail, answered with that tail: when the answer is
		// here the receive loop has passed everything sent before it
		barrier := func() bool {
			marker++
			tail := make([]byte, 4)
			binary.BigEndian.PutUint32(tail, 0xC0600000|marker)
			m := (&netlab.Request{Version: 1, RequestID: int32(marker), Servant: "M", Func: "m", Status: map[string]string{"k": string(tail)}}).Encode()
			// the unique tail is the last 4 bytes of the datagram
			m = append(m[:len(m)-4], tail...)
			for try := 0; try < 3; try++ {
				if !send(m, "marker") {
					return false
				}
				cn.SetReadDeadline(time.Now().Add(2 * time.Second))
				buf := make([]byte, 64)
				for {
					n, err := cn.Read(buf)
					if err != nil {
						break
					}
					if n == 8 && bytes.Equal(buf[4:8], tail) {
						return true
					}
				}
			}
			return false
		}
		mkReq := func(k int) []byte {
			body := make([]byte, []int{0, 7, 300, 1500, 9000}[k%5]+r.Intn(40))
			for i := range body {
				body[i] = byte('A' + k%26)
			}
			return (&netlab.Request{Version: 1, RequestID: int32(1000 + k), Servant: fmt.Sprintf("Earlier.Client%d.Obj", k), Func: fmt.Sprintf("call%d", k),
				Buffer: body, Timeout: 3000, Context: map[string]string{"c": "v"}, Status: map[string]string{}}).Encode()
		}
		cuts := 0
		judged := func() bool {
			time.Sleep(2 * time.Millisecond)
			p.mu.Lock()
			defer p.mu.Unlock()
			for _, got := range p.pkgs {
				if _, ok := sent[string(got)]; ok {
					continue
				}
				// what does the real decoder make of it?
				var req requestf.RequestPacket
				derr := func() (e error) {
					defer func() {
						if x := recover(); x != nil {
							e = fmt.Errorf("panic: %v", x)
						}
					}()
					if len(got) < 4 {
						return fmt.Errorf("shorter than a header")
					}
					return req.ReadFrom(codec.NewReader(got[4:]))
				}()
				wit := map[string]interface{}{"pool": pool, "packet_handed_to_the_protocol": hexClip(got), "packet_bytes": len(got), "datagrams_sent": len(sent)}
				// the longest sent datagram it starts with
				best := 0
				for d := range sent {
					if len(d) < len(got) && len(d) > best && bytes.HasPrefix(got, []byte(d)) {
						best = len(d)
					}
				}
				wit["agrees_with_a_sent_datagram_for_bytes"] = best
				detail := fmt.Sprintf("udp server (pool %d): a packet of %d bytes reached the protocol that is none of the %d datagrams sent (it starts with a %d-byte datagram that was cut short)", pool, len(got), len(sent), best)
				if derr == nil {
					wit["decoded_without_error_as"] = map[string]interface{}{"request_id": req.IRequestId, "servant": req.SServantName, "func": req.SFuncName, "buffer_bytes": len(req.SBuffer)}
					detail += fmt.Sprintf("; the decoder accepts it: id=%d servant=%q func=%q len(sBuffer)=%d", req.IRequestId, req.SServantName, req.SFuncName, len(req.SBuffer))
				} else {
					wit["decoder_says"] = derr.Error()
				}
				rep.Violation("cut-datagram-completed-from-buffer", "udp-receive-path", detail, wit)
				return false
			}
			p.pkgs = p.pkgs[:0]
			return true
		}
		ok := true
		// the very first datagram of the server is a cut one: nothing but zeroes behind it
		first := mkReq(2)
		send(first[:9], "prefix 9 of the first request")
		cuts++
		ok = barrier() && judged()
		for k := 0; ok && k < 24; k++ {
			long := mkReq(k)
			if !send(long, "complete request") || !barrier() || !judged() {
				ok = false
				break
			}
			victim := mkReq(k + 1 + r.Intn(3))
			var at []int
			if len(victim) <= 120 {
				for c := 1; c < len(victim); c++ {
					at = append(at, c)
				}
			} else {
				at = []int{1, 3, 4, 5, 9, 12, 40, len(victim) / 2, len(victim) - 5, len(victim) - 1}
				for j := 0; j < 6; j++ {
					at = append(at, 1+r.Intn(len(victim)-1))
				}
			}
			for _, c := range at {
				if c >= len(victim) {
					continue
				}
				if !send(victim[:c], fmt.Sprintf("prefix %d of a %d-byte request", c, len(victim))) {
					ok = false
					break
				}
				cuts++
				rep.Distinct(fmt.Sprintf("udpcut|%d|%d|%d", pool, len(victim), c))
				if c%3 == 0 { // sometimes the long datagram is the direct predecessor of the cut one
					send(long, "complete request")
				}
			}
			if !ok || !barrier() || !judged() {
				ok = false
				break
			}
			rep.Eval(int64(len(at)))
		}
		if ok {
			time.Sleep(20 * time.Millisecond)
			ok = judged()
		} else if len(sent) > 0 {
			p.mu.Lock()
			n := len(p.pkgs)
			p.mu.Unlock()
			if n == 0 || judged() {
				rep.Inconclusive("udp datagram phase: a marker request was not answered")
			}
		}
		cn.Close()
		ctx, cancel := context.WithTimeout(context.Background(), 3*time.Second)
		_ = ts.Shutdown(ctx)
		cancel()
		rep.Add("udp_cut_datagrams_sent", int64(cuts))
		rep.Add("udp_packets_compared_with_sent_datagrams", int64(len(sent)))
		if !ok {
			return
		}
	}
	rep.Sample(map[string]interface{}{"phase": "udp-datagram-prefixes", "events": "complete request of 40..9000 bytes, marker, prefixes of another request (cut at 1..len-1), marker; every packet handed to Invoke must equal a sent datagram"})
}
