package main

import (
	"encoding/binary"
	"fmt"
	"net"
	"strings"
	"time"

	"verif/appchild"
	"verif/netlab"
)

// appLimitScenario: the maximum packet length a deployed server is configured with is the one in
// its configuration file (maxPackageLength under /tars/application/server).  The real application
// is started with maxPackageLength=N; a length prefix of N+1 must close that connection (only), a
// packet of exactly N bytes must be accepted and answered.
func appLimitScenario(limit int) {
	a, err := appchild.Start(appchild.Config{MaxPackageLength: limit})
	if err != nil {
		if a != nil {
			a.Kill()
		}
		run.Inconclusive("application child: " + err.Error())
		return
	}
	defer a.Kill()
	wit := func(extra map[string]interface{}) map[string]interface{} {
		st, _ := a.Line("STATE ")
		m := map[string]interface{}{"scenario": "application-configured-limit", "maxPackageLength_in_config_file": limit, "application_state": st}
		for k, v := range extra {
			m[k] = v
		}
		return m
	}
	// exactly the maximum: a ping whose servant name is padded to make the frame `limit` bytes long
	base := (&netlab.Request{Version: 1, RequestID: 5, Servant: "x", Func: "tars_ping", Context: map[string]string{}, Status: map[string]string{}}).Encode()
	pad := limit - len(base)
	if pad < 0 {
		run.Inconclusive("limit smaller than a ping")
		return
	}
	full := (&netlab.Request{Version: 1, RequestID: 5, Servant: "x" + strings.Repeat("y", pad), Func: "tars_ping", Context: map[string]string{}, Status: map[string]string{}}).Encode()
	for len(full) > limit && pad > 0 { // the string length field may have grown by its own width
		pad--
		full = (&netlab.Request{Version: 1, RequestID: 5, Servant: "x" + strings.Repeat("y", pad), Func: "tars_ping", Context: map[string]string{}, Status: map[string]string{}}).Encode()
	}
	run.Eval(1)
	if len(full) == limit {
		c, err := net.DialTimeout("tcp", a.TCPAddr, 3*time.Second)
		if err == nil {
			_, _ = c.Write(full)
			fr := &netlab.FrameReader{Conn: c}
			if _, err := fr.Next(5 * time.Second); err != nil {
				run.Violation("max-length-packet-rejected", "application-configured-limit", fmt.Sprintf("a packet of exactly the configured maximum (%d bytes) was not answered: %v", limit, err), wit(nil))
				c.Close()
				return
			}
			c.Close()
		}
	}
	// one byte more than the configured maximum: protocol error, the connection is closed
	c, err := net.DialTimeout("tcp", a.TCPAddr, 3*time.Second)
	if err != nil {
		run.Inconclusive("application child: dial: " + err.Error())
		return
	}
	defer c.Close()
	var h [4]byte
	binary.BigEndian.PutUint32(h[:], uint32(limit+1))
	_, _ = c.Write(append(h[:], []byte("garbage after a length prefix above the configured maximum")...))
	fr := &netlab.FrameReader{Conn: c}
	_, closed := fr.WaitEOF(6 * time.Second)
	run.Eval(1)
	if !closed {
		run.Violation("illegal-length-accepted", "application-configured-limit", fmt.Sprintf("the application was configured with maxPackageLength=%d; a length prefix of %d did not close the connection within 6 s", limit, limit+1), wit(nil))
		return
	}
	// the application is still serving others
	if rsp, err := a.Call(a.TCPAddr, "tcp", a.TCPObj, "tars_ping", 9, nil, 3*time.Second); err != nil || rsp.RequestID != 9 {
		run.Violation("illegal-length-closes-more-than-its-connection", "application-configured-limit", fmt.Sprintf("after the protocol error on one connection a ping on a new connection failed: %v", err), wit(nil))
		return
	}
	run.Distinct(fmt.Sprintf("app-limit|%d", limit))
}
