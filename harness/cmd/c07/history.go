package main

import (
	"bytes"
	"context"
	"encoding/binary"
	"fmt"
	"net"
	"time"

	"github.com/TarsCloud/TarsGo/tars/protocol/res/basef"
	"github.com/TarsCloud/TarsGo/tars/util/current"

	"verif/netlab"
)

// Framing verdicts that depend on what the connection carried before, or on server options:
// (A) a protocol error closes the connection also when one-way requests (which are never answered)
// went over it before; (B) with a server read timeout configured, a packet whose bytes arrive with
// a pause longer than that timeout in between is still framed whole, and so are its successors.

type owProto struct{ srvProto }

var owMark = []byte("OWY:")

func (p *owProto) Invoke(ctx context.Context, pkg []byte) []byte {
	if len(pkg) >= 8 && bytes.Equal(pkg[4:8], owMark) {
		r := p.cur.Load()
		r.mu.Lock()
		r.handed = append(r.handed, append([]byte(nil), pkg...))
		r.mu.Unlock()
		current.SetPacketTypeFromContext(ctx, basef.TARSONEWAY)
		return nil
	}
	current.SetPacketTypeFromContext(ctx, basef.TARSNORMAL)
	return p.srvProto.Invoke(ctx, pkg)
}

func pkt(mark string, i int) []byte {
	b := make([]byte, 24)
	copy(b, mark)
	binary.BigEndian.PutUint32(b[4:], uint32(i))
	copy(b[8:], "history-scenario")
	return netlab.Frame(b)
}

func historyScenarios() {
	// ---- (A) one-way requests, then a protocol error ----
	for _, pool := range []int{0, 2} {
		for _, bad := range []uint32{3, 10485761} {
			p := &owProto{}
			rc := &rec{}
			p.cur.Store(rc)
			conf := netlab.DefaultServerConf("tcp")
			conf.MaxInvoke = int32(pool)
			if _, err := netlab.StartServer(p, conf); err != nil {
				run.Inconclusive("history scenarios: cannot start the server: " + err.Error())
				return
			}
			c, err := net.DialTimeout("tcp", conf.Address, 3*time.Second)
			if err != nil {
				run.Inconclusive("history scenarios: dial: " + err.Error())
				continue
			}
			var stream []byte
			stream = append(stream, pkt("PKT:", 0)...)
			stream = append(stream, pkt("OWY:", 1)...)
			stream = append(stream, pkt("OWY:", 2)...)
			stream = append(stream, pkt("PKT:", 3)...)
			if _, err := c.Write(stream); err != nil {
				run.Inconclusive("history scenarios: write: " + err.Error())
				c.Close()
				continue
			}
			fr := &netlab.FrameReader{Conn: c}
			acks := 0
			for acks < 2 {
				if _, err := fr.Next(10 * time.Second); err != nil {
					break
				}
				acks++
			}
			sc := scenario{Side: "server", Pool: pool, CutKind: "two-way, one-way, one-way, two-way, then an illegal prefix", Illegal: int64(bad), IllegalJ: 4}
			run.Eval(1)
			if acks != 2 {
				run.Violation("packets-not-delivered", "server:after-one-way", fmt.Sprintf("%d of 2 acknowledgements received for the two-way packets around two one-way packets (pool %d)", acks, pool), witness(sc, nil))
				c.Close()
				continue
			}
			waitFor(func() bool { _, h, _, _, _ := rc.snapshot(); return len(h) >= 4 }, 3*time.Second)
			var h [4]byte
			binary.BigEndian.PutUint32(h[:], bad)
			_, _ = c.Write(append(h[:], []byte("garbage after the illegal prefix")...))
			if _, closed := fr.WaitEOF(6 * time.Second); !closed {
				run.Violation("illegal-length-not-closed", "server:after-one-way-requests", fmt.Sprintf("length prefix %d did not close within 6 s a connection that had carried two one-way requests (pool %d)", bad, pool), witness(sc, nil))
			} else {
				run.Distinct(fmt.Sprintf("history|oneway|%d|%d", pool, bad))
			}
			c.Close()
		}
	}
	// ---- (B) a pause inside a packet that is longer than the server's read timeout ----
	for _, pool := range []int{0, 2} {
		for _, where := range []string{"inside-header", "inside-body", "between-packets"} {
			p := &srvProto{}
			rc := &rec{}
			p.cur.Store(rc)
			conf := netlab.DefaultServerConf("tcp")
			conf.MaxInvoke = int32(pool)
			conf.ReadTimeout = 300 * time.Millisecond
			if _, err := netlab.StartServer(p, conf); err != nil {
				run.Inconclusive("history scenarios: cannot start the server: " + err.Error())
				return
			}
			c, err := net.DialTimeout("tcp", conf.Address, 3*time.Second)
			if err != nil {
				run.Inconclusive("history scenarios: dial: " + err.Error())
				continue
			}
			pk := [][]byte{pkt("PKT:", 0), pkt("PKT:", 1), pkt("PKT:", 2)}
			stream := append(append(append([]byte(nil), pk[0]...), pk[1]...), pk[2]...)
			cut := map[string]int{"inside-header": len(pk[0]) + 2, "inside-body": len(pk[0]) + 15, "between-packets": len(pk[0])}[where]
			_, _ = c.Write(stream[:cut])
			time.Sleep(800 * time.Millisecond)
			_, _ = c.Write(stream[cut:])
			fr := &netlab.FrameReader{Conn: c}
			acks := 0
			for acks < 3 {
				if _, err := fr.Next(6 * time.Second); err != nil {
					break
				}
				acks++
			}
			framed, _, lens, _, _ := rc.snapshot()
			sc := scenario{Side: "server", Pool: pool, Sizes: []int{len(pk[0]), len(pk[1]), len(pk[2])}, CutKind: "800 ms pause " + where + ", server read timeout 300 ms"}
			run.Eval(1)
			if acks != 3 {
				run.Violation("packets-not-delivered", "server:pause-longer-than-read-timeout", fmt.Sprintf("%d of 3 acknowledgements received; framing layer produced %d packets; the stream paused for 800 ms %s, the server's read timeout is 300 ms (pool %d)", acks, len(framed), where, pool),
					witness(sc, map[string]interface{}{"buffer_lengths_seen": clipInts(lens)}))
			} else if d := comparePackets(sc, "framing layer output", framed, pk); d != "" {
				run.Violation("framing-mismatch", "server:pause-longer-than-read-timeout", d, witness(sc, nil))
			} else {
				run.Distinct(fmt.Sprintf("history|pause|%d|%s", pool, where))
			}
			c.Close()
		}
	}
}
