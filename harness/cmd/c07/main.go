// C07 — stream framing is independent of TCP segmentation and bounds packet size.
//
// Monitor: recording protocol objects sit on the REAL receive loops (transport.TarsServer and
// transport.TarsClient); their ParsePackage delegates to the real framing function and records,
// each time it reports a full package, the bytes of that package — the framing layer's output, in
// order, on the connection's single receive goroutine — plus the length of every buffer shown
// (evidence of the read partitions that really occurred).  Invoke / Recv record the copy handed to
// the protocol layer.  A scripted peer sends packet sequences split at chosen points (single
// bytes, inside the 4-byte prefix, at packet boundaries +-1, random, coalesced) with different
// pacing.  Oracle: recorded sequence == sent sequence byte for byte; handler copies are a
// permutation of it; an illegal length prefix closes that connection only, after the earlier
// packets were delivered; a packet of exactly the maximum length is accepted.
package main

import (
	"bytes"
	"context"
	"encoding/binary"
	"fmt"
	"hash/fnv"
	"io"
	"math/rand"
	"net"
	"sort"
	"sync"
	"sync/atomic"
	"time"
	"verif/appchild"

	"github.com/TarsCloud/TarsGo/tars/protocol"
	"github.com/TarsCloud/TarsGo/tars/transport"
	"github.com/TarsCloud/TarsGo/tars/util/rogger"

	"verif/netlab"
	"verif/vlib"
)

var run *vlib.Run

// ---------- recorders ----------

type rec struct {
	mu      sync.Mutex
	framed  [][]byte
	handed  [][]byte
	bufLens []int
	perr    int
	byst    [][]byte
}

func (r *rec) snapshot() (framed, handed [][]byte, lens []int, perr int, byst int) {
	r.mu.Lock()
	defer r.mu.Unlock()
	return append([][]byte(nil), r.framed...), append([][]byte(nil), r.handed...), append([]int(nil), r.bufLens...), r.perr, len(r.byst)
}

var bystMark = []byte("BYST")

type srvProto struct {
	cur atomic.Pointer[rec]
}

func (p *srvProto) ParsePackage(buff []byte) (int, int) {
	n, st := protocol.TarsRequest(buff)
	r := p.cur.Load()
	r.mu.Lock()
	isByst := len(buff) >= 8 && bytes.Equal(buff[4:8], bystMark)
	if !isByst {
		r.bufLens = append(r.bufLens, len(buff))
	}
	switch st {
	case transport.PackageFull:
		c := append([]byte(nil), buff[:n]...)
		if isByst {
			r.byst = append(r.byst, c)
		} else {
			r.framed = append(r.framed, c)
		}
	case transport.PackageError:
		r.perr++
	}
	r.mu.Unlock()
	return n, st
}

func ack(pkg []byte) []byte {
	b := []byte("ACK")
	if len(pkg) > 4 {
		b = append(b, pkg[4:min(len(pkg), 20)]...)
	}
	return netlab.Frame(b)
}

var bigMark = []byte("BIG!")

func (p *srvProto) Invoke(ctx context.Context, pkg []byte) []byte {
	if len(pkg) >= 9 && bytes.Equal(pkg[4:8], bigMark) {
		// a large response filled with the request's own byte: responses of handlers running in
		// parallel for one connection must reach the peer as whole packets too
		return netlab.Frame(bytes.Repeat([]byte{pkg[8]}, bigResponse))
	}
	r := p.cur.Load()
	if !(len(pkg) >= 8 && bytes.Equal(pkg[4:8], bystMark)) {
		r.mu.Lock()
		r.handed = append(r.handed, append([]byte(nil), pkg...))
		r.mu.Unlock()
	}
	return ack(pkg)
}
func (p *srvProto) InvokeTimeout(pkg []byte) []byte { return ack(pkg) }
func (p *srvProto) GetCloseMsg() []byte             { return netlab.Frame([]byte("CLOSE")) }
func (p *srvProto) DoClose(ctx context.Context)     {}

type cliProto struct {
	cur atomic.Pointer[rec]
}

func (p *cliProto) ParsePackage(buff []byte) (int, int) {
	n, st := (&protocol.TarsProtocol{}).ParsePackage(buff)
	r := p.cur.Load()
	r.mu.Lock()
	r.bufLens = append(r.bufLens, len(buff))
	switch st {
	case transport.PackageFull:
		r.framed = append(r.framed, append([]byte(nil), buff[:n]...))
	case transport.PackageError:
		r.perr++
	}
	r.mu.Unlock()
	return n, st
}
func (p *cliProto) Recv(pkg []byte) {
	r := p.cur.Load()
	r.mu.Lock()
	r.handed = append(r.handed, append([]byte(nil), pkg...))
	r.mu.Unlock()
}

const bigResponse = 3 << 20

// bigResponsesScenario: k requests pipelined on one connection, each answered (by handlers running
// in parallel, no worker pool) with a 3 MiB packet filled with the request's own byte.  The peer must
// receive k whole packets, each of the full length and of one byte value, one per request.
func bigResponsesScenario(srv *server, k int) {
	conn, err := net.DialTimeout("tcp", srv.addr, 3*time.Second)
	if err != nil {
		run.Inconclusive("dial failed: " + err.Error())
		return
	}
	defer conn.Close()
	var stream []byte
	for i := 0; i < k; i++ {
		stream = append(stream, netlab.Frame(append(append([]byte(nil), bigMark...), byte('a'+i)))...)
	}
	if _, err := conn.Write(stream); err != nil {
		run.Inconclusive("write failed: " + err.Error())
		return
	}
	fr := &netlab.FrameReader{Conn: conn}
	seen := map[byte]int{}
	wit := map[string]interface{}{"scenario": "big-responses", "requests": k, "response_bytes": bigResponse}
	for i := 0; i < k; i++ {
		f, err := fr.Next(30 * time.Second)
		if err != nil {
			wit["responses_received"] = i
			run.Violation("packets-not-delivered", "client-of-server:big-responses", fmt.Sprintf("%d of %d large responses of one connection arrived as whole packets (%v)", i, k, err), wit)
			return
		}
		body := f[4:]
		if len(body) != bigResponse {
			wit["length"] = len(body)
			run.Violation("framing-mismatch", "client-of-server:big-responses", fmt.Sprintf("response %d has %d bytes, every response has %d", i, len(body), bigResponse), wit)
			return
		}
		for j := range body {
			if body[j] != body[0] {
				wit["offset"], wit["byte"], wit["first_byte"] = j, body[j], body[0]
				run.Violation("framing-mismatch", "client-of-server:big-responses", fmt.Sprintf("response %d (for request %q) carries a byte of another response at offset %d (%q)", i, body[0], j, body[j]), wit)
				return
			}
		}
		seen[body[0]]++
	}
	for i := 0; i < k; i++ {
		if seen[byte('a'+i)] != 1 {
			run.Violation("framing-mismatch", "client-of-server:big-responses", fmt.Sprintf("request %q was answered %d times", byte('a'+i), seen[byte('a'+i)]), wit)
			return
		}
	}
	run.Eval(1)
	run.Distinct(fmt.Sprintf("big-responses|%d", k))
}

// retainProto: a protocol whose Invoke keeps working on its packet after the server's handle
// timeout has already answered for it — the packet handed to the protocol layer is the protocol
// layer's for as long as it runs.
type retainProto struct {
	changed atomic.Int64
	slow    atomic.Int64
}

func (p *retainProto) ParsePackage(b []byte) (int, int) { return protocol.TarsRequest(b) }
func (p *retainProto) Invoke(ctx context.Context, pkg []byte) []byte {
	if len(pkg) > 8 && pkg[4] == 'S' {
		snap := append([]byte(nil), pkg...)
		p.slow.Add(1)
		time.Sleep(300 * time.Millisecond)
		if !bytes.Equal(snap, pkg) {
			p.changed.Add(1)
		}
	}
	return ack(pkg)
}
func (p *retainProto) InvokeTimeout(pkg []byte) []byte { return ack(pkg) }
func (p *retainProto) GetCloseMsg() []byte             { return netlab.Frame([]byte("CLOSE")) }
func (p *retainProto) DoClose(ctx context.Context)     {}

// retainedPacketScenario: handle timeout 50 ms; 20 slow handlers (300 ms) each look at their packet
// again when they wake up, while 400 other packets of the same size pass through the server on two
// connections.  A packet that changed under its handler had another packet's bytes carried into it.
func retainedPacketScenario(pool int) {
	p := &retainProto{}
	conf := netlab.DefaultServerConf("tcp")
	conf.MaxInvoke = int32(pool)
	conf.HandleTimeout = 50 * time.Millisecond
	if _, err := netlab.StartServer(p, conf); err != nil {
		run.Inconclusive("cannot start server")
		return
	}
	mk := func(fill byte) []byte { return netlab.Frame(bytes.Repeat([]byte{fill}, 200)) }
	var conns []net.Conn
	for i := 0; i < 2; i++ {
		c, err := net.DialTimeout("tcp", conf.Address, 3*time.Second)
		if err != nil {
			run.Inconclusive("dial failed")
			return
		}
		defer c.Close()
		conns = append(conns, c)
		go func(c net.Conn) { _, _ = io.Copy(io.Discard, c) }(c)
	}
	for i := 0; i < 20; i++ {
		_, _ = conns[0].Write(mk('S'))
	}
	for i := 0; i < 400; i++ {
		_, _ = conns[i%2].Write(mk('F'))
		if i%40 == 0 {
			time.Sleep(10 * time.Millisecond)
		}
	}
	waitFor(func() bool { return p.slow.Load() >= 20 }, 5*time.Second)
	time.Sleep(500 * time.Millisecond)
	run.Eval(1)
	if n := p.changed.Load(); n > 0 {
		run.Violation("framing-mismatch", "server:packet-changed-under-its-handler", fmt.Sprintf("%d of 20 packets handed to the protocol layer had changed when their handler (still running after the 50 ms handle timeout) looked at them again 300 ms later; 400 other packets had passed through the server meanwhile (pool %d)", n, pool),
			map[string]interface{}{"scenario": "retained-packet", "handle_timeout_ms": 50, "handler_ms": 300, "pool": pool})
		return
	}
	run.Distinct(fmt.Sprintf("retained-packet|pool%d", pool))
}

// ---------- scenarios ----------

type scenario struct {
	ID       int
	Side     string
	MaxLen   int
	Sizes    []int
	CutKind  string
	Pace     netlab.Pace
	Illegal  int64 // -1: none; else the illegal length prefix value
	IllegalJ int   // number of good packets before the illegal prefix
	IllegalBody bool // the illegal prefix is followed by a body of exactly the announced size (a complete over-long packet)
	Pool     int
}

func (s scenario) String() string {
	sz := fmt.Sprint(s.Sizes)
	if len(sz) > 80 {
		sz = sz[:80] + "…"
	}
	return fmt.Sprintf("%s max=%d pool=%d packets=%d sizes=%s cuts=%s pace=%d illegal=%d after %d complete-body=%v", s.Side, s.MaxLen, s.Pool, len(s.Sizes), sz, s.CutKind, s.Pace, s.Illegal, s.IllegalJ, s.IllegalBody)
}

func buildPackets(r *rand.Rand, sizes []int) [][]byte {
	out := make([][]byte, len(sizes))
	for i, n := range sizes {
		p := make([]byte, n)
		binary.BigEndian.PutUint32(p, uint32(n))
		if n > 4 {
			body := p[4:]
			r.Read(body)
			// the body must not look like the bystander marker and carries its index when there is room
			if len(body) >= 4 {
				copy(body, []byte("PKT:"))
			}
			if len(body) >= 8 {
				binary.BigEndian.PutUint32(body[4:], uint32(i))
			}
		}
		out[i] = p
	}
	return out
}

func cutsFor(r *rand.Rand, kind string, pkts [][]byte, total int) []int {
	var cuts []int
	switch kind {
	case "one-write":
	case "single-bytes":
		for i := 1; i < total; i++ {
			cuts = append(cuts, i)
		}
	case "inside-prefix":
		off := 0
		for _, p := range pkts {
			cuts = append(cuts, off+1+r.Intn(3))
			off += len(p)
		}
	case "boundaries+-1":
		off := 0
		for _, p := range pkts {
			off += len(p)
			for d := -1; d <= 1; d++ {
				if off+d > 0 && off+d < total {
					cuts = append(cuts, off+d)
				}
			}
		}
	case "per-packet":
		off := 0
		for _, p := range pkts {
			off += len(p)
			cuts = append(cuts, off)
		}
	case "coalesce-3":
		off := 0
		for i, p := range pkts {
			off += len(p)
			if i%3 == 2 {
				cuts = append(cuts, off)
			}
		}
	case "packet+prefix-part": // a whole packet plus 1..3 bytes of the next header in one write
		off := 0
		for _, p := range pkts {
			off += len(p)
			cuts = append(cuts, off+1+r.Intn(3))
		}
	default: // random
		n := 1 + r.Intn(12)
		for i := 0; i < n; i++ {
			cuts = append(cuts, 1+r.Intn(max(total-1, 1)))
		}
	}
	sort.Ints(cuts)
	var out []int
	for _, c := range cuts {
		if c > 0 && c < total && (len(out) == 0 || c > out[len(out)-1]) {
			out = append(out, c)
		}
	}
	if len(out) > 70000 {
		out = out[:70000]
	}
	return out
}

func hashInts(v []int) uint64 {
	h := fnv.New64a()
	var b [8]byte
	for _, x := range v {
		binary.LittleEndian.PutUint64(b[:], uint64(x))
		h.Write(b[:])
	}
	return h.Sum64()
}

func comparePackets(sc scenario, what string, got, want [][]byte) string {
	for i := 0; i < len(got) && i < len(want); i++ {
		if !bytes.Equal(got[i], want[i]) {
			return fmt.Sprintf("%s: packet %d differs: got %d bytes %x…, sent %d bytes %x…", what, i, len(got[i]), got[i][:min(len(got[i]), 16)], len(want[i]), want[i][:min(len(want[i]), 16)])
		}
	}
	if len(got) != len(want) {
		return fmt.Sprintf("%s: %d packets delivered, %d sent", what, len(got), len(want))
	}
	return ""
}

func sameMultiset(a, b [][]byte) bool {
	if len(a) != len(b) {
		return false
	}
	m := map[string]int{}
	for _, x := range a {
		m[string(x)]++
	}
	for _, x := range b {
		m[string(x)]--
		if m[string(x)] < 0 {
			return false
		}
	}
	return true
}

type server struct {
	ts    *transport.TarsServer
	proto *srvProto
	addr  string
}

func startServer(pool int) *server {
	p := &srvProto{}
	p.cur.Store(&rec{})
	conf := netlab.DefaultServerConf("tcp")
	conf.MaxInvoke = int32(pool)
	ts, err := netlab.StartServer(p, conf)
	if err != nil {
		panic(err)
	}
	return &server{ts: ts, proto: p, addr: conf.Address}
}

func witness(sc scenario, extra map[string]interface{}) map[string]interface{} {
	m := map[string]interface{}{"scenario": sc}
	for k, v := range extra {
		m[k] = v
	}
	return m
}

// serverScenario drives one scenario against a real TarsServer.
func serverScenario(srv *server, sc scenario, r *rand.Rand) {
	rc := &rec{}
	srv.proto.cur.Store(rc)
	pkts := buildPackets(r, sc.Sizes)
	good := pkts
	var stream []byte
	if sc.Illegal >= 0 {
		good = pkts[:sc.IllegalJ]
	}
	for _, p := range good {
		stream = append(stream, p...)
	}
	if sc.Illegal >= 0 {
		var h [4]byte
		binary.BigEndian.PutUint32(h[:], uint32(sc.Illegal))
		stream = append(stream, h[:]...)
		if sc.IllegalBody {
			stream = append(stream, bytes.Repeat([]byte{'X'}, int(sc.Illegal)-4)...)
		} else {
			stream = append(stream, []byte("garbage after the illegal prefix")...)
		}
	}
	conn, err := net.DialTimeout("tcp", srv.addr, 3*time.Second)
	if err != nil {
		run.Inconclusive("dial failed: " + err.Error())
		return
	}
	defer conn.Close()
	var byst net.Conn
	if sc.Illegal >= 0 {
		byst, err = net.DialTimeout("tcp", srv.addr, 3*time.Second)
		if err != nil {
			run.Inconclusive("bystander dial failed")
			return
		}
		defer byst.Close()
	}
	cuts := cutsFor(r, sc.CutKind, good, len(stream))
	werr := make(chan error, 1)
	go func() { werr <- netlab.WriteChunks(conn, stream, cuts, sc.Pace) }()
	fr := &netlab.FrameReader{Conn: conn}
	acks := 0
	for acks < len(good) {
		f, err := fr.Next(30 * time.Second)
		if err != nil {
			framed, handed, _, _, _ := rc.snapshot()
			run.Violation("packets-not-delivered", sc.Side+":"+cutClass(sc), fmt.Sprintf("%d of %d acknowledgements received (%v); framing layer produced %d packets, handler saw %d; scenario %s", acks, len(good), err, len(framed), len(handed), sc),
				witness(sc, map[string]interface{}{"acks": acks, "framed": len(framed), "handed": len(handed), "cuts": clipInts(cuts)}))
			return
		}
		if len(f) >= 7 && string(f[4:7]) == "ACK" {
			acks++
		}
	}
	<-werr
	framed, handed, lens, _, _ := rc.snapshot()
	if d := comparePackets(sc, "framing layer output", framed, good); d != "" {
		run.Violation("framing-mismatch", sc.Side+":"+cutClass(sc), d+"; scenario "+sc.String(), witness(sc, map[string]interface{}{"cuts": clipInts(cuts), "buffer_lengths_seen": clipInts(lens)}))
		return
	}
	if !sameMultiset(handed, good) {
		run.Violation("handler-copy-mismatch", sc.Side+":"+cutClass(sc), fmt.Sprintf("packets handed to Invoke (%d) are not a permutation of the packets sent (%d); scenario %s", len(handed), len(good), sc), witness(sc, nil))
		return
	}
	if sc.Illegal >= 0 {
		// the connection must be closed by the server, the bystander must keep working
		_, closed := fr.WaitEOF(6 * time.Second)
		if !closed {
			run.Violation("illegal-length-not-closed", fmt.Sprintf("%s:prefix=%s", sc.Side, prefixClass(sc)), fmt.Sprintf("length prefix %d (max %d) did not close the connection within 6 s; scenario %s", sc.Illegal, sc.MaxLen, sc), witness(sc, nil))
			return
		}
		bp := netlab.Frame(append(append([]byte(nil), bystMark...), []byte(fmt.Sprintf("-%d", sc.ID))...))
		if _, err := byst.Write(bp); err != nil {
			run.Violation("other-connection-affected", sc.Side, "bystander connection cannot be written after another connection's protocol error: "+err.Error(), witness(sc, nil))
			return
		}
		bfr := &netlab.FrameReader{Conn: byst}
		if _, err := bfr.Next(5 * time.Second); err != nil {
			run.Violation("other-connection-affected", sc.Side, "bystander connection got no answer after another connection's protocol error: "+err.Error(), witness(sc, nil))
			return
		}
		framed2, _, _, _, _ := rc.snapshot()
		if len(framed2) != len(good) {
			run.Violation("framing-mismatch", sc.Side+":after-illegal", fmt.Sprintf("bytes after the illegal prefix were framed as packets (%d packets, %d sent)", len(framed2), len(good)), witness(sc, nil))
			return
		}
	}
	run.Eval(1)
	run.Add("packets_observed", int64(len(good)))
	run.Distinct(fmt.Sprintf("%s|%d|%x|%x", sc.Side, sc.MaxLen, hashInts(sc.Sizes), hashInts(lens)))
	distinctPartitions.Store(hashInts(lens), true)
}

var distinctPartitions sync.Map

func cutClass(sc scenario) string { return sc.CutKind }
func prefixClass(sc scenario) string {
	switch {
	case sc.Illegal < 4:
		return "below-header"
	case sc.Illegal == int64(sc.MaxLen)+1:
		return "max+1"
	}
	return "above-max"
}

func clipInts(v []int) []int {
	if len(v) > 64 {
		return v[:64]
	}
	return v
}

// clientScenario drives one scenario against a real TarsClient; the scripted peer is the server.
func clientScenario(sc scenario, r *rand.Rand) {
	l := netlab.Listen()
	defer l.Close()
	p := &cliProto{}
	rc := &rec{}
	p.cur.Store(rc)
	conf := &transport.TarsClientConf{Proto: "tcp", QueueLen: 100, IdleTimeout: 600 * time.Second, ReadTimeout: 100 * time.Millisecond, WriteTimeout: 3 * time.Second, DialTimeout: 3 * time.Second}
	tc := transport.NewTarsClient(l.Addr, p, conf)
	defer tc.Close()
	if err := tc.Send(netlab.Frame([]byte("hello"))); err != nil {
		run.Inconclusive("client Send failed: " + err.Error())
		return
	}
	conn, err := l.Accept(5 * time.Second)
	if err != nil {
		run.Inconclusive("scripted server: no connection: " + err.Error())
		return
	}
	sfr := &netlab.FrameReader{Conn: conn}
	if _, err := sfr.Next(5 * time.Second); err != nil {
		run.Inconclusive("scripted server: no request: " + err.Error())
		return
	}
	pkts := buildPackets(r, sc.Sizes)
	good := pkts
	if sc.Illegal >= 0 || sc.Illegal == -2 {
		good = pkts[:sc.IllegalJ]
	}
	var stream []byte
	for _, pk := range good {
		stream = append(stream, pk...)
	}
	switch {
	case sc.Illegal >= 0:
		var h [4]byte
		binary.BigEndian.PutUint32(h[:], uint32(sc.Illegal))
		stream = append(stream, h[:]...)
		if sc.IllegalBody {
			stream = append(stream, bytes.Repeat([]byte{'X'}, int(sc.Illegal)-4)...)
		} else {
			stream = append(stream, []byte("garbage")...)
		}
	case sc.Illegal == -2: // a packet cut short, then the server closes
		part := pkts[sc.IllegalJ]
		stream = append(stream, part[:len(part)/2+2]...)
	}
	cuts := cutsFor(r, sc.CutKind, good, len(stream))
	if err := netlab.WriteChunks(conn, stream, cuts, sc.Pace); err != nil {
		run.Inconclusive("scripted server write failed: " + err.Error())
		return
	}
	if sc.Illegal == -2 {
		conn.Close()
	}
	ok := waitFor(func() bool { _, h, _, _, _ := rc.snapshot(); return len(h) >= len(good) }, 30*time.Second)
	framed, handed, lens, _, _ := rc.snapshot()
	if !ok {
		run.Violation("packets-not-delivered", sc.Side+":"+cutClass(sc), fmt.Sprintf("client protocol layer received %d of %d packets (framing produced %d); scenario %s", len(handed), len(good), len(framed), sc), witness(sc, map[string]interface{}{"cuts": clipInts(cuts)}))
		return
	}
	time.Sleep(5 * time.Millisecond)
	framed, handed, lens, _, _ = rc.snapshot()
	if d := comparePackets(sc, "framing layer output", framed, good); d != "" {
		run.Violation("framing-mismatch", sc.Side+":"+cutClass(sc), d+"; scenario "+sc.String(), witness(sc, map[string]interface{}{"cuts": clipInts(cuts), "buffer_lengths_seen": clipInts(lens)}))
		return
	}
	if !sameMultiset(handed, good) {
		run.Violation("handler-copy-mismatch", sc.Side+":"+cutClass(sc), fmt.Sprintf("packets handed to Recv (%d) are not a permutation of the packets sent (%d)", len(handed), len(good)), witness(sc, nil))
		return
	}
	if sc.Illegal >= 0 || sc.Illegal == -2 {
		if sc.Illegal >= 0 {
			// the client must close this connection
			_, closed := sfr.WaitEOF(6 * time.Second)
			if !closed {
				run.Violation("illegal-length-not-closed", fmt.Sprintf("%s:prefix=%s", sc.Side, prefixClass(sc)), fmt.Sprintf("client did not close the connection after length prefix %d (max %d)", sc.Illegal, sc.MaxLen), witness(sc, nil))
				return
			}
		}
		// a later Send reconnects, and the new connection is framed from scratch
		rc2 := &rec{}
		var conn2 net.Conn
		okc := waitFor(func() bool {
			p.cur.Store(rc2)
			if err := tc.Send(netlab.Frame([]byte("again"))); err != nil {
				return false
			}
			c2, err := l.Accept(300 * time.Millisecond)
			if err != nil {
				return false
			}
			conn2 = c2
			return true
		}, 8*time.Second)
		if !okc {
			run.Violation("no-reconnect-after-protocol-error", sc.Side, "client did not open a new connection on the Send following a closed connection; scenario "+sc.String(), witness(sc, nil))
			return
		}
		fresh := buildPackets(r, []int{40, 9, min(300, sc.MaxLen)})
		var s2 []byte
		for _, pk := range fresh {
			s2 = append(s2, pk...)
		}
		_ = netlab.WriteChunks(conn2, s2, []int{17, 41}, netlab.PaceSleep1ms)
		waitFor(func() bool { f, _, _, _, _ := rc2.snapshot(); return len(f) >= len(fresh) }, 5*time.Second)
		f2, _, _, _, _ := rc2.snapshot()
		if d := comparePackets(sc, "framing on the new connection", f2, fresh); d != "" {
			run.Violation("framing-mismatch", sc.Side+":after-reconnect", d+" (bytes of the previous connection leaked into the new one?); scenario "+sc.String(), witness(sc, nil))
			return
		}
	}
	run.Eval(1)
	run.Add("packets_observed", int64(len(good)))
	run.Distinct(fmt.Sprintf("%s|%d|%x|%x", sc.Side, sc.MaxLen, hashInts(sc.Sizes), hashInts(lens)))
	distinctPartitions.Store(hashInts(lens), true)
}

func waitFor(cond func() bool, d time.Duration) bool {
	dl := time.Now().Add(d)
	for !cond() {
		if time.Now().After(dl) {
			return false
		}
		time.Sleep(300 * time.Microsecond)
	}
	return true
}

var cutKinds = []string{"one-write", "single-bytes", "inside-prefix", "boundaries+-1", "per-packet", "coalesce-3", "packet+prefix-part", "random", "random"}

func sizesFor(r *rand.Rand, maxLen int, n int, withMax bool) []int {
	cands := []int{4, 5, 6, 7, 8, 12, 60, 63, 64, 65, 100, 1000, 4095, 4096, 4097, 8191, 8192, 8193}
	var ok []int
	for _, c := range cands {
		if c <= maxLen {
			ok = append(ok, c)
		}
	}
	out := make([]int, n)
	for i := range out {
		switch r.Intn(5) {
		case 0:
			out[i] = 4 + r.Intn(min(maxLen-3, 256*1024))
		default:
			out[i] = ok[r.Intn(len(ok))]
		}
	}
	if withMax {
		out[r.Intn(n)] = maxLen
		if n > 1 {
			out[r.Intn(n)] = maxLen - 1
		}
	}
	return out
}

// bail: once a violation has been recorded, the regular scenario loops go on for at most another
// 20 s (a tree that loses packets makes every further scenario wait for its own time-outs; the
// verdict is decided, the remaining scenarios would only repeat it)
var firstViolationAt atomic.Int64

func bail() bool {
	if run.NumViolations() == 0 {
		return false
	}
	now := time.Now().UnixNano()
	firstViolationAt.CompareAndSwap(0, now)
	return now-firstViolationAt.Load() > int64(20*time.Second)
}

func main() {
	appchild.MaybeChild()
	run = vlib.Start("C07")
	rogger.SetLevel(rogger.OFF)
	run.SetRule("scenarios = (side server/client, max-length setting {64,4096,1MiB,10MiB}, pool 0/1, packet sequence of 1..200 packets with sizes from {4,5,6,...,4095..4097,8191..8193,random<=256KiB,max-1,max}, partition kind {one write, single bytes, inside the 4-byte prefix, packet boundaries+-1, per packet, 3 coalesced, packet+part of next prefix, random}, pacing {none, yield, 1ms}) plus illegal prefixes {0,1,3,max+1,2^31,2^32-1} after j good packets with a bystander connection, and on the client side a packet cut short followed by a reconnect; several 3 MiB responses of parallel handlers on one connection. A case is one scenario; distinct = distinct (side, max, size sequence, observed buffer-length sequence).")
	run.Assume("kernel coalescing: the receiver's read boundaries are observed (buffer lengths shown to ParsePackage), not assumed equal to the writer's cuts")
	maxLens := []int{64, 4096, 1 << 20, 10485760}
	nPer := run.Pick(40, 1000)
	for _, ml := range maxLens {
		protocol.SetMaxPackageLength(ml)
		// ---- regular scenarios, server side: sequential per server (its recorder is per server); one
		// server per pool setting in quick, four replicas of each in thorough, all in parallel ----
		replicas := run.Pick(1, 4)
		var wg sync.WaitGroup
		for sj := 0; sj < 2*replicas; sj++ {
			si, rep := sj%2, sj/2
			srv := startServer(si)
			wg.Add(1)
			go func(si, rep int, srv *server) {
				defer wg.Done()
				rr := rand.New(rand.NewSource(run.Seed*7919 + int64(ml) + int64(si) + int64(rep)*1000003))
				for k := rep; k < nPer && !bail(); k += replicas {
					n := []int{1, 2, 3, 5, 10, 40, 200}[k%7]
					kind := cutKinds[k%len(cutKinds)]
					withMax := k%10 == 3
					if ml >= 1<<20 && withMax {
						n = 2
					}
					if kind == "single-bytes" && n > 10 {
						n = 10
					}
					sizes := sizesFor(rr, ml, n, withMax)
					if kind == "single-bytes" {
						for i := range sizes {
							if sizes[i] > 6000 {
								sizes[i] = 4 + sizes[i]%6000
							}
						}
					}
					sc := scenario{ID: si*100000 + k, Side: "server", MaxLen: ml, Sizes: sizes, CutKind: kind, Pace: netlab.Pace(k % 3), Illegal: -1, Pool: si}
					serverScenario(srv, sc, rr)
				}
			}(si, rep, srv)
		}
		// ---- client side ----
		for rep := 0; rep < replicas; rep++ {
			wg.Add(1)
			go func(rep int) {
				defer wg.Done()
				rr := rand.New(rand.NewSource(run.Seed*104729 + int64(ml) + int64(rep)*1000003))
				for k := rep; k < nPer && !bail(); k += replicas {
					n := []int{1, 2, 3, 5, 10, 40, 120}[k%7]
					kind := cutKinds[(k+3)%len(cutKinds)]
					withMax := k%10 == 5
					if ml >= 1<<20 && withMax {
						n = 2
					}
					if kind == "single-bytes" && n > 10 {
						n = 10
					}
					sizes := sizesFor(rr, ml, n, withMax)
					if kind == "single-bytes" {
						for i := range sizes {
							if sizes[i] > 6000 {
								sizes[i] = 4 + sizes[i]%6000
							}
						}
					}
					clientScenario(scenario{ID: 500000 + k, Side: "client", MaxLen: ml, Sizes: sizes, CutKind: kind, Pace: netlab.Pace((k + 1) % 3), Illegal: -1}, rr)
				}
			}(rep)
		}
		wg.Wait()
		if ml == 10485760 {
			for rep := 0; rep < run.Pick(2, 12); rep++ {
				retainedPacketScenario([]int{0, 8}[rep%2])
			}
			for rep := 0; rep < run.Pick(3, 20); rep++ {
				bigResponsesScenario(startServer(0), 4+rep%5)
			}
		}
		// ---- illegal prefixes (each costs >= 0.5 s of the server's own close polling): in parallel ----
		// the last two: a COMPLETE packet one byte longer than the maximum, written in one piece
		// (alone, and coalesced behind good packets), so that it may well arrive in a single read
		illegal := []int64{0, 1, 3, int64(ml) + 1, 1 << 31, 1<<32 - 1, int64(ml) + 1, int64(ml) + 1}
		var wg2 sync.WaitGroup
		for i, pv := range illegal {
			if i >= 6 && ml+1+20*12 > 4096 {
				// only where the whole stream fits one read of the receive loop: a peer that closes
				// with unread bytes answers with a reset, which may take the acknowledgements with it
				continue
			}
			for _, side := range []string{"server", "client"} {
				wg2.Add(1)
				go func(i int, pv int64, side string) {
					defer wg2.Done()
					rr := rand.New(rand.NewSource(run.Seed*31 + int64(ml) + int64(i)))
					j := []int{0, 1, 5, 20}[i%4]
					sizes := sizesFor(rr, min(ml, 8192), j+1, false)
					sc := scenario{ID: 900000 + i, Side: side, MaxLen: ml, Sizes: sizes, CutKind: cutKinds[i%len(cutKinds)], Pace: netlab.Pace(i % 3), Illegal: pv, IllegalJ: j}
					if i >= 6 {
						sc.IllegalBody, sc.CutKind, sc.Pace = true, "one-write", netlab.Pace(0)
						if i == 7 {
							// small good packets, so that they and the over-long one fit one read
							for k := range sc.Sizes {
								sc.Sizes[k] = 4 + k%9
							}
						}
					}
					if side == "server" {
						srv := startServer(i % 2)
						sc.Pool = i % 2
						serverScenario(srv, sc, rr)
					} else {
						clientScenario(sc, rr)
					}
				}(i, pv, side)
			}
		}
		// client: packet cut short, server closes, reconnect
		for i := 0; i < 3; i++ {
			wg2.Add(1)
			go func(i int) {
				defer wg2.Done()
				rr := rand.New(rand.NewSource(run.Seed*17 + int64(ml) + int64(i)))
				j := []int{0, 2, 7}[i]
				sizes := sizesFor(rr, min(ml, 4096), j+1, false)
				sizes[j] = max(sizes[j], 12)
				if sizes[j] > ml {
					sizes[j] = ml
				}
				clientScenario(scenario{ID: 950000 + i, Side: "client", MaxLen: ml, Sizes: sizes, CutKind: "random", Pace: netlab.PaceYield, Illegal: -2, IllegalJ: j}, rr)
			}(i)
		}
		wg2.Wait()
		if ml == 4096 {
			run.Sample(map[string]interface{}{"scenario": scenario{Side: "server", MaxLen: ml, Sizes: []int{4, 4097 - 1, 9}, CutKind: "inside-prefix", Illegal: -1}.String()})
		}
	}
	protocol.SetMaxPackageLength(10485760)
	tlsCloseScenarios()
	historyScenarios()
	for _, lim := range []int{64, 4096} {
		appLimitScenario(lim)
	}
	np := 0
	distinctPartitions.Range(func(_, _ interface{}) bool { np++; return true })
	run.Set("distinct_observed_buffer_length_sequences", np)
	run.Sample(map[string]interface{}{"scenario": "server max=64: 5 good packets, then length prefix 65 (max+1) + garbage; bystander connection must still be answered; peer sees EOF"})
	_ = io.EOF
	run.Finish()
}
