package main

import (
	"crypto/tls"
	"fmt"
	"net"
	"sync"
	"time"

	"github.com/TarsCloud/TarsGo/tars/transport"

	"verif/netlab"
)

// TLS connections (the ssl transport) are connections too: the packets a peer wrote before it
// closed the connection cleanly all reach the protocol layer.  With TLS 1.2 the peer's
// close_notify is a record of its own; crypto/tls hands the application data read together with
// it back as (n > 0, io.EOF).  The scenarios make "data and close_notify in one read" certain: the
// peer's records are collected after the handshake and go out in one write, followed by the close.
// TLS 1.3 (the default between two Go peers) is run as well.

// holdConn passes writes through until hold is set; from then on it collects them and sends them
// in one piece when the connection is closed.
type holdConn struct {
	net.Conn
	mu   sync.Mutex
	hold     bool
	buf      []byte
	flushErr error
}

func (h *holdConn) Write(b []byte) (int, error) {
	h.mu.Lock()
	defer h.mu.Unlock()
	if h.hold {
		h.buf = append(h.buf, b...)
		return len(b), nil
	}
	return h.Conn.Write(b)
}
func (h *holdConn) Close() error {
	h.mu.Lock()
	if len(h.buf) > 0 {
		// tls.Conn.Close leaves a write deadline in the past behind its close_notify
		_ = h.Conn.SetWriteDeadline(time.Now().Add(5 * time.Second))
		if _, err := h.Conn.Write(h.buf); err != nil {
			h.flushErr = err
		}
		h.buf = nil
	}
	h.mu.Unlock()
	return h.Conn.Close()
}
func (h *holdConn) setHold() { h.mu.Lock(); h.hold = true; h.mu.Unlock() }

func tlsCloseScenarios() {
	cert, err := netlab.SelfSignedTLS()
	if err != nil {
		run.Inconclusive("tls close scenarios: " + err.Error())
		return
	}
	for _, ver := range []uint16{tls.VersionTLS12, tls.VersionTLS13} {
		vname := map[uint16]string{tls.VersionTLS12: "tls1.2", tls.VersionTLS13: "tls1.3"}[ver]
		for _, k := range []int{1, 5, 20} {
			// ---- server side ----
			for pool := 0; pool <= 1; pool++ {
				p := &srvProto{}
				rc := &rec{}
				p.cur.Store(rc)
				conf := netlab.DefaultServerConf("tcp")
				conf.MaxInvoke = int32(pool)
				conf.TlsConfig = cert.Clone()
				if _, err := netlab.StartServer(p, conf); err != nil {
					run.Inconclusive("tls close scenarios: cannot start the server: " + err.Error())
					return
				}
				raw, err := net.DialTimeout("tcp", conf.Address, 3*time.Second)
				if err != nil {
					run.Inconclusive("tls close scenarios: dial: " + err.Error())
					continue
				}
				hc := &holdConn{Conn: raw}
				tc := tls.Client(hc, &tls.Config{InsecureSkipVerify: true, MinVersion: ver, MaxVersion: ver})
				_ = tc.SetDeadline(time.Now().Add(5 * time.Second))
				if err := tc.Handshake(); err != nil {
					run.Inconclusive("tls close scenarios: handshake: " + err.Error())
					raw.Close()
					continue
				}
				hc.setHold()
				var sent [][]byte
				var stream []byte
				for i := 0; i < k; i++ {
					pk := netlab.Frame([]byte(fmt.Sprintf("PKT:%08d tls close %s", i, vname)))
					sent = append(sent, pk)
					stream = append(stream, pk...)
				}
				_, _ = tc.Write(stream)
				_ = tc.Close() // close_notify, then everything in one write, then the TCP close
				if hc.flushErr != nil {
					run.Inconclusive("tls close scenarios: the scripted peer could not write its records: " + hc.flushErr.Error())
					continue
				}
				ok := waitFor(func() bool { f, _, _, _, _ := rc.snapshot(); return len(f) >= k }, 5*time.Second)
				framed, _, lens, _, _ := rc.snapshot()
				run.Eval(1)
				sc := scenario{Side: "server", Pool: pool, Sizes: []int{len(sent[0])}, CutKind: vname + "-data-and-clean-close-in-one-write"}
				if !ok {
					run.Violation("packets-not-delivered", "server:"+vname+"-clean-close", fmt.Sprintf("%d of %d packets that a %s peer wrote before closing the connection cleanly reached the protocol layer (pool %d)", len(framed), k, vname, pool),
						witness(sc, map[string]interface{}{"packets_written": k, "framed": len(framed), "buffer_lengths_seen": clipInts(lens)}))
				} else if d := comparePackets(sc, "framing layer output", framed, sent); d != "" {
					run.Violation("framing-mismatch", "server:"+vname+"-clean-close", d, witness(sc, nil))
				} else {
					run.Distinct(fmt.Sprintf("tlsclose|server|%s|%d|%d", vname, k, pool))
				}
			}
			// ---- client side ----
			func() {
				ln, err := net.Listen("tcp", "127.0.0.1:0")
				if err != nil {
					run.Inconclusive("tls close scenarios: listen: " + err.Error())
					return
				}
				defer ln.Close()
				p := &cliProto{}
				rc := &rec{}
				p.cur.Store(rc)
				conf := &transport.TarsClientConf{Proto: "ssl", QueueLen: 100, IdleTimeout: 600 * time.Second, ReadTimeout: 100 * time.Millisecond, WriteTimeout: 3 * time.Second, DialTimeout: 3 * time.Second,
					TlsConfig: &tls.Config{InsecureSkipVerify: true}}
				cl := transport.NewTarsClient(ln.Addr().String(), p, conf)
				defer cl.Close()
				var sent [][]byte
				peerDone := make(chan string, 1)
				go func() {
					raw, err := ln.Accept()
					if err != nil {
						peerDone <- "accept: " + err.Error()
						return
					}
					hc := &holdConn{Conn: raw}
					scfg := cert.Clone()
					scfg.MinVersion, scfg.MaxVersion = ver, ver
					ts := tls.Server(hc, scfg)
					_ = ts.SetDeadline(time.Now().Add(5 * time.Second))
					if err := ts.Handshake(); err != nil {
						peerDone <- "handshake: " + err.Error()
						raw.Close()
						return
					}
					fr := &netlab.FrameReader{Conn: ts}
					if _, err := fr.Next(5 * time.Second); err != nil {
						peerDone <- "the client's first frame did not arrive: " + err.Error()
						raw.Close()
						return
					}
					hc.setHold()
					var stream []byte
					for i := 0; i < k; i++ {
						pk := netlab.Frame([]byte(fmt.Sprintf("PKT:%08d tls close %s to the client", i, vname)))
						sent = append(sent, pk)
						stream = append(stream, pk...)
					}
					_, _ = ts.Write(stream)
					_ = ts.Close()
					if hc.flushErr != nil {
						peerDone <- "could not write its records: " + hc.flushErr.Error()
						return
					}
					peerDone <- ""
				}()
				if err := cl.Send(netlab.Frame([]byte("hello"))); err != nil {
					run.Inconclusive("tls close scenarios: client Send failed: " + err.Error())
					return
				}
				select {
				case msg := <-peerDone:
					if msg != "" {
						run.Inconclusive("tls close scenarios: scripted peer: " + msg)
						return
					}
				case <-time.After(10 * time.Second):
					run.Inconclusive("tls close scenarios: scripted peer did not finish")
					return
				}
				ok := waitFor(func() bool { _, h, _, _, _ := rc.snapshot(); return len(h) >= k }, 5*time.Second)
				framed, handed, lens, _, _ := rc.snapshot()
				run.Eval(1)
				sc := scenario{Side: "client", Sizes: []int{len(sent[0])}, CutKind: vname + "-data-and-clean-close-in-one-write"}
				if !ok {
					run.Violation("packets-not-delivered", "client:"+vname+"-clean-close", fmt.Sprintf("%d of %d packets that a %s peer wrote before closing the connection cleanly reached the protocol layer (framed %d)", len(handed), k, vname, len(framed)),
						witness(sc, map[string]interface{}{"packets_written": k, "framed": len(framed), "handed": len(handed), "buffer_lengths_seen": clipInts(lens)}))
				} else if d := comparePackets(sc, "framing layer output", framed, sent); d != "" {
					run.Violation("framing-mismatch", "client:"+vname+"-clean-close", d, witness(sc, nil))
				} else {
					run.Distinct(fmt.Sprintf("tlsclose|client|%s|%d", vname, k))
				}
			}()
		}
	}
}
