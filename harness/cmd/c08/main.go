// C08 — responses are delivered to the caller of the matching request id.
//
// Monitor: real ServantProxy.TarsInvoke callers (G goroutines sharing one proxy, one or several
// endpoints) against a scripted server that parses every request id with the reference codec and
// answers by script: in order, reversed / randomly permuted within a window, delayed past the
// caller's timeout, duplicated, with ids nobody waits for (random, recently completed, not yet
// issued), id-0 pushes, dropped.  The response body for id X always carries the token of request X,
// so a caller that returns a foreign token has received somebody else's response.  The server
// records every id it reads; ids must be != 0 and distinct among calls that overlap in time.
package main

import (
	"context"
	"fmt"
	"github.com/TarsCloud/TarsGo/tars"
	"github.com/TarsCloud/TarsGo/tars/util/current"
	"math/rand"
	"sort"
	"strings"
	"sync"
	"sync/atomic"
	"time"
	rc "verif/refcodec"

	"github.com/TarsCloud/TarsGo/tars/util/rogger"

	"verif/netlab"
	"verif/rpcw"
	"verif/vlib"
)

var run *vlib.Run

type callRec struct {
	token      string
	start, end int64
	got        string
	errClass   string
	id         int32 // filled from the server ledger
}

type script struct {
	Name      string
	Window    int
	Order     string // "fifo" "reverse" "random"
	Dup       int    // extra copies of each response
	Forge     bool   // extra responses with ids nobody waits for / stale / future
	Push      bool   // id-0 pushes
	DropEvery int    // drop every n-th response
	LateEvery int    // answer every n-th request only after the caller's timeout
	CutEvery  int    // every n-th response: write only its first 5..12 bytes, then close the connection
}

var scripts = []script{
	{Name: "in-order", Window: 1, Order: "fifo"},
	{Name: "reversed-window", Window: 8, Order: "reverse"},
	{Name: "random-window", Window: 16, Order: "random"},
	{Name: "duplicated", Window: 4, Order: "random", Dup: 2},
	{Name: "duplicated-x5", Window: 2, Order: "fifo", Dup: 5},
	{Name: "forged-ids+pushes", Window: 8, Order: "random", Forge: true, Push: true},
	{Name: "late-and-dropped", Window: 4, Order: "random", DropEvery: 13, LateEvery: 7},
	{Name: "everything", Window: 8, Order: "random", Dup: 1, Forge: true, Push: true, DropEvery: 17, LateEvery: 11},
	{Name: "response-cut-then-close", Window: 2, Order: "fifo", CutEvery: 11},
}

type pending struct {
	ev *netlab.ReqEvent
}

// responder implements a script on one scripted server.
type responder struct {
	sc      script
	timeout time.Duration
	mu      sync.Mutex
	queue   map[*netlab.SConn][]*netlab.ReqEvent
	recent  []int32 // ids of calls whose caller has already returned (reported by the callers)
	idOf    map[string]int32
	maxSeen int32
	rng     *rand.Rand
	n       int
	stopped atomic.Bool
	lateWG  sync.WaitGroup
}

func (r *responder) handle(ev *netlab.ReqEvent) {
	if ev.Err != nil {
		return
	}
	r.mu.Lock()
	r.queue[ev.Conn] = append(r.queue[ev.Conn], ev)
	r.idOf[string(ev.Req.Buffer)] = ev.Req.RequestID
	if ev.Req.RequestID > r.maxSeen {
		r.maxSeen = ev.Req.RequestID
	}
	flush := len(r.queue[ev.Conn]) >= r.sc.Window
	r.mu.Unlock()
	if flush {
		r.flush(ev.Conn)
	}
}

// completed is called by a caller after its call returned.
func (r *responder) completed(token string) {
	r.mu.Lock()
	if id, ok := r.idOf[token]; ok {
		r.recent = append(r.recent, id)
		if len(r.recent) > 64 {
			r.recent = r.recent[1:]
		}
	}
	r.mu.Unlock()
}

func (r *responder) flush(c *netlab.SConn) {
	r.mu.Lock()
	batch := r.queue[c]
	r.queue[c] = nil
	switch r.sc.Order {
	case "reverse":
		for i, j := 0, len(batch)-1; i < j; i, j = i+1, j-1 {
			batch[i], batch[j] = batch[j], batch[i]
		}
	case "random":
		r.rng.Shuffle(len(batch), func(i, j int) { batch[i], batch[j] = batch[j], batch[i] })
	}
	type out struct {
		frame []byte
		late  bool
		cut   bool
	}
	var outs []out
	for _, ev := range batch {
		r.n++
		if r.sc.DropEvery > 0 && r.n%r.sc.DropEvery == 0 {
			continue
		}
		resp := netlab.Echo(ev)
		if r.sc.CutEvery > 0 && r.n%r.sc.CutEvery == 0 {
			// the peer dies in the middle of a response: the bytes already delivered belong to the
			// old connection and must not be joined with what arrives on the next one.  Half of the
			// cuts fall right behind the request-id field of a response that is longer than an
			// ordinary echo by exactly the bytes delivered: if those bytes were carried over, the
			// first echo on the next connection would complete it into a well-formed response
			// addressed to this call.
			k := 5 + r.rng.Intn(8)
			if r.n%2 == 0 {
				if nodes, err := rc.ParseFields(resp[4:]); err == nil {
					for _, nd := range nodes {
						if nd.Tag == 3 {
							k = 4 + nd.End
						}
					}
					pad := append(append([]byte(nil), ev.Req.Buffer...), []byte(strings.Repeat("#", k))...)
					resp = (&netlab.Response{Version: ev.Req.Version, PacketType: ev.Req.PacketType, RequestID: ev.Req.RequestID, Buffer: pad}).Encode()
				}
			}
			if k > len(resp)-1 {
				k = len(resp) - 1
			}
			outs = append(outs, out{resp[:k], false, true})
			break
		}
		late := r.sc.LateEvery > 0 && r.n%r.sc.LateEvery == 0
		outs = append(outs, out{resp, late, false})
		for d := 0; d < r.sc.Dup; d++ {
			outs = append(outs, out{resp, false, false})
		}
		if r.sc.Forge {
			// a response for an id nobody waits for: carries a token no caller sent
			var fid int32
			switch r.rng.Intn(3) {
			case 0:
				fid = 1<<30 + r.rng.Int31n(1<<29) // far away from every id in use
			case 1:
				if len(r.recent) > 0 {
					fid = r.recent[r.rng.Intn(len(r.recent))]
				}
			default:
				// not yet issued: beyond anything that can be in flight right now (requests with
				// higher ids than maxSeen may already be on their way)
				fid = r.maxSeen + 100000 + int32(r.rng.Intn(50))
			}
			if fid != 0 {
				outs = append(outs, out{(&netlab.Response{Version: 1, RequestID: fid, Buffer: []byte(fmt.Sprintf("FORGED-for-%d", fid))}).Encode(), false, false})
			}
		}
		if r.sc.Push && r.rng.Intn(4) == 0 {
			outs = append(outs, out{(&netlab.Response{Version: 1, RequestID: 0, Buffer: []byte("PUSHED")}).Encode(), false, false})
		}
	}
	r.mu.Unlock()
	for _, o := range outs {
		if o.late {
			r.lateWG.Add(1)
			go func(f []byte) {
				defer r.lateWG.Done()
				time.Sleep(r.timeout + r.timeout/2)
				if !r.stopped.Load() {
					_ = c.Send(f)
				}
			}(o.frame)
			continue
		}
		if o.cut {
			// the cut response is the last thing this connection carries: written and closed in one
			// step, so that the flusher cannot put another response behind it on the same connection
			// (which would complete the cut one — the peer's doing, not the client's)
			c.SendAndClose(o.frame)
			return
		}
		_ = c.Send(o.frame)
	}
}

// flusher flushes partial windows so that callers are not starved.
func (r *responder) flusher(srvs []*netlab.ScriptServer, stop chan struct{}) {
	t := time.NewTicker(2 * time.Millisecond)
	defer t.Stop()
	for {
		select {
		case <-stop:
			return
		case <-t.C:
			for _, s := range srvs {
				for _, c := range s.Conns() {
					r.mu.Lock()
					n := len(r.queue[c])
					r.mu.Unlock()
					if n > 0 {
						r.flush(c)
					}
				}
			}
		}
	}
}

// batchKeepAlive: the batch's proxy has a push callback registered and a 300 ms idle timeout.
var batchKeepAlive bool
var pushesSeen atomic.Int64

// batchApp, when set, is the application instance the batch's proxies live on (nil: a fresh one).
var batchApp *tars.VerifApp

// twoComms: callers alternate between two communicators that hold proxies for the same object.
var twoComms bool

func runBatch(sc script, callers, perCaller, endpoints int, timeoutMs int, seed int64, wrapStart int32) {
	resp := &responder{sc: sc, timeout: time.Duration(timeoutMs) * time.Millisecond, queue: map[*netlab.SConn][]*netlab.ReqEvent{}, idOf: map[string]int32{}, rng: rand.New(rand.NewSource(seed))}
	var srvs []*netlab.ScriptServer
	var addrs []string
	for i := 0; i < endpoints; i++ {
		s := netlab.NewScriptServer(resp.handle)
		srvs = append(srvs, s)
		addrs = append(addrs, s.Addr)
	}
	stop := make(chan struct{})
	go resp.flusher(srvs, stop)
	bo := rpcw.Opt{InvokeTimeoutMs: timeoutMs, App: batchApp}
	if batchKeepAlive {
		bo.IdleTimeout = 300 * time.Millisecond
	}
	cl := rpcw.NewDirect(addrs, bo)
	if batchKeepAlive {
		// a push client: one-way keep-alive pings every 150 ms; they are requests too — their ids are
		// never 0 either, and what the peer answers to them is not a push
		cl.App.ClientConfig().KeepAliveInterval = 0
		cl.SP.SetPushCallback(func(b []byte) { pushesSeen.Add(1) })
	}
	cls := []*rpcw.Client{cl}
	if twoComms {
		cls = append(cls, cl.Sibling())
	}
	if wrapStart != 0 {
		setMsgID(wrapStart)
	}
	recs := make([][]*callRec, callers)
	var wg sync.WaitGroup
	for g := 0; g < callers; g++ {
		wg.Add(1)
		go func(g int) {
			defer wg.Done()
			for i := 0; i < perCaller; i++ {
				tok := fmt.Sprintf("tok-%d-g%03d-%04d", seed, g, i) // fixed width: every echo frame of a batch has the same length
				rc := &callRec{token: tok, start: netlab.Tick()}
				b, _, err := cls[g%len(cls)].Call(context.Background(), "echo", []byte(tok), false)
				rc.end = netlab.Tick()
				resp.completed(tok)
				rc.errClass = rpcw.ErrClass(err)
				rc.got = string(b)
				recs[g] = append(recs[g], rc)
			}
		}(g)
	}
	wg.Wait()
	if batchKeepAlive {
		time.Sleep(700 * time.Millisecond) // a few keep-alive periods with nothing else going on
	}
	close(stop)
	resp.stopped.Store(true)
	// ---- oracle ----
	byToken := map[string]*callRec{}
	var all []*callRec
	for _, rs := range recs {
		for _, rc := range rs {
			byToken[rc.token] = rc
			all = append(all, rc)
		}
	}
	wit := func(extra map[string]interface{}) map[string]interface{} {
		m := map[string]interface{}{"script": sc, "callers": callers, "calls_per_caller": perCaller, "endpoints": endpoints, "timeout_ms": timeoutMs, "seed": seed, "msg_id_preset": wrapStart, "two_communicators_same_object": twoComms}
		for k, v := range extra {
			m[k] = v
		}
		return m
	}
	nOK, nTimeout, nOther := 0, 0, 0
	for _, rc := range all {
		switch rc.errClass {
		case "ok":
			nOK++
			if rc.got != rc.token {
				run.Violation("foreign-response-delivered", sc.Name, fmt.Sprintf("caller sent %q and received the response carrying %q", rc.token, rc.got), wit(map[string]interface{}{"sent": rc.token, "received": rc.got}))
				stopAll(srvs)
				return
			}
		case "timeout":
			nTimeout++
		default:
			if sc.CutEvery > 0 {
				// the connection was closed under the call: any failure is acceptable, a foreign reply is not
				nOther++
				continue
			}
			run.Violation("unexpected-call-error", sc.Name, fmt.Sprintf("call %q failed with %s (the peer answers or stays silent; only a timeout is an acceptable failure)", rc.token, rc.errClass), wit(nil))
			stopAll(srvs)
			return
		}
	}
	// ids on the wire
	type iv struct {
		start, end int64
		token      string
	}
	byID := map[int32][]iv{}
	seenReq := 0
	for _, s := range srvs {
		for _, ev := range s.Ledger() {
			if ev.Err != nil {
				run.Violation("malformed-request-on-wire", sc.Name, "scripted server could not parse a request: "+ev.Err.Error(), wit(nil))
				continue
			}
			seenReq++
			if ev.Req.RequestID == 0 {
				run.Violation("request-id-zero", sc.Name, fmt.Sprintf("request %q went out with request id 0 (reserved for server push)", string(ev.Req.Buffer)), wit(map[string]interface{}{"token": string(ev.Req.Buffer)}))
				stopAll(srvs)
				return
			}
			if rc := byToken[string(ev.Req.Buffer)]; rc != nil {
				rc.id = ev.Req.RequestID
				byID[ev.Req.RequestID] = append(byID[ev.Req.RequestID], iv{rc.start, rc.end, rc.token})
			}
		}
	}
	for id, ivs := range byID {
		if len(ivs) < 2 {
			continue
		}
		sort.Slice(ivs, func(i, j int) bool { return ivs[i].start < ivs[j].start })
		for i := 1; i < len(ivs); i++ {
			if ivs[i].start < ivs[i-1].end {
				run.Violation("duplicate-id-outstanding", sc.Name, fmt.Sprintf("calls %q and %q were outstanding at the same time with the same request id %d", ivs[i-1].token, ivs[i].token, id), wit(map[string]interface{}{"id": id, "a": ivs[i-1], "b": ivs[i]}))
				stopAll(srvs)
				return
			}
		}
	}
	stopAll(srvs)
	run.Eval(int64(len(all)))
	run.Add("calls_ok", int64(nOK))
	run.Add("calls_timed_out", int64(nTimeout))
	run.Add("calls_failed_on_closed_connection", int64(nOther))
	run.Add("requests_seen_by_server", int64(seenReq))
	run.Distinct(fmt.Sprintf("%s|g%d|e%d|ok%d|to%d|wrap%d|%v", sc.Name, callers, endpoints, nOK/50, nTimeout/10, wrapStart, twoComms))
}

// cutScenario: the peer dies right behind the request-id field of its response to call A (a
// response that would have been longer than an ordinary echo by exactly the bytes delivered);
// 30 ms later, while A is still waiting, call B goes out over a new connection and is answered
// normally.  A must end in an error and B must get its own token: bytes of the dead connection
// joined with B's response would form a well-formed response addressed to A.
func cutScenario() {
	rounds := run.Pick(8, 60)
	for r := 0; r < rounds; r++ {
		var srv *netlab.ScriptServer
		srv = netlab.NewScriptServer(func(ev *netlab.ReqEvent) {
			if ev.Err != nil {
				return
			}
			resp := netlab.Echo(ev)
			if !strings.HasPrefix(string(ev.Req.Buffer), "A-") {
				_ = ev.Conn.Send(resp)
				return
			}
			k := 9
			if nodes, err := rc.ParseFields(resp[4:]); err == nil {
				for _, nd := range nodes {
					if nd.Tag == 3 {
						k = 4 + nd.End
					}
				}
			}
			pad := append(append([]byte(nil), ev.Req.Buffer...), []byte(strings.Repeat("#", k))...)
			long := (&netlab.Response{Version: ev.Req.Version, PacketType: ev.Req.PacketType, RequestID: ev.Req.RequestID, Buffer: pad}).Encode()
			_ = ev.Conn.Send(long[:k])
			ev.Conn.Close()
		})
		cl := rpcw.NewDirect([]string{srv.Addr}, rpcw.Opt{InvokeTimeoutMs: 1500})
		// warm-up so that the connection exists
		tokW := fmt.Sprintf("W-cut%02d-%06d", r, run.Seed)
		if b, _, err := cl.Call(context.Background(), "echo", []byte(tokW), false); err != nil || string(b) != tokW {
			run.Inconclusive(fmt.Sprintf("cut scenario %d: warm-up call failed: %v", r, err))
			srv.Stop()
			continue
		}
		tokA := fmt.Sprintf("A-cut%02d-%06d", r, run.Seed)
		tokB := fmt.Sprintf("B-cut%02d-%06d", r, run.Seed)
		type res struct {
			got string
			err error
		}
		ca, cb := make(chan res, 1), make(chan res, 1)
		go func() {
			b, _, err := cl.Call(context.Background(), "echo", []byte(tokA), false)
			ca <- res{string(b), err}
		}()
		time.Sleep(time.Duration(30+10*(r%4)) * time.Millisecond)
		go func() {
			b, _, err := cl.Call(context.Background(), "echo", []byte(tokB), false)
			cb <- res{string(b), err}
		}()
		ra, rb := <-ca, <-cb
		wit := map[string]interface{}{"round": r, "A": tokA, "B": tokB, "A_result": ra.got, "A_error": fmt.Sprint(ra.err), "B_result": rb.got, "B_error": fmt.Sprint(rb.err)}
		if ra.err == nil && ra.got != tokA {
			run.Violation("foreign-response-delivered", "response-cut-then-close", fmt.Sprintf("caller sent %q, its connection died inside the response, and it received %q (the reply to a call made on the next connection)", tokA, ra.got), wit)
		} else if rb.err == nil && rb.got != tokB {
			run.Violation("foreign-response-delivered", "response-cut-then-close", fmt.Sprintf("caller sent %q on the new connection and received %q", tokB, rb.got), wit)
		} else if ra.err == nil {
			run.Violation("foreign-response-delivered", "response-cut-then-close", fmt.Sprintf("call %q succeeded although its response was never completed", tokA), wit)
		}
		run.Add("cut_scenarios_B_answered", map[bool]int64{true: 1, false: 0}[rb.err == nil && rb.got == tokB])
		run.Eval(2)
		run.Distinct(fmt.Sprintf("cut|A:%s|B:%s", rpcw.ErrClass(ra.err), rpcw.ErrClass(rb.err)))
		srv.Stop()
	}
}

// zeroTimeoutScenario: "its own response or else a timeout error" also when the effective timeout
// is 0 (TarsSetTimeout(0), a per-call timeout of 0): against a peer that never answers, or answers
// under an id nobody waits for, the call returns a timeout error — it does not wait for ever.
func zeroTimeoutScenario() {
	for _, mode := range []string{"silent", "foreign-id"} {
		srv := netlab.NewScriptServer(func(ev *netlab.ReqEvent) {
			if ev.Err == nil && mode == "foreign-id" {
				_ = ev.Conn.Send((&netlab.Response{Version: ev.Req.Version, RequestID: ev.Req.RequestID + 100000, Buffer: []byte("for-nobody")}).Encode())
			}
		})
		for _, how := range []string{"proxy-timeout-0", "per-call-timeout-0"} {
			cl := rpcw.NewDirect([]string{srv.Addr}, rpcw.Opt{InvokeTimeoutMs: 2000})
			ctx := context.Background()
			if how == "proxy-timeout-0" {
				cl.SP.TarsSetTimeout(0)
			} else {
				ctx = current.ContextWithClientCurrent(ctx)
				current.SetClientTimeout(ctx, 0)
			}
			done := make(chan error, 1)
			go func() {
				_, _, err := cl.Call(ctx, "echo", []byte("zero-"+mode+"-"+how), false)
				done <- err
			}()
			run.Eval(1)
			select {
			case err := <-done:
				if err == nil {
					run.Violation("foreign-response-delivered", "timeout-0:"+mode, fmt.Sprintf("a call with an effective timeout of 0 (%s) against a %s peer returned success", how, mode), map[string]interface{}{"how": how, "peer": mode})
				}
			case <-time.After(8 * time.Second):
				run.Violation("neither-response-nor-timeout", "timeout-0:"+mode, fmt.Sprintf("a call with an effective timeout of 0 (%s) against a %s peer had neither returned its response nor a timeout error after 8 s", how, mode), map[string]interface{}{"how": how, "peer": mode})
			}
			run.Distinct("zero-timeout|" + mode + "|" + how)
		}
		srv.Stop()
	}
}

// idDrawStress draws request ids directly (hook VerifGenRequestID = the real genRequestID) from
// several goroutines released together while the counter crosses MaxInt32: callers that draw at
// the same time are concurrently outstanding, so within one round every id must be non-zero and
// distinct.  The end-to-end wrap batches above cross the boundary once per batch; this phase
// crosses it thousands of times with the draws packed into the same few hundred nanoseconds.
func idDrawStress() {
	cl := rpcw.NewDirect([]string{"127.0.0.1:1"}, rpcw.Opt{InvokeTimeoutMs: 100})
	rounds := run.Pick(150000, 2000000)
	const G, D = 8, 6
	var bad atomic.Int64
	ids := make([][]int32, G)
	for g := range ids {
		ids[g] = make([]int32, D)
	}
	distinctShapes := map[string]bool{}
	for r := 0; r < rounds && bad.Load() == 0; r++ {
		k := int32(r % 5)
		setMsgID(2147483647 - k)
		var start, done sync.WaitGroup
		start.Add(1)
		for g := 0; g < G; g++ {
			done.Add(1)
			go func(g int) {
				defer done.Done()
				start.Wait()
				for d := 0; d < D; d++ {
					ids[g][d] = drawID(cl.SP)
				}
			}(g)
		}
		start.Done()
		done.Wait()
		seen := map[int32][2]int{}
		neg := 0
		for g := 0; g < G; g++ {
			for d := 0; d < D; d++ {
				id := ids[g][d]
				if id < 0 {
					neg++
				}
				if id == 0 {
					bad.Add(1)
					run.Violation("id-zero-on-the-wire", "id-draw", fmt.Sprintf("round %d (counter preset to MaxInt32-%d): goroutine %d drew request id 0", r, k, g), map[string]interface{}{"round": r, "preset": 2147483647 - k, "ids": ids})
					break
				}
				if o, dup := seen[id]; dup {
					bad.Add(1)
					run.Violation("duplicate-id-while-outstanding", "id-draw", fmt.Sprintf("round %d (counter preset to MaxInt32-%d): request id %d was handed to goroutine %d and to goroutine %d drawing at the same time", r, k, id, o[0], g), map[string]interface{}{"round": r, "preset": 2147483647 - k, "ids": ids})
					break
				}
				seen[id] = [2]int{g, d}
			}
		}
		distinctShapes[fmt.Sprintf("k%d-neg%d", k, neg)] = true
		run.Eval(1)
	}
	for s := range distinctShapes {
		run.Distinct("id-draw|" + s)
	}
	run.Set("id_draw_rounds", rounds)
	run.Set("id_draw_round_shape", fmt.Sprintf("%d goroutines x %d draws released together, counter preset to MaxInt32-k, k=0..4", G, D))
}

func stopAll(srvs []*netlab.ScriptServer) {
	for _, s := range srvs {
		s.Stop()
	}
}

func main() {
	run = vlib.Start("C08")
	rogger.SetLevel(rogger.OFF)
	run.SetRule("batches = response script {in order, reversed window, random window, duplicated x2/x5, forged ids (random / recently completed / not yet issued) + id-0 pushes, late (1.5x timeout) and dropped, everything, response cut after 5..12 bytes then connection closed} x callers {2,16,128} sharing one proxy x endpoints {1,3}; plus request-id wrap batches (counter preset to MaxInt32-k, k in 0..64). Every call carries a unique token echoed by the server under the request's id. A case is one call; distinct = distinct (script, callers, endpoints, outcome mix) batches.")
	run.Assume("a dropped or late response may only surface as a timeout error at the caller")
	perCaller := run.Pick(40, 600)
	seed := run.Seed * 1000
	for si, sc := range scripts {
		for _, g := range []int{2, 16, 128} {
			for _, e := range []int{1, 3} {
				if !run.Thorough() && g == 128 && si%2 == 1 {
					continue
				}
				seed++
				pc := perCaller
				if g == 128 {
					pc = perCaller / 4
				}
				to := 400
				if sc.LateEvery == 0 && sc.DropEvery == 0 && sc.CutEvery == 0 {
					to = 3000
				}
				if sc.CutEvery > 0 {
					// every cut costs the outstanding calls one timeout: fewer, smaller batches
					if g == 128 || e == 3 {
						continue
					}
					pc = run.Pick(20, 100)
				}
				runBatch(sc, g, pc, e, to, seed, 0)
				if run.NumViolations() > 3 {
					run.Finish()
				}
			}
		}
	}
	// observing client filters registered (legacy pre/post kind, pass-through: they return nil): an
	// unanswered call must still end in a timeout error, not in a "successful" empty response
	for _, si := range []int{6, 8} {
		fa := tars.VerifNewApp()
		fa.RegisterPreClientFilter(func(ctx context.Context, msg *tars.Message, invoke tars.Invoke, timeout time.Duration) error {
			return nil
		})
		fa.RegisterPostClientFilter(func(ctx context.Context, msg *tars.Message, invoke tars.Invoke, timeout time.Duration) error {
			return nil
		})
		batchApp = fa
		seed++
		runBatch(scripts[si], 4, run.Pick(20, 100), 1, 400, seed, 0)
		batchApp = nil
	}
	// push clients send keep-alive pings: every request on the wire, pings included, has a non-zero id
	batchKeepAlive = true
	for _, si := range []int{0, 3} {
		seed++
		before := pushesSeen.Load()
		runBatch(scripts[si], 2, run.Pick(10, 60), 1, 3000, seed, 0)
		if n := pushesSeen.Load() - before; n > 0 && !scripts[si].Push {
			run.Violation("request-id-zero", "keep-alive", fmt.Sprintf("the push callback of a proxy was invoked %d times although the peer pushed nothing: answers to its own requests came back under id 0", n), map[string]interface{}{"script": scripts[si]})
		}
	}
	batchKeepAlive = false
	// two communicators with proxies for the same object share the adapters: ids must still be distinct
	twoComms = true
	for _, si := range []int{0, 2, 3} {
		for _, g := range []int{2, 16} {
			seed++
			runBatch(scripts[si], g, perCaller, 1, 3000, seed, 0)
		}
	}
	twoComms = false
	// id wrap: the counter passes MaxInt32 while 32 callers are active
	ks := []int32{0, 1, 2, 5, 17, 33, 64}
	if run.Thorough() {
		ks = nil
		for k := int32(0); k <= 64; k++ {
			ks = append(ks, k)
		}
	}
	if !haveMsgIDHook {
		run.Set("id_wrap_batches", "not run: the request-id hook does not compile against this tree")
		ks = nil
	}
	for _, k := range ks {
		seed++
		runBatch(scripts[2], 32, 8, 1, 3000, seed, 2147483647-k)
	}
	cutScenario()
	zeroTimeoutScenario()
	if haveMsgIDHook {
		idDrawStress()
	}
	run.Sample(map[string]interface{}{"script": scripts[5], "events": "caller g3 sends token tok-…-g3-7 under id 4711; server answers ids in random order within a window of 8, interleaved with FORGED-for-<id> and id-0 PUSHED packets; caller must return tok-…-g3-7 or a timeout"})
	run.Sample(map[string]interface{}{"wrap": "msgID preset to 2147483647-5, 32 callers x 8 calls: ids on the wire must skip 0 and stay distinct while outstanding"})
	run.Finish()
}
