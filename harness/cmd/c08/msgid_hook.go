//go:build verifmsgid

package main

import "github.com/TarsCloud/TarsGo/tars"

const haveMsgIDHook = true

func setMsgID(v int32) { tars.VerifSetMsgID(v) }

func drawID(sp *tars.ServantProxy) int32 { return sp.VerifGenRequestID() }
