//go:build !verifmsgid

package main

import "github.com/TarsCloud/TarsGo/tars"

const haveMsgIDHook = false

func setMsgID(v int32) {}

func drawID(sp *tars.ServantProxy) int32 { return 1 }
