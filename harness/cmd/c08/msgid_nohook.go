//go:build !verifmsgid

package main

const haveMsgIDHook = false

func setMsgID(v int32) {}
