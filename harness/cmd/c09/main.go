// C09 — every call terminates by its deadline and leaves nothing behind.
//
// Monitor: real ServantProxy callers against fault-script peers with the fault placed at every
// point of the exchange (refuse, accept-backlog blackhole, accept then silence, read then silence,
// late reply, close before/after reading and mid-response, garbage of four kinds, never reading
// while requests are large and the send queue is short).  Deadlines come from all three sources
// (proxy timeout, per-call client timeout in the context, context deadline).  Oracle: duration on
// one monotonic clock at the call boundary <= deadline + dial bound + slack (an overrun is re-run
// alone three times and only a reproducible one is a violation); after the batch and a settle
// period the in-flight counter, the pending-reply tables and the manager's counter are back to
// their values before the batch; then the peer turns healthy and a control batch must succeed with
// its own tokens (late replies must not disturb it).
package main

import (
	"context"
	"fmt"
	"math/rand"
	"net"
	"runtime"
	"strings"
	"sync"
	"sync/atomic"
	"syscall"
	"time"

	"github.com/TarsCloud/TarsGo/tars/util/current"
	"github.com/TarsCloud/TarsGo/tars/util/rogger"

	"verif/netlab"
	"verif/rpcw"
	"verif/vlib"
)

var run *vlib.Run

const slack = 2 * time.Second

type scenario struct {
	ID         int    `json:"id"`
	Fault      string `json:"fault"`
	Source     string `json:"deadline_source"`
	DeadlineMs int    `json:"deadline_ms"`
	Callers    int    `json:"callers"`
	PerCaller  int    `json:"calls_per_caller"`
	DialMs     int    `json:"dial_timeout_ms"`
	WriteMs    int    `json:"write_timeout_ms"`
	OneWay     bool   `json:"one_way"`
	Proto      string `json:"proto"`
	QueueMax   int    `json:"obj_queue_max"`  // > 0: the proxy's bound on calls in flight (calls beyond it are refused at once)
	KeepAlive  bool   `json:"keep_alive"`     // push callback registered, 400 ms idle timeout: one-way pings every 200 ms
	ReadZero   bool   `json:"read_timeout_0"` // ClientReadTimeout = 0: replies cannot be handed over, calls end at their deadline
}

// peer is a fault-script peer that can be turned healthy.
type peer struct {
	addr    string
	srv     *netlab.ScriptServer
	mode    atomic.Value // string
	fd      int          // blackhole socket
	filler  net.Conn
	healthy atomic.Bool
	dl      time.Duration
	rng     *rand.Rand
	mu      sync.Mutex
	rawL    *netlab.Listener
}

func (p *peer) handler(ev *netlab.ReqEvent) {
	if p.healthy.Load() {
		if ev.Err == nil && ev.Req.PacketType == 0 {
			_ = ev.Conn.Send(netlab.Echo(ev))
		}
		return
	}
	if ev.Err != nil {
		return
	}
	switch p.mode.Load().(string) {
	case "read-then-silence", "accept-then-silence":
	case "late-at-deadline":
		// the reply lands within a few hundred microseconds of the caller's deadline
		p.mu.Lock()
		j := time.Duration(p.rng.Intn(500)-400) * time.Microsecond
		p.mu.Unlock()
		at := ev.Time.Add(p.dl + j)
		go func() {
			time.Sleep(time.Until(at))
			_ = ev.Conn.Send(netlab.Echo(ev))
		}()
	case "late-0.5", "late-0.9", "late-1.1", "late-3":
		f := map[string]float64{"late-0.5": 0.5, "late-0.9": 0.9, "late-1.1": 1.1, "late-3": 3}[p.mode.Load().(string)]
		go func() {
			time.Sleep(time.Duration(float64(p.dl) * f))
			_ = ev.Conn.Send(netlab.Echo(ev))
		}()
	case "close-after-read":
		ev.Conn.Close()
	case "reset-after-read":
		ev.Conn.Reset()
	case "close-mid-response":
		f := netlab.Echo(ev)
		ev.Conn.Conn.Write(f[:len(f)/2])
		ev.Conn.Close()
	case "garbage-random":
		p.mu.Lock()
		b := make([]byte, 64)
		p.rng.Read(b)
		p.mu.Unlock()
		b[0] = 0 // keep the length prefix small enough to be framed or rejected quickly
		b[1] = 0
		ev.Conn.Conn.Write(b)
	case "garbage-illegal-length":
		ev.Conn.Conn.Write([]byte{0xff, 0xff, 0xff, 0xff, 1, 2, 3})
	case "garbage-undecodable-body":
		_ = ev.Conn.Send(netlab.Frame([]byte{0x1a, 0xff, 0xff, 0x0a, 0x0b, 0x7f}))
	case "foreign-id":
		_ = ev.Conn.Send((&netlab.Response{Version: 1, RequestID: ev.Req.RequestID + 1<<20, Buffer: []byte("FOREIGN")}).Encode())
	}
}

func newPeer(fault string, dl time.Duration, seed int64) *peer {
	p := &peer{dl: dl, rng: rand.New(rand.NewSource(seed)), fd: -1}
	p.mode.Store(fault)
	switch fault {
	case "refuse":
		p.addr = netlab.FreeTCPAddr()
	case "blackhole":
		p.addr = netlab.FreeTCPAddr()
		_, port := netlab.HostPort(p.addr)
		var pn int
		fmt.Sscan(port, &pn)
		fd, err := syscall.Socket(syscall.AF_INET, syscall.SOCK_STREAM, 0)
		if err == nil {
			_ = syscall.SetsockoptInt(fd, syscall.SOL_SOCKET, syscall.SO_REUSEADDR, 1)
			sa := &syscall.SockaddrInet4{Port: pn, Addr: [4]byte{127, 0, 0, 1}}
			if err = syscall.Bind(fd, sa); err == nil {
				err = syscall.Listen(fd, 0)
			}
			if err != nil {
				syscall.Close(fd)
				fd = -1
			}
		}
		p.fd = fd
		if fd >= 0 {
			// fill the accept backlog: later SYNs are dropped and dials run into their timeout
			for i := 0; i < 2; i++ {
				c, err := net.DialTimeout("tcp", p.addr, 200*time.Millisecond)
				if err == nil && p.filler == nil {
					p.filler = c
				}
			}
		}
	case "accept-then-silence", "never-read":
		// simpler: a raw listener whose connections are never read
		l := netlab.Listen()
		p.addr = l.Addr
		go func() {
			for {
				c, err := l.L.Accept()
				if err != nil {
					return
				}
				if p.healthy.Load() {
					c.Close()
					continue
				}
				go func(c net.Conn) {
					for !p.healthy.Load() {
						time.Sleep(5 * time.Millisecond)
					}
					c.Close()
				}(c)
			}
		}()
		p.mu.Lock()
		p.rawL = l
		p.mu.Unlock()
	case "garbage-random-on-accept":
		l := netlab.Listen()
		p.addr = l.Addr
		p.rawL = l
		go func() {
			for {
				c, err := l.L.Accept()
				if err != nil {
					return
				}
				c.Write([]byte("this is not a TLS server hello\n"))
			}
		}()
	case "close-before-read":
		p.srv = netlab.NewScriptServer(p.handler)
		p.srv.OnAccept = func(c *netlab.SConn) bool { return p.healthy.Load() }
		p.addr = p.srv.Addr
	default:
		p.srv = netlab.NewScriptServer(p.handler)
		p.addr = p.srv.Addr
	}
	return p
}

func (p *peer) makeHealthy() {
	p.healthy.Store(true)
	if p.fd >= 0 {
		if p.filler != nil {
			p.filler.Close()
		}
		syscall.Close(p.fd)
		p.fd = -1
	}
	if p.rawL != nil {
		p.rawL.Close()
	}
	if p.srv == nil {
		for i := 0; i < 100; i++ {
			s, err := netlab.NewScriptServerAt(p.addr, p.handler)
			if err == nil {
				p.srv = s
				return
			}
			time.Sleep(20 * time.Millisecond)
		}
	} else {
		p.srv.CloseAllConns()
	}
}

func (p *peer) stop() {
	p.healthy.Store(true)
	if p.srv != nil {
		p.srv.Stop()
	}
	if p.fd >= 0 {
		syscall.Close(p.fd)
	}
	if p.filler != nil {
		p.filler.Close()
	}
	if p.rawL != nil {
		p.rawL.Close()
	}
}

type callResult struct {
	dur   time.Duration
	class string
	token string
	got   string
}

func doCall(cl *rpcw.Client, sc scenario, token string, payload []byte) callResult {
	ctx := context.Background()
	var cancel context.CancelFunc
	switch sc.Source {
	case "ctx-client-timeout":
		ctx = current.ContextWithClientCurrent(ctx)
		current.SetClientTimeout(ctx, sc.DeadlineMs)
	case "ctx-deadline":
		ctx, cancel = context.WithTimeout(ctx, time.Duration(sc.DeadlineMs)*time.Millisecond)
		defer cancel()
	}
	t0 := time.Now()
	b, _, err := cl.Call(ctx, "echo", payload, sc.OneWay)
	return callResult{dur: time.Since(t0), class: rpcw.ErrClass(err), token: token, got: string(b)}
}

// doCallBounded is doCall under a watchdog: a call of the control batch that does not come back
// must not take the monitor with it.
func doCallBounded(cl *rpcw.Client, sc scenario, token string, payload []byte) callResult {
	ch := make(chan callResult, 1)
	go func() { ch <- doCall(cl, sc, token, payload) }()
	select {
	case r := <-ch:
		return r
	case <-time.After(bound(sc) + 20*time.Second):
		return callResult{dur: bound(sc) + 20*time.Second, class: "never-returned", token: token}
	}
}

func newClient(sc scenario, addr string) *rpcw.Client {
	o := rpcw.Opt{DialTimeout: time.Duration(sc.DialMs) * time.Millisecond, WriteTimeout: time.Duration(sc.WriteMs) * time.Millisecond, ReadTimeout: 100 * time.Millisecond}
	if sc.Fault == "never-read" {
		o.QueueLen = 1
	}
	o.Proto = sc.Proto
	o.ObjQueueMax = int32(sc.QueueMax)
	if sc.Source == "proxy-timeout" {
		o.InvokeTimeoutMs = sc.DeadlineMs
	} else {
		o.InvokeTimeoutMs = 30000 // must be overridden by the per-call source
	}
	if sc.KeepAlive {
		o.IdleTimeout = 400 * time.Millisecond
	}
	cl := rpcw.NewDirect([]string{addr}, o)
	if sc.KeepAlive {
		cl.App.ClientConfig().KeepAliveInterval = 0
		cl.SP.SetPushCallback(func([]byte) {})
	}
	if sc.ReadZero {
		cl.App.ClientConfig().ClientReadTimeout = 0
	}
	if sc.DeadlineMs == 0 && sc.Source == "proxy-timeout" {
		cl.SP.TarsSetTimeout(0) // an effective timeout of 0: the deadline is now
	}
	return cl
}

func bound(sc scenario) time.Duration {
	return time.Duration(sc.DeadlineMs)*time.Millisecond + time.Duration(sc.DialMs)*time.Millisecond + slack
}

// poisoned is set once a call that never returns has been confirmed: such a defect usually sits
// in process-wide state (a timer wheel, a lock), every further scenario of this process would only
// wait for its own watchdog.
var poisoned atomic.Bool

func runScenario(sc scenario) {
	if poisoned.Load() {
		run.Add("scenarios_skipped_after_confirmed_hang", 1)
		return
	}
	dl := time.Duration(sc.DeadlineMs) * time.Millisecond
	p := newPeer(sc.Fault, dl, int64(sc.ID))
	defer p.stop()
	cl := newClient(sc, p.addr)
	q0, p0, i0 := cl.SP.VerifQueueLen(), cl.SP.VerifPendingReplies(), cl.SP.VerifInvokeNum()
	payload := func(tok string) []byte {
		if sc.Fault == "never-read" {
			b := make([]byte, 1<<20)
			copy(b, tok)
			return b
		}
		return []byte(tok)
	}
	// late replies: every other caller goes through a second proxy for the same object (own
	// communicator, shared adapters and pending-reply table) — a reply that comes after its call
	// gave up must not reach a call of the other proxy either
	pxs := []*rpcw.Client{cl}
	if strings.HasPrefix(sc.Fault, "late") && sc.Callers > 1 && sc.Proto != "ssl" {
		pxs = append(pxs, cl.Sibling())
	}
	results := make([][]callResult, sc.Callers)
	var wg sync.WaitGroup
	for g := 0; g < sc.Callers; g++ {
		wg.Add(1)
		go func(g int) {
			defer wg.Done()
			for i := 0; i < sc.PerCaller; i++ {
				tok := fmt.Sprintf("c09-%d-g%d-%d", sc.ID, g, i)
				results[g] = append(results[g], doCall(pxs[g%len(pxs)], sc, tok, payload(tok)))
			}
		}(g)
	}
	done := make(chan struct{})
	go func() { wg.Wait(); close(done) }()
	wit := func(extra map[string]interface{}) map[string]interface{} {
		m := map[string]interface{}{"scenario": sc, "bound_ms": bound(sc).Milliseconds()}
		for k, v := range extra {
			m[k] = v
		}
		return m
	}
	select {
	case <-done:
	case <-time.After(bound(sc)*time.Duration(sc.PerCaller) + 20*time.Second):
		// a call that never returns: confirm on a fresh, isolated replay
		if replayOverrun(sc, 3) {
			poisoned.Store(true)
			run.Violation("call-never-returns", sc.Fault, fmt.Sprintf("a call did not return within %v (deadline %d ms); reproduced on an isolated replay; scenario %+v", bound(sc)+30*time.Second, sc.DeadlineMs, sc), wit(nil))
		} else {
			run.Inconclusive(fmt.Sprintf("a call did not return in scenario %+v but the isolated replay returned", sc))
		}
		return
	}
	var worst time.Duration
	classes := map[string]int{}
	for _, rs := range results {
		for _, r := range rs {
			classes[r.class]++
			if r.dur > worst {
				worst = r.dur
			}
			if r.class == "ok" && !sc.OneWay && r.got != r.token && sc.Fault != "never-read" {
				run.Violation("foreign-response-delivered", sc.Fault, fmt.Sprintf("call %q returned %q", r.token, r.got), wit(nil))
				return
			}
		}
	}
	if worst > bound(sc) {
		if replayOverrun(sc, 3) {
			run.Violation("deadline-overrun", sc.Fault+":"+callersClass(sc), fmt.Sprintf("a call took %v; deadline %d ms (%s) + dial bound %d ms + slack %v = %v; reproduced 3 of 3 times on isolated replays; scenario %+v", worst, sc.DeadlineMs, sc.Source, sc.DialMs, slack, bound(sc), sc),
				wit(map[string]interface{}{"worst_ms": worst.Milliseconds(), "outcomes": classes}))
			return
		}
		run.Inconclusive(fmt.Sprintf("overrun %v in scenario %+v did not reproduce", worst, sc))
	}
	// ---- nothing left behind ----
	settle := 300 * time.Millisecond
	if sc.Fault[:min(4, len(sc.Fault))] == "late" {
		settle += time.Duration(3.2 * float64(dl))
	}
	time.Sleep(settle)
	ok := waitFor(func() bool {
		return cl.SP.VerifQueueLen() == q0 && cl.SP.VerifPendingReplies() == p0 && cl.SP.VerifInvokeNum() == i0
	}, 3*time.Second)
	if !ok {
		run.Violation("resources-left-behind", sc.Fault+":"+map[bool]string{true: "oneway", false: "twoway"}[sc.OneWay], fmt.Sprintf("after all calls returned: in-flight counter %d (before %d), pending-reply entries %d (before %d), manager counter %d (before %d); scenario %+v",
			cl.SP.VerifQueueLen(), q0, cl.SP.VerifPendingReplies(), p0, cl.SP.VerifInvokeNum(), i0, sc), wit(map[string]interface{}{"outcomes": classes}))
		return
	}
	if sc.ReadZero {
		// replies cannot reach their callers in this configuration: no control batch
		run.Eval(int64(sc.Callers * sc.PerCaller))
		run.Distinct(fmt.Sprintf("readzero|%s|%s", sc.Fault, sc.Source))
		return
	}
	if sc.Proto == "ssl" {
		// no TLS server is scripted: the deadline and the counters are what this scenario decides
		run.Eval(int64(sc.Callers * sc.PerCaller))
		run.Distinct(fmt.Sprintf("ssl|%s|%s|%d|g%d", sc.Fault, sc.Source, sc.DeadlineMs, sc.Callers))
		return
	}
	// ---- control batch on the now healthy peer ----
	p.makeHealthy()
	if sc.DeadlineMs == 0 && sc.Source == "proxy-timeout" {
		cl.SP.TarsSetTimeout(3000) // the control calls need a real deadline
	}
	ctl := scenario{ID: sc.ID, Fault: "healthy", Source: sc.Source, DeadlineMs: 3000, DialMs: sc.DialMs, WriteMs: sc.WriteMs}
	hung := false
	okAll := waitFor(func() bool {
		r := doCallBounded(cl, ctl, "warm", []byte("warm"))
		hung = hung || r.class == "never-returned"
		return r.class == "ok" || hung
	}, 15*time.Second)
	if hung {
		poisoned.Store(true)
		run.Violation("call-never-returns", sc.Fault+":control-batch", fmt.Sprintf("a call on the healed peer did not return within %v (deadline 3000 ms); scenario %+v", bound(ctl)+20*time.Second, sc), wit(nil))
		return
	}
	if !okAll {
		run.Violation("no-recovery-after-fault", sc.Fault, fmt.Sprintf("the peer answers every request again but calls still fail 15 s later (last: %s); scenario %+v", doCallBounded(cl, ctl, "x", []byte("x")).class, sc), wit(nil))
		return
	}
	for i := 0; i < 20; i++ {
		tok := fmt.Sprintf("ctl-%d-%d", sc.ID, i)
		r := doCallBounded(cl, ctl, tok, []byte(tok))
		if r.class == "never-returned" {
			poisoned.Store(true)
		}
		if r.class != "ok" || r.got != tok {
			run.Violation("control-call-disturbed", sc.Fault, fmt.Sprintf("control call %q on the healthy peer returned class=%s payload=%q; scenario %+v", tok, r.class, r.got, sc), wit(nil))
			return
		}
	}
	if cl.SP.VerifQueueLen() != q0 || cl.SP.VerifPendingReplies() != p0 {
		run.Violation("resources-left-behind", "control-batch", "counters differ after the control batch", wit(nil))
		return
	}
	run.Eval(int64(sc.Callers*sc.PerCaller + 20))
	var cls string
	for k, v := range classes {
		cls += fmt.Sprintf("%s=%d,", k, v)
	}
	run.Add("calls_observed", int64(sc.Callers*sc.PerCaller))
	run.Distinct(fmt.Sprintf("%s|%s|%d|g%d|%s", sc.Fault, sc.Source, sc.DeadlineMs, sc.Callers, cls))
	if sc.ID%17 == 3 {
		run.Sample(map[string]interface{}{"scenario": sc, "outcomes": classes, "worst_ms": worst.Milliseconds(), "bound_ms": bound(sc).Milliseconds()})
	}
}

func callersClass(sc scenario) string {
	if sc.Callers > 1 {
		return "concurrent"
	}
	return "single"
}

// replayOverrun re-runs the scenario's fault with the same number of callers on a fresh peer and client,
// n times; true when the bound is exceeded every time.
func replayOverrun(sc scenario, n int) bool {
	for k := 0; k < n; k++ {
		dl := time.Duration(sc.DeadlineMs) * time.Millisecond
		p := newPeer(sc.Fault, dl, int64(sc.ID*100+k))
		cl := newClient(sc, p.addr)
		var worst atomic.Int64
		var wg sync.WaitGroup
		for g := 0; g < sc.Callers; g++ {
			wg.Add(1)
			go func(g int) {
				defer wg.Done()
				tok := fmt.Sprintf("replay-%d-%d", sc.ID, g)
				pl := []byte(tok)
				if sc.Fault == "never-read" {
					pl = make([]byte, 1<<20)
				}
				r := doCall(cl, sc, tok, pl)
				for {
					w := worst.Load()
					if int64(r.dur) <= w || worst.CompareAndSwap(w, int64(r.dur)) {
						break
					}
				}
			}(g)
		}
		done := make(chan struct{})
		go func() { wg.Wait(); close(done) }()
		select {
		case <-done:
		case <-time.After(bound(sc) + 20*time.Second):
			p.stop()
			continue // did not return: counts as exceeding
		}
		p.stop()
		if time.Duration(worst.Load()) <= bound(sc) {
			return false
		}
	}
	return true
}

func waitFor(cond func() bool, d time.Duration) bool {
	dl := time.Now().Add(d)
	for !cond() {
		if time.Now().After(dl) {
			return false
		}
		time.Sleep(2 * time.Millisecond)
	}
	return true
}

func main() {
	run = vlib.Start("C09")
	rogger.SetLevel(rogger.OFF)
	run.SetRule("scenarios = fault {refuse, blackhole, accept-then-silence, read-then-silence, reply after 0.5/0.9/1.1/3 x deadline, close before read / after read / reset / mid-response, garbage (random, illegal length, undecodable body, foreign id), never-read with 1 MiB requests and queue length 1} x deadline source {proxy timeout, per-call client timeout, context deadline} x deadline {100,300,600 ms} x callers {1,8} (thorough: 64), two-way and one-way; each followed by counter comparison and a 20-call control batch on the healed peer. Endpoint-manager histories: an endpoint taken out of rotation comes back slow, 2..3 probe calls overlap and are all answered, then ordinary calls on the proxy and a sibling; timers of the send-queue / reply waits asked for 0..46 idle ticks after the previous expiry of their wheel (probes.go). A case is one call; distinct = distinct (fault, source, deadline, callers, outcome mix).")
	run.Assume("slack 2 s; connection-establishment bound = ClientDialTimeout; an overrun counts only when three isolated replays of the same scenario exceed the bound too")
	faults := []string{"refuse", "blackhole", "accept-then-silence", "read-then-silence", "late-0.5", "late-0.9", "late-1.1", "late-3", "close-before-read", "close-after-read", "reset-after-read", "close-mid-response",
		"garbage-random", "garbage-illegal-length", "garbage-undecodable-body", "foreign-id", "never-read"}
	sources := []string{"proxy-timeout", "ctx-client-timeout", "ctx-deadline"}
	var scs []scenario
	id := 0
	for fi, f := range faults {
		for si, src := range sources {
			for di, d := range []int{100, 300, 600} {
				if !run.Thorough() && (fi+si+di)%3 != 0 {
					continue
				}
				callers := []int{1, 8}
				if run.Thorough() {
					callers = []int{1, 8, 64}
				}
				for _, g := range callers {
					id++
					per := 3
					if g >= 8 {
						per = 2
					}
					scs = append(scs, scenario{ID: id, Fault: f, Source: src, DeadlineMs: d, Callers: g, PerCaller: per, DialMs: 300, WriteMs: []int{500, 200}[id%2], OneWay: id%7 == 0 && f != "never-read"})
				}
			}
		}
	}
	// TLS endpoints: the handshake is part of connection establishment and must be bounded too
	for si, src := range sources {
		for _, f := range []string{"accept-then-silence", "refuse", "read-then-silence"} {
			if f == "read-then-silence" {
				f = "garbage-random-on-accept"
			}
			id++
			scs = append(scs, scenario{ID: id, Fault: f, Source: src, DeadlineMs: []int{100, 300, 600}[si], Callers: []int{1, 4}[id%2], PerCaller: 2, DialMs: 300, WriteMs: 500, Proto: "ssl"})
		}
	}
	// many callers behind one endpoint whose connection establishment hangs: one establishment
	// bound for all of them, not one each
	for si, src := range sources {
		id++
		scs = append(scs, scenario{ID: id, Fault: "blackhole", Source: src, DeadlineMs: []int{100, 300, 600}[si], Callers: 24, PerCaller: 1, DialMs: 300, WriteMs: 500})
		id++
		scs = append(scs, scenario{ID: id, Fault: "accept-then-silence", Source: src, DeadlineMs: []int{100, 300, 600}[(si+1)%3], Callers: 24, PerCaller: 1, DialMs: 300, WriteMs: 500, Proto: "ssl"})
	}
	// the dial bound is the configured dial timeout, not some other timeout that happens to have the same default
	for si, src := range sources {
		id++
		scs = append(scs, scenario{ID: id, Fault: "blackhole", Source: src, DeadlineMs: []int{100, 300, 600}[si], Callers: 1, PerCaller: 2, DialMs: 300, WriteMs: 4000})
	}
	// keep-alive pings (push callback registered) that cannot be sent must not stay counted as in flight
	for si, src := range sources {
		for _, f := range []string{"refuse", "close-before-read"} {
			id++
			scs = append(scs, scenario{ID: id, Fault: f, Source: src, DeadlineMs: []int{300, 600, 100}[si], Callers: 2, PerCaller: 3, DialMs: 300, WriteMs: 500, KeepAlive: true})
		}
	}
	// a boundary configuration: with a read timeout of 0 a reply cannot be handed to its caller; every
	// call must still end at its deadline, the first one and all that follow
	for _, src := range sources {
		id++
		scs = append(scs, scenario{ID: id, Fault: "late-0.5", Source: src, DeadlineMs: 300, Callers: 1, PerCaller: 4, DialMs: 300, WriteMs: 500, ReadZero: true})
	}
	// an effective timeout of 0 (proxy timeout 0, per-call timeout 0, a context already at its deadline):
	// the call ends at once with the timeout error — it does not wait for ever for a reply that may not come
	for _, src := range sources {
		for _, f := range []string{"read-then-silence", "foreign-id"} {
			id++
			scs = append(scs, scenario{ID: id, Fault: f, Source: src, DeadlineMs: 0, Callers: 1, PerCaller: 2, DialMs: 300, WriteMs: 500})
		}
	}
	// a small bound on calls in flight: the calls refused at once must not stay counted
	for si, src := range sources {
		for _, f := range []string{"read-then-silence", "late-3", "refuse"} {
			id++
			scs = append(scs, scenario{ID: id, Fault: f, Source: src, DeadlineMs: []int{100, 300, 600}[si], Callers: 12, PerCaller: 2, DialMs: 300, WriteMs: 500, QueueMax: 3})
		}
	}
	// replies that land right at the caller's deadline, many callers, many calls
	for _, src := range sources {
		id++
		scs = append(scs, scenario{ID: id, Fault: "late-at-deadline", Source: src, DeadlineMs: 20, Callers: 32, PerCaller: run.Pick(40, 400), DialMs: 300, WriteMs: 500})
	}
	sem := make(chan struct{}, 16)
	var wg sync.WaitGroup
	for _, sc := range scs {
		wg.Add(1)
		sem <- struct{}{}
		go func(sc scenario) {
			defer wg.Done()
			defer func() { <-sem }()
			runScenario(sc)
		}(sc)
	}
	// histories of the endpoint manager: overlapping, answered probe calls (probes.go)
	for k, pr := range [][3]int{{2, 600, 100}, {3, 500, 60}, {2, 300, 20}, {2, 900, 400}} {
		if k >= run.Pick(3, 4) {
			break
		}
		wg.Add(1)
		go func(k int, pr [3]int) {
			defer wg.Done()
			overlappingProbesScenario(9000+k, pr[0], pr[1], pr[2])
		}(k, pr)
	}
	for _, d := range []time.Duration{140 * time.Millisecond, 220 * time.Millisecond} {
		wg.Add(1)
		go func(d time.Duration) {
			defer wg.Done()
			timerHistoryScenario(d)
		}(d)
	}
	wg.Wait()
	run.Set("scenarios", len(scs))
	if !poisoned.Load() {
		goroutineScenario()
	}
	run.Finish()
}

// goroutineScenario: calls that have returned hold no goroutine either.  Run alone, after every other
// scenario has finished: a healthy peer, a proxy with a push callback (such proxies keep their
// connections alive on their own) and one without, 400 sequential calls each; the process's goroutine
// count afterwards is what it was after the first few calls.
func goroutineScenario() {
	srv := netlab.NewScriptServer(func(ev *netlab.ReqEvent) {
		if ev.Err == nil {
			_ = ev.Conn.Send(netlab.Echo(ev))
		}
	})
	defer srv.Stop()
	for _, push := range []bool{false, true} {
		cl := rpcw.NewDirect([]string{srv.Addr}, rpcw.Opt{InvokeTimeoutMs: 3000, ReadTimeout: 100 * time.Millisecond})
		if push {
			cl.SP.SetPushCallback(func([]byte) {})
		}
		call := func(i int) bool {
			ctx, cancel := context.WithTimeout(context.Background(), 5*time.Second)
			defer cancel()
			_, _, err := cl.Call(ctx, "echo", []byte(fmt.Sprintf("c09-goroutines-%v-%d", push, i)), false)
			return err == nil
		}
		okAll := true
		for i := 0; i < 10; i++ {
			okAll = call(i) && okAll
		}
		time.Sleep(300 * time.Millisecond)
		g0 := runtime.NumGoroutine()
		const n = 400
		for i := 0; i < n; i++ {
			okAll = call(10+i) && okAll
		}
		if !okAll {
			run.Inconclusive("goroutine scenario: a call to the healthy peer failed")
			continue
		}
		var g1 int
		waitFor(func() bool { g1 = runtime.NumGoroutine(); return g1 <= g0+20 }, 3*time.Second)
		run.Eval(1)
		if g1 > g0+50 {
			run.Violation("resources-left-behind", map[bool]string{true: "goroutines:push-callback-proxy", false: "goroutines"}[push], fmt.Sprintf("%d successful sequential calls on a healthy peer left %d goroutines behind (%d before, %d after, 3 s after the last call returned)", n, g1-g0, g0, g1),
				map[string]interface{}{"calls": n, "goroutines_before": g0, "goroutines_after": g1, "proxy_has_push_callback": push})
		} else {
			run.Distinct(fmt.Sprintf("goroutines|push=%v", push))
		}
	}
}
