package main

import (
	"context"
	"fmt"
	"strconv"
	"sync"
	"sync/atomic"
	"time"

	"github.com/TarsCloud/TarsGo/tars"
	"github.com/TarsCloud/TarsGo/tars/registry"
	"github.com/TarsCloud/TarsGo/tars/util/rtimer"

	"verif/netlab"
	"verif/rpcw"
)

// overlappingProbesScenario: a history of the endpoint manager that ordinary calls never produce.
// An endpoint found through a registry stops answering, is taken out of rotation, and comes back
// slow: the probe call that the status check hands out is still waiting for its reply when the
// retry interval passes again (health clock shifted through the hook) and a second call goes out
// as a probe too; with `probes` >= 3 a third one.  All probes are answered.  From then on the proxy
// is idle and the peer fast: every ordinary call — and a sibling proxy's — must return within its
// deadline like any other call, and nothing stays counted.
type probeReg struct{ ep registry.Endpoint }

func (r *probeReg) Registry(context.Context, *registry.ServantInstance) error   { return nil }
func (r *probeReg) Deregister(context.Context, *registry.ServantInstance) error { return nil }
func (r *probeReg) QueryServant(context.Context, string) ([]registry.Endpoint, []registry.Endpoint, error) {
	return []registry.Endpoint{r.ep}, nil, nil
}
func (r *probeReg) QueryServantBySet(ctx context.Context, id, _ string) ([]registry.Endpoint, []registry.Endpoint, error) {
	return r.QueryServant(ctx, id)
}

func overlappingProbesScenario(id, probes, slowMs, gapMs int) {
	if poisoned.Load() {
		return
	}
	var delay atomic.Int64 // ms; negative: silent
	delay.Store(-1)
	srv := netlab.NewScriptServer(func(ev *netlab.ReqEvent) {
		if ev.Err != nil {
			return
		}
		d := delay.Load()
		if d < 0 {
			return
		}
		go func() {
			time.Sleep(time.Duration(d) * time.Millisecond)
			_ = ev.Conn.Send(netlab.Echo(ev))
		}()
	})
	defer srv.Stop()
	h, p := netlab.HostPort(srv.Addr)
	port, _ := strconv.Atoi(p)
	reg := &probeReg{ep: registry.Endpoint{Host: h, Port: int32(port), Timeout: 60000, Istcp: 1}}
	cl := rpcw.New("", rpcw.Opt{CommOpts: []tars.Option{tars.Registrar(reg)}, InvokeTimeoutMs: 30000, DialTimeout: 500 * time.Millisecond, ReadTimeout: 100 * time.Millisecond})
	locus := "registry-proxy:overlapping-probes"
	desc := map[string]interface{}{"id": id, "probe_calls_overlapping": probes, "peer_answers_after_ms": slowMs, "ms_between_probes": gapMs}
	type res struct {
		err error
		d   time.Duration
	}
	var seq atomic.Int64
	rawCall := func(c *rpcw.Client, ms int) res {
		ctx, cancel := context.WithTimeout(context.Background(), time.Duration(ms)*time.Millisecond)
		defer cancel()
		t0 := time.Now()
		_, _, err := c.Call(ctx, "echo", []byte(fmt.Sprintf("c09-probes-%d-%d", id, seq.Add(1))), false)
		return res{err, time.Since(t0)}
	}
	// every call sits under a watchdog: a call that does not come back must not take the monitor with it
	var never atomic.Bool
	call := func(c *rpcw.Client, ms int) res {
		ch := make(chan res, 1)
		go func() { ch <- rawCall(c, ms) }()
		w := time.Duration(ms)*time.Millisecond + 500*time.Millisecond + slack + 10*time.Second
		select {
		case r := <-ch:
			return r
		case <-time.After(w):
			never.Store(true)
			return res{fmt.Errorf("never returned"), w}
		}
	}
	// hook calls take the manager's lock: never wait for them without a watchdog
	guarded := func(f func()) bool {
		done := make(chan struct{})
		go func() { f(); close(done) }()
		select {
		case <-done:
			return true
		case <-time.After(10 * time.Second):
			return false
		}
	}
	// 1. silent peer: five calls time out, the status check takes the endpoint out of rotation
	for i := 0; i < 5; i++ {
		r := call(cl, 150)
		if never.Load() {
			run.Violation("never-returned", locus, "a call (deadline 150 ms) to a peer that reads and stays silent had not returned 10 s after its bound", desc)
			poisoned.Store(true)
			return
		}
		if r.err == nil {
			run.Inconclusive("overlapping probes: a call to the silent peer succeeded")
			return
		}
	}
	out := false
	if !guarded(func() {
		cl.SP.VerifCheckStatus()
		for _, a := range cl.SP.VerifAdapters() {
			if !a.Status {
				out = true
			}
		}
	}) || !out {
		run.Inconclusive("overlapping probes: the endpoint was not taken out of rotation after five timeouts")
		return
	}
	// 2. the peer is back, slow; probes overlap
	delay.Store(int64(slowMs))
	results := make(chan res, probes)
	var wg sync.WaitGroup
	for k := 0; k < probes; k++ {
		if !guarded(func() {
			cl.SP.VerifShiftHealthClock(31)
			cl.SP.VerifCheckStatus()
		}) {
			run.Inconclusive("overlapping probes: the status check did not return")
			return
		}
		wg.Add(1)
		go func() {
			defer wg.Done()
			results <- call(cl, 3000)
		}()
		time.Sleep(time.Duration(gapMs) * time.Millisecond)
	}
	answered := 0
	for k := 0; k < probes; k++ {
		select {
		case r := <-results:
			if r.err == nil {
				answered++
			}
			if never.Load() {
				desc["probe_calls_returned"] = k
				run.Violation("never-returned", locus, "a probe call (deadline 3 s) to the slow peer had not returned 10 s after its bound", desc)
				poisoned.Store(true)
				return
			}
		case <-time.After(3*time.Second + 500*time.Millisecond + slack + 10*time.Second):
			desc["probe_calls_returned"] = k
			run.Violation("never-returned", locus, fmt.Sprintf("a probe call (deadline 3 s) to the slow peer had not returned %v after its bound", 10*time.Second), desc)
			poisoned.Store(true)
			return
		}
	}
	desc["probe_calls_answered"] = answered
	run.Add("overlapping_probe_calls_answered", int64(answered))
	time.Sleep(200 * time.Millisecond) // the endpoint goes back into rotation in the background
	// 3. idle proxy, fast peer: ordinary calls with a 500 ms deadline, on the proxy and on a sibling
	delay.Store(10)
	b := 500*time.Millisecond + 500*time.Millisecond + slack
	sib := cl.Sibling()
	for i := 0; i < 4; i++ {
		c := cl
		if i%2 == 1 {
			c = sib
		}
		done := make(chan res, 1)
		go func() { done <- call(c, 500) }()
		select {
		case r := <-done:
			desc["call"], desc["returned_after_ms"] = i+1, r.d.Milliseconds()
			if never.Load() {
				run.Violation("never-returned", locus, fmt.Sprintf("ordinary call %d (deadline 500 ms) after %d overlapping, answered probe calls had not returned 10 s after its bound", i+1, probes), desc)
				poisoned.Store(true)
				return
			}
			if r.d > b {
				run.Violation("returned-late", locus, fmt.Sprintf("ordinary call %d after %d overlapping probes returned after %v (deadline 500 ms, bound %v)", i+1, probes, r.d, b), desc)
				return
			}
			if r.err != nil {
				// not a matter of C09 as long as it returned in time; keep what was seen
				run.Add("calls_after_probes_failed_in_time", 1)
			}
		case <-time.After(b + 10*time.Second):
			desc["call"] = i + 1
			run.Violation("never-returned", locus, fmt.Sprintf("ordinary call %d (deadline 500 ms) after %d overlapping, answered probe calls had not returned %v after its bound", i+1, probes, 10*time.Second), desc)
			poisoned.Store(true)
			return
		}
	}
	var q, n int32
	var pend int
	var rotation []string
	if !guarded(func() {
		q, n, pend = cl.SP.VerifQueueLen(), cl.SP.VerifInvokeNum(), cl.SP.VerifPendingReplies()
		rotation = cl.SP.VerifActiveEndpoints()
	}) {
		run.Violation("never-returned", locus, "the endpoint manager's lock is held for ever after overlapping probes were answered (a status check would never return)", desc)
		return
	}
	if q != 0 || n != 0 || pend != 0 {
		desc["queue_len"], desc["invoke_num"], desc["pending_replies"] = q, n, pend
		run.Violation("resources-left-behind", locus, fmt.Sprintf("after every call had returned: queueLen=%d invokeNum=%d pending replies=%d", q, n, pend), desc)
		return
	}
	run.Max("rotation_entries_after_overlapping_probes", int64(len(rotation)))
	run.Eval(1)
	run.Distinct(fmt.Sprintf("probes|%d|%d|%d", probes, slowMs/100, gapMs/50))
}

// timerHistoryScenario: the bound on the wait for room in a connection's send queue and the wait for
// a reply on the receive path are timers of rtimer's wheels (one wheel per duration, created on first
// use, kept for ever).  A call's deadline is only as good as these timers, whatever the wheel's
// history: right after an expiry, after g idle ticks (g = 0..2.2 turns of the wheel), after several
// idle turns.  Every timer asked for must fire; one that has not fired 10 s after its duration is
// lost (the wall clock only separates "fired" from "never").
func timerHistoryScenario(d time.Duration) {
	tick := d / 20
	lost := func(g int, what string) {
		run.Violation("never-returned", "rtimer:timer-lost", fmt.Sprintf("rtimer.After(%v) asked for %s had not fired 10 s after its duration: a caller waiting behind a full send queue on this timer never returns", d, what),
			map[string]interface{}{"duration_ms": d.Milliseconds(), "idle_ticks_before": g, "tick_ms": tick.Milliseconds()})
		poisoned.Store(true)
	}
	// asking for the timer happens under the watchdog too (it takes the timer map's lock)
	ask := func() <-chan struct{} {
		out := make(chan struct{})
		go func() {
			<-rtimer.After(d)
			close(out)
		}()
		return out
	}
	fired := func(c <-chan struct{}) bool {
		select {
		case <-c:
			return true
		case <-time.After(d + 10*time.Second):
			return false
		}
	}
	if poisoned.Load() {
		return
	}
	if !fired(ask()) {
		lost(0, "on a fresh wheel")
		return
	}
	for g := 0; g <= 46; g++ {
		time.Sleep(time.Duration(g) * tick)
		t0 := time.Now()
		// two waiters, the second half a tick later: neighbouring slots
		c1 := ask()
		time.Sleep(tick / 2)
		c2 := ask()
		if !fired(c1) || !fired(c2) {
			lost(g, fmt.Sprintf("%d idle ticks after the previous expiry", g))
			return
		}
		run.Max("timer_fire_latency_ms_max", time.Since(t0).Milliseconds())
		run.Eval(1)
		run.Distinct(fmt.Sprintf("timer|%dms|gap%d", d.Milliseconds(), g))
		run.Add("timers_fired_after_idle_gap", 2)
	}
}
