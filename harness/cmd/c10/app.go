package main

import (
	"fmt"
	"time"

	"verif/appchild"
)

// appHandleTimeoutPhase: "an over-long handler is answered with a timeout error when a handle
// timeout is configured" — configured the way deployed servers are, in the server configuration
// file.  handletimeout=300: a 1 200 ms handler is answered with an error after about 300 ms.
// writetimeout=300 (and no handle timeout): the same handler is answered with success after it finishes.
func appHandleTimeoutPhase() {
	for _, tc := range []struct {
		name          string
		handle, write int
		wantTimeout   bool
	}{{"handletimeout=300", 300, 0, true}, {"writetimeout=300", 0, 300, false}} {
		a, err := appchild.Start(appchild.Config{HandleTimeoutMs: tc.handle, WriteTimeoutMs: tc.write})
		if err != nil {
			if a != nil {
				a.Kill()
			}
			run.Inconclusive("application child: " + err.Error())
			continue
		}
		t0 := time.Now()
		rsp, err := a.Call(a.TCPAddr, "tcp", a.TCPObj, "sleep", 31, []byte("1200"), 6*time.Second)
		el := time.Since(t0)
		st, _ := a.Line("STATE ")
		a.Kill()
		run.Eval(1)
		wit := map[string]interface{}{"server_config": tc.name, "handler_ms": 1200, "elapsed_ms": el.Milliseconds(), "application_state": st}
		if err != nil {
			run.Violation("response-count", "application:"+tc.name, fmt.Sprintf("server configured with %s: a request whose handler takes 1 200 ms got no response within 6 s (%v)", tc.name, err), wit)
			continue
		}
		wit["ret"], wit["desc"] = rsp.Ret, rsp.ResultDesc
		if tc.wantTimeout && (rsp.Ret == 0 || el > 1100*time.Millisecond) {
			run.Violation("handle-timeout-code", "application:"+tc.name, fmt.Sprintf("server configured with %s: the 1 200 ms handler was answered with code %d after %d ms, expected a timeout error after about 300 ms", tc.name, rsp.Ret, el.Milliseconds()), wit)
			continue
		}
		if !tc.wantTimeout && rsp.Ret != 0 {
			run.Violation("return-code", "application:"+tc.name, fmt.Sprintf("server configured with %s and no handle timeout: the 1 200 ms handler was answered with code %d (%q) after %d ms", tc.name, rsp.Ret, rsp.ResultDesc, el.Milliseconds()), wit)
			continue
		}
		run.Distinct("app-handle-timeout|" + tc.name)
	}
}
