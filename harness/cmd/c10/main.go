// C10 — the server answers each well-formed request exactly once with matching identity.
//
// Monitor: the real server stack (tars.Protocol through the verif constructor, generated
// dispatcher, recording servant, real transport.TarsServer over TCP and UDP, pool 0/1/4, handle
// timeout 0/T) is driven by RAW scripted clients that build every request with the reference
// codec: versions TARS(1)/TUP(3)/JSON(5), packet types normal/one-way, ids incl. negative, 1 and
// MaxInt32, functions valid / unknown / tars_ping, request timeouts, pipelined bursts on one or
// many connections.  Handler duration is a gate in the servant opened by the monitor.  Oracle,
// joined by connection and request id: number of responses (two-way 1, one-way 0, after a bounded
// quiescence poll), echoed id / version / packet type, return code and message per case (0, the
// implementation's code and message, -6 queue timeout without execution, handle timeout), servant
// invocation count, and the decoded result values.
package main

import (
	"context"
	"encoding/json"
	"errors"
	"fmt"
	"math/rand"
	"net"
	"strconv"
	"sync"
	"sync/atomic"
	"time"
	"verif/appchild"
	"verif/gen/VI"

	"github.com/TarsCloud/TarsGo/tars"
	"github.com/TarsCloud/TarsGo/tars/util/rogger"

	"verif/netlab"
	rc "verif/refcodec"
	"verif/vlib"
	"verif/vworld"
)

var run *vlib.Run

type srvCfg struct {
	Proto    string `json:"proto"`
	Pool     int    `json:"pool"`
	HandleMs int    `json:"handle_timeout_ms"`
}

func (c srvCfg) String() string {
	return fmt.Sprintf("%s pool=%d handleTimeout=%dms", c.Proto, c.Pool, c.HandleMs)
}

type reqSpec struct {
	ID       int32  `json:"request_id"`
	Version  int16  `json:"version"`
	OneWay   bool   `json:"one_way"`
	Func     string `json:"func"`
	Timeout  int32  `json:"timeout_ms"`
	Token    string `json:"token"`
	X        int32  `json:"x"`
	Kind     string `json:"kind"` // ok | tars-error | plain-error | ping | unknown-func | queue-timeout | handle-timeout
	ErrCode  int32  `json:"err_code,omitempty"`
	ErrMsg   string `json:"err_msg,omitempty"`
	Ret      int64  `json:"ret"`
	TokenOut string `json:"token_out"`
}

// encodeArgs builds the argument buffer of outFirst(out string tokenOut, string token, int x) per version.
func encodeArgs(v int16, token string, x int32) []byte {
	switch v {
	case 3: // TUP: attribute map name -> value encoded under tag 0
		var b []byte
		b = rc.AppendHead(b, rc.TMap, 0)
		b = rc.AppendInt(b, 2, 0)
		b = rc.AppendString(b, []byte("token"), 0)
		b = rc.AppendSimpleList(b, rc.AppendString(nil, []byte(token), 0), 1)
		b = rc.AppendString(b, []byte("x"), 0)
		b = rc.AppendSimpleList(b, rc.AppendInt(nil, int64(x), 0), 1)
		return b
	case 5:
		j, _ := json.Marshal(map[string]interface{}{"token": token, "x": x})
		return j
	}
	var b []byte
	b = rc.AppendString(b, []byte(token), 2)
	b = rc.AppendInt(b, int64(x), 3)
	return b
}

// argsFor builds the argument buffer of the request's function.
func argsFor(s reqSpec) []byte {
	if s.Func != "nothing" && s.Func != "onlyOut" {
		return encodeArgs(s.Version, s.Token, s.X)
	}
	switch s.Version {
	case 3:
		return rc.AppendInt(rc.AppendHead(nil, rc.TMap, 0), 0, 0)
	case 5:
		return []byte("{}")
	}
	return nil
}

// decodeOnlyOut extracts the out parameters a (int) and b (string) of onlyOut(out int a, out string b, out Pair c).
func decodeOnlyOut(v int16, buf []byte) (int64, string, error) {
	switch v {
	case 3:
		nodes, err := rc.ParseFields(buf)
		if err != nil || len(nodes) == 0 || nodes[0].Type != rc.TMap {
			return 0, "", fmt.Errorf("TUP result is not an attribute map: %v", err)
		}
		var a int64
		var b string
		seen := 0
		for i, k := range nodes[0].Keys {
			inner, err := rc.ParseFields(nodes[0].Vals[i].Bytes)
			if err != nil || len(inner) != 1 {
				return 0, "", fmt.Errorf("TUP attribute %q does not hold exactly one field (%d, %v)", k.Bytes, len(inner), err)
			}
			switch string(k.Bytes) {
			case "a":
				a = inner[0].Int
				seen |= 1
			case "b":
				if inner[0].Type != rc.TString1 && inner[0].Type != rc.TString4 {
					return 0, "", fmt.Errorf("TUP attribute b holds wire type %s", rc.TypeName(inner[0].Type))
				}
				b = string(inner[0].Bytes)
				seen |= 2
			case "c":
				if inner[0].Type != rc.TStructBegin {
					return 0, "", fmt.Errorf("TUP attribute c holds wire type %s", rc.TypeName(inner[0].Type))
				}
				seen |= 4
			}
		}
		if seen != 7 {
			return 0, "", fmt.Errorf("TUP result lacks one of a/b/c")
		}
		return a, b, nil
	case 5:
		var m map[string]interface{}
		d := json.NewDecoder(bytesReader(buf))
		d.UseNumber()
		if err := d.Decode(&m); err != nil {
			return 0, "", err
		}
		n, _ := m["a"].(json.Number)
		a, _ := n.Int64()
		b, _ := m["b"].(string)
		return a, b, nil
	}
	nodes, err := rc.ParseFields(buf)
	if err != nil {
		return 0, "", err
	}
	var a int64
	var b string
	for _, n := range nodes {
		if n.Tag == 1 {
			a = n.Int
		}
		if n.Tag == 2 {
			b = string(n.Bytes)
		}
	}
	return a, b, nil
}

// decodeResult extracts (ret, tokenOut) from a response buffer per version.
func decodeResult(v int16, buf []byte) (int64, string, error) {
	switch v {
	case 3:
		nodes, err := rc.ParseFields(buf)
		if err != nil || len(nodes) == 0 || nodes[0].Type != rc.TMap {
			return 0, "", fmt.Errorf("TUP result is not an attribute map: %v", err)
		}
		var ret int64
		var tok string
		seen := 0
		for i, k := range nodes[0].Keys {
			val := nodes[0].Vals[i]
			inner, err := rc.ParseFields(val.Bytes)
			if err != nil || len(inner) == 0 {
				return 0, "", fmt.Errorf("TUP attribute %q undecodable", k.Bytes)
			}
			switch string(k.Bytes) {
			case "tars_ret", "":
				ret = inner[0].Int
				seen |= 1
			case "tokenOut":
				tok = string(inner[0].Bytes)
				seen |= 2
			}
		}
		if seen != 3 {
			return 0, "", fmt.Errorf("TUP result lacks tars_ret/tokenOut")
		}
		return ret, tok, nil
	case 5:
		var m map[string]interface{}
		d := json.NewDecoder(bytesReader(buf))
		d.UseNumber()
		if err := d.Decode(&m); err != nil {
			return 0, "", err
		}
		n, _ := m["tars_ret"].(json.Number)
		r, _ := n.Int64()
		t, _ := m["tokenOut"].(string)
		return r, t, nil
	}
	nodes, err := rc.ParseFields(buf)
	if err != nil {
		return 0, "", err
	}
	var ret int64
	var tok string
	for _, n := range nodes {
		if n.Tag == 0 {
			ret = n.Int
		}
		if n.Tag == 1 {
			tok = string(n.Bytes)
		}
	}
	return ret, tok, nil
}

type byteReader struct {
	b []byte
	i int
}

func (r *byteReader) Read(p []byte) (int, error) {
	if r.i >= len(r.b) {
		return 0, errors.New("EOF")
	}
	n := copy(p, r.b[r.i:])
	r.i += n
	return n, nil
}
func bytesReader(b []byte) *byteReader { return &byteReader{b: b} }

// rawResponse is a parsed response frame of any layout.
type rawResponse struct {
	Version    int16
	PacketType int8
	ID         int32
	Ret        int32
	Desc       string
	Buffer     []byte
	Layout     string // "response" | "tup-request-shaped"
}

// parseAny decodes a frame as ResponsePacket; TUP replies use the RequestPacket layout.
func parseAny(frame []byte, wantTUP bool) (*rawResponse, error) {
	if netlab.IsRequestShaped(frame) {
		rq, err := netlab.ParseRequest(frame)
		if err != nil {
			return nil, err
		}
		return &rawResponse{Version: rq.Version, PacketType: rq.PacketType, ID: rq.RequestID, Buffer: rq.Buffer, Layout: "tup-request-shaped"}, nil
	}
	rs, err := netlab.ParseResponse(frame)
	if err != nil {
		return nil, err
	}
	return &rawResponse{Version: rs.Version, PacketType: rs.PacketType, ID: rs.RequestID, Ret: rs.Ret, Desc: rs.ResultDesc, Buffer: rs.Buffer, Layout: "response"}, nil
}

type client struct {
	proto string
	conn  net.Conn
	mu    sync.Mutex
	got   map[int32][][]byte
	other [][]byte
	done  chan struct{}
}

func dial(proto, addr string) (*client, error) {
	c, err := net.DialTimeout(proto, addr, 3*time.Second)
	if err != nil {
		return nil, err
	}
	cl := &client{proto: proto, conn: c, got: map[int32][][]byte{}, done: make(chan struct{})}
	go cl.reader()
	return cl, nil
}

func (c *client) reader() {
	defer close(c.done)
	record := func(f []byte) {
		id := int32(0)
		ok := false
		if r, err := parseAny(f, false); err == nil {
			id, ok = r.ID, true
		}
		c.mu.Lock()
		if ok {
			c.got[id] = append(c.got[id], f)
		} else {
			c.other = append(c.other, f)
		}
		c.mu.Unlock()
	}
	if c.proto == "udp" {
		b := make([]byte, 65536)
		for {
			n, err := c.conn.Read(b)
			if err != nil {
				return
			}
			record(append([]byte(nil), b[:n]...))
		}
	}
	fr := &netlab.FrameReader{Conn: c.conn}
	for {
		f, err := fr.Next(24 * time.Hour)
		if err != nil {
			return
		}
		record(f)
	}
}

func (c *client) responses(id int32) [][]byte {
	c.mu.Lock()
	defer c.mu.Unlock()
	return append([][]byte(nil), c.got[id]...)
}

func waitFor(cond func() bool, d time.Duration) bool {
	dl := time.Now().Add(d)
	for !cond() {
		if time.Now().After(dl) {
			return false
		}
		time.Sleep(300 * time.Microsecond)
	}
	return true
}

func buildRequest(s reqSpec, obj string) []byte {
	pt := int8(0)
	if s.OneWay {
		pt = 1
	}
	return (&netlab.Request{Version: s.Version, PacketType: pt, RequestID: s.ID, Servant: obj, Func: s.Func, Buffer: argsFor(s), Timeout: s.Timeout,
		Context: map[string]string{vworld.TokenKey: s.Token}, Status: map[string]string{}}).Encode()
}

// udpDrops returns the kernel's dropped-datagram counters of the server's and the client's socket.
func udpDrops(w *vworld.World, cl *client) (server, client int64) {
	_, sp := netlab.HostPort(w.Conf.Address)
	spn, _ := strconv.Atoi(sp)
	cpn := 0
	if la, ok := cl.conn.LocalAddr().(*net.UDPAddr); ok {
		cpn = la.Port
	}
	return netlab.UDPDrops(spn), netlab.UDPDrops(cpn)
}

func udpLossSeen(w *vworld.World, cl *client) bool {
	ds, dc := udpDrops(w, cl)
	return ds != 0 || dc != 0
}

// judge checks one request's responses against its spec.
func judge(cfg srvCfg, w *vworld.World, cl *client, s reqSpec, wit func(map[string]interface{}) map[string]interface{}) bool {
	locus := fmt.Sprintf("%s:v%d:%s", cfg.Proto, s.Version, s.Kind)
	if s.Func == "nothing" {
		locus += ":void"
	}
	wantResponses := 1
	if s.OneWay {
		wantResponses = 0
	}
	if wantResponses == 1 {
		patience := 8 * time.Second
		if cfg.Proto == "udp" && udpLossSeen(w, cl) {
			patience = 300 * time.Millisecond // the answer may never come; the burst was sent long ago
		}
		waitFor(func() bool { return len(cl.responses(s.ID)) >= 1 }, patience)
	}
	rs := cl.responses(s.ID)
	if cfg.Proto == "udp" && len(rs) < wantResponses {
		// a datagram the kernel threw away (receive buffer of the server's or of this client's
		// socket full) says nothing about the server
		if ds, dc := udpDrops(w, cl); ds != 0 || dc != 0 {
			run.Add("udp_requests_not_judged_kernel_dropped_datagrams", 1)
			run.Inconclusive(fmt.Sprintf("udp request id %d unanswered while the kernel reports dropped datagrams (server socket drops=%d, client socket drops=%d; -1 = unreadable)", s.ID, ds, dc))
			return true
		}
	}
	if len(rs) != wantResponses {
		cls := "response-count"
		if s.OneWay {
			cls = "one-way-request-answered"
		}
		run.Violation(cls, locus+handleClass(cfg), fmt.Sprintf("request id %d (%s, one-way=%v, version %d) received %d responses, expected %d; server %s", s.ID, s.Kind, s.OneWay, s.Version, len(rs), wantResponses, cfg), wit(map[string]interface{}{"request": s, "responses": len(rs)}))
		return false
	}
	// servant invocation count
	wantExec := 1
	switch s.Kind {
	case "ping", "queue-timeout", "unknown-func":
		wantExec = 0
	}
	if s.OneWay || wantExec == 1 {
		waitFor(func() bool { return len(w.Servant.ReceivedFor(s.Token)) >= wantExec }, 3*time.Second)
	}
	if n := len(w.Servant.ReceivedFor(s.Token)); cfg.Proto == "udp" && n < wantExec {
		_, sp := netlab.HostPort(w.Conf.Address)
		spn, _ := strconv.Atoi(sp)
		if ds := netlab.UDPDrops(spn); ds != 0 {
			run.Add("udp_requests_not_judged_kernel_dropped_datagrams", 1)
			run.Inconclusive(fmt.Sprintf("udp request id %d not executed while the kernel reports dropped datagrams on the server socket (drops=%d; -1 = unreadable)", s.ID, ds))
			return true
		}
	}
	if n := len(w.Servant.ReceivedFor(s.Token)); n != wantExec {
		run.Violation("execution-count", locus, fmt.Sprintf("request id %d (%s): the implementation ran %d times, expected %d; server %s", s.ID, s.Kind, n, wantExec, cfg), wit(map[string]interface{}{"request": s, "executions": n}))
		return false
	}
	if s.OneWay {
		return true
	}
	r, err := parseAny(rs[0], s.Version == 3 && s.Kind != "handle-timeout")
	if err != nil {
		run.Violation("response-undecodable", locus, fmt.Sprintf("response to request id %d cannot be decoded: %v", s.ID, err), wit(map[string]interface{}{"request": s, "frame": fmt.Sprintf("%x", rs[0][:min(len(rs[0]), 80)])}))
		return false
	}
	if r.ID != s.ID || r.Version != s.Version || r.PacketType != 0 {
		run.Violation("identity-not-echoed", locus+handleClass(cfg), fmt.Sprintf("request (id %d, version %d, packet type 0) answered with (id %d, version %d, packet type %d); server %s", s.ID, s.Version, r.ID, r.Version, r.PacketType, cfg), wit(map[string]interface{}{"request": s, "response": r}))
		return false
	}
	if s.Version == 3 {
		if r.Layout != "tup-request-shaped" {
			run.Violation("tup-reply-layout", locus+handleClass(cfg), fmt.Sprintf("TUP request id %d answered in the %s layout", s.ID, r.Layout), wit(map[string]interface{}{"request": s}))
			return false
		}
		if s.Kind != "ok" {
			return true // the TUP reply layout carries no return code / message
		}
	}
	switch s.Kind {
	case "ok":
		if r.Ret != 0 {
			run.Violation("return-code", locus, fmt.Sprintf("successful call answered with code %d (%q)", r.Ret, r.Desc), wit(map[string]interface{}{"request": s}))
			return false
		}
		if s.Func == "nothing" {
			break // a void function without parameters returns nothing to compare
		}
		if s.Func == "onlyOut" {
			a, b, err := decodeOnlyOut(s.Version, r.Buffer)
			if err != nil || a != int64(s.X) || b != s.TokenOut {
				run.Violation("result-changed", locus+":onlyOut", fmt.Sprintf("out parameters of request id %d: a=%d b=%q err=%v, the implementation produced a=%d b=%q", s.ID, a, b, err, s.X, s.TokenOut), wit(map[string]interface{}{"request": s}))
				return false
			}
			break
		}
		ret, tok, err := decodeResult(s.Version, r.Buffer)
		if err != nil || ret != s.Ret || tok != s.TokenOut {
			run.Violation("result-changed", locus, fmt.Sprintf("result of request id %d: ret=%d tokenOut=%q err=%v, the implementation produced ret=%d tokenOut=%q", s.ID, ret, tok, err, s.Ret, s.TokenOut), wit(map[string]interface{}{"request": s}))
			return false
		}
	case "ping":
		if r.Ret != 0 {
			run.Violation("return-code", locus, fmt.Sprintf("tars_ping answered with code %d", r.Ret), wit(map[string]interface{}{"request": s}))
			return false
		}
	case "tars-error", "plain-error":
		wantCode := s.ErrCode
		if s.Kind == "plain-error" {
			wantCode = 1
		}
		if r.Ret == 0 || r.Ret != wantCode || r.Desc != s.ErrMsg {
			run.Violation("error-mapping", locus, fmt.Sprintf("implementation error (code %d, %q) answered with (code %d, %q)", wantCode, s.ErrMsg, r.Ret, r.Desc), wit(map[string]interface{}{"request": s}))
			return false
		}
	case "unknown-func":
		if r.Ret == 0 {
			run.Violation("return-code", locus, "request for an unknown function answered with success", wit(map[string]interface{}{"request": s}))
			return false
		}
	case "queue-timeout":
		if r.Ret != -6 {
			run.Violation("queue-timeout-code", locus, fmt.Sprintf("request whose own timeout (%d ms) elapsed in the queue answered with code %d (%q), expected -6", s.Timeout, r.Ret, r.Desc), wit(map[string]interface{}{"request": s}))
			return false
		}
	case "handle-timeout":
		if r.Ret == 0 {
			run.Violation("handle-timeout-code", locus, fmt.Sprintf("over-long handler answered with success (code 0, %q)", r.Desc), wit(map[string]interface{}{"request": s}))
			return false
		}
	}
	return true
}

func handleClass(cfg srvCfg) string {
	if cfg.HandleMs > 0 {
		return ":handle-timeout-configured"
	}
	return ""
}

var idSeq atomic.Int32

func nextID(r *rand.Rand) int32 {
	switch r.Intn(12) {
	case 0:
		return -int32(idSeq.Add(1)) - 5
	}
	return idSeq.Add(1) + 10
}

func runConfig(cfg srvCfg, ci int) {
	app := tars.VerifNewApp()
	conf := netlab.DefaultServerConf(cfg.Proto)
	conf.MaxInvoke = int32(cfg.Pool)
	conf.HandleTimeout = time.Duration(cfg.HandleMs) * time.Millisecond
	obj := fmt.Sprintf("Verif.C10x%d.EchoObj", ci)
	w, err := vworld.NewWorld(app, conf, obj, nil)
	if err != nil {
		run.Inconclusive("cannot start world: " + err.Error())
		return
	}
	r := rand.New(rand.NewSource(run.Seed*977 + int64(ci)))
	witBase := func(extra map[string]interface{}) map[string]interface{} {
		m := map[string]interface{}{"server": cfg}
		for k, v := range extra {
			m[k] = v
		}
		return m
	}
	// ---- phase 1: pipelined bursts, mixed kinds ----
	nConns := []int{1, 3, 10}[ci%3]
	burst := run.Pick(60, 800)
	var clients []*client
	for i := 0; i < nConns; i++ {
		c, err := dial(cfg.Proto, conf.Address)
		if err != nil {
			run.Inconclusive("dial: " + err.Error())
			return
		}
		clients = append(clients, c)
	}
	specs := make([][]reqSpec, nConns)
	for i := 0; i < burst; i++ {
		ci2 := r.Intn(nConns)
		s := reqSpec{ID: nextID(r), Version: []int16{1, 1, 3, 5}[r.Intn(4)], OneWay: r.Intn(5) == 0, Func: "outFirst", Timeout: []int32{0, 3000, 60000}[r.Intn(3)], X: int32(r.Uint32())}
		s.Token = fmt.Sprintf("c10-%d-%d", ci, i)
		switch k := r.Intn(10); {
		case k == 0:
			s.Kind, s.Func = "ping", "tars_ping"
		case k == 1:
			s.Kind, s.Func = "unknown-func", "noSuchFunction"
		case k == 2:
			s.Kind, s.ErrCode, s.ErrMsg = "tars-error", []int32{2, -3, 500, 2147483647}[r.Intn(4)], "servant says no to "+s.Token
		case k == 3:
			s.Kind, s.ErrMsg = "plain-error", "plain failure "+s.Token
		default:
			s.Kind, s.Ret, s.TokenOut = "ok", int64(r.Uint64())>>uint(r.Intn(64)), "out-"+s.Token
		}
		if (s.Kind == "ok" || s.Kind == "tars-error" || s.Kind == "plain-error") && i%4 == 3 {
			s.Func = "nothing" // void, no parameters: the dispatcher has separate call emitters for void functions
		}
		if s.Kind == "ok" && i%8 == 5 {
			s.Func = "onlyOut" // void with three out parameters (int, string, struct): each must come back under its own name / tag
		}
		if i == 0 {
			s.ID = 1
		}
		if i == 1 {
			s.ID = 2147483647
		}
		d := &vworld.Directive{Ret: s.Ret, Outs: []interface{}{s.TokenOut}}
		if s.Func == "nothing" {
			d = &vworld.Directive{}
		}
		if s.Func == "onlyOut" {
			d = &vworld.Directive{Outs: []interface{}{int32(s.X), s.TokenOut, VI.Pair{K: "key-" + s.Token, V: int64(s.X) * 3}}}
		}
		switch s.Kind {
		case "tars-error":
			d = &vworld.Directive{Err: tars.Errorf(s.ErrCode, "%s", s.ErrMsg)}
		case "plain-error":
			d = &vworld.Directive{Err: errors.New(s.ErrMsg)}
		}
		w.Servant.SetDirective(s.Token, d)
		specs[ci2] = append(specs[ci2], s)
	}
	var wg sync.WaitGroup
	for i, c := range clients {
		wg.Add(1)
		go func(i int, c *client, ss []reqSpec) {
			defer wg.Done()
			if cfg.Proto == "udp" {
				// datagrams are not flow-controlled: keep at most ~16 answers outstanding per socket so
				// that neither receive buffer overflows (an overflow is accounted for in judge)
				twoWay := 0
				for k, s := range ss {
					c.conn.Write(buildRequest(s, obj))
					if !s.OneWay {
						twoWay++
					}
					if k%16 == 15 {
						time.Sleep(time.Millisecond) // one-way requests have no answer to wait for
						want := twoWay - 16
						waitFor(func() bool { c.mu.Lock(); n := len(c.got); c.mu.Unlock(); return n >= want }, 300*time.Millisecond)
					}
				}
				return
			}
			var stream []byte
			var cuts []int
			for k, s := range ss {
				stream = append(stream, buildRequest(s, obj)...)
				// every other connection: a write ends 1..3 bytes into the next request's length prefix
				if i%2 == 1 && k+1 < len(ss) && k%3 == 0 {
					cuts = append(cuts, len(stream)+1+(k/3)%3)
				}
			}
			if len(cuts) > 0 {
				_ = netlab.WriteChunks(c.conn, stream, cuts, netlab.PaceSleep1ms)
				return
			}
			c.conn.Write(stream)
		}(i, c, specs[i])
	}
	wg.Wait()
	for i, c := range clients {
		for _, s := range specs[i] {
			run.Eval(1)
			if !judge(cfg, w, c, s, witBase) {
				return
			}
			run.Distinct(fmt.Sprintf("%s|v%d|%s|ow%v", cfg, s.Version, s.Kind, s.OneWay))
		}
	}
	// quiescence: no further responses for one-way requests, no duplicates
	time.Sleep(30 * time.Millisecond)
	for i, c := range clients {
		for _, s := range specs[i] {
			want := 1
			if s.OneWay {
				want = 0
			}
			if n := len(c.responses(s.ID)); n < want && cfg.Proto == "udp" && udpLossSeen(w, c) {
				continue // already counted as not judged: the kernel dropped datagrams on this socket pair
			} else if n != want {
				run.Violation("response-count", fmt.Sprintf("%s:v%d:%s:late", cfg.Proto, s.Version, s.Kind), fmt.Sprintf("request id %d has %d responses after quiescence, expected %d", s.ID, n, want), witBase(map[string]interface{}{"request": s}))
				return
			}
		}
		c.mu.Lock()
		no := len(c.other)
		c.mu.Unlock()
		if no > 0 {
			run.Violation("undecodable-frame-from-server", cfg.Proto, fmt.Sprintf("%d frames from the server are neither a response nor a TUP reply", no), witBase(nil))
			return
		}
	}
	// ---- phase 2: queue timeout (needs a bounded pool) ----
	if cfg.Pool == 1 && cfg.HandleMs == 0 {
		c := clients[0]
		gate := make(chan struct{})
		a := reqSpec{ID: nextID(r), Version: 1, Func: "outFirst", Timeout: 60000, Token: fmt.Sprintf("c10-%d-gateA", ci), Kind: "ok", Ret: 11, TokenOut: "A"}
		w.Servant.SetDirective(a.Token, &vworld.Directive{Ret: a.Ret, Outs: []interface{}{a.TokenOut}, Gate: gate})
		c.conn.Write(buildRequest(a, obj))
		waitFor(func() bool { return len(w.Servant.ReceivedFor(a.Token)) == 1 }, 3*time.Second)
		var bs []reqSpec
		for k := 0; k < 3; k++ {
			b := reqSpec{ID: nextID(r), Version: []int16{1, 3, 5}[k], Func: "outFirst", Timeout: 50, Token: fmt.Sprintf("c10-%d-queued%d", ci, k), Kind: "queue-timeout"}
			w.Servant.SetDirective(b.Token, &vworld.Directive{Ret: int64(1), Outs: []interface{}{"never"}})
			c.conn.Write(buildRequest(b, obj))
			bs = append(bs, b)
		}
		time.Sleep(400 * time.Millisecond) // longer than the queued requests' own 50 ms timeout
		close(gate)
		run.Eval(4)
		if !judge(cfg, w, c, a, witBase) {
			return
		}
		for _, b := range bs {
			if !judge(cfg, w, c, b, witBase) {
				return
			}
			run.Distinct(fmt.Sprintf("%s|queue-timeout|v%d", cfg, b.Version))
		}
	}
	// ---- phase 2b: queue timeout with a handle timeout configured (bounded pool) ----
	// the one worker is held by a handler for 150 ms (shorter than the 250 ms handle timeout, so it
	// is answered normally); the requests queued behind it carry a timeout of 50 ms of their own,
	// which has elapsed when the worker reaches them: not executed, answered with the queue-timeout code
	if cfg.Pool == 1 && cfg.HandleMs > 0 {
		c := clients[0]
		gate := make(chan struct{})
		a := reqSpec{ID: nextID(r), Version: 1, Func: "outFirst", Timeout: 60000, Token: fmt.Sprintf("c10-%d-gateA2", ci), Kind: "ok", Ret: 12, TokenOut: "A2"}
		w.Servant.SetDirective(a.Token, &vworld.Directive{Ret: a.Ret, Outs: []interface{}{a.TokenOut}, Gate: gate})
		c.conn.Write(buildRequest(a, obj))
		if waitFor(func() bool { return len(w.Servant.ReceivedFor(a.Token)) == 1 }, 3*time.Second) {
			var bs []reqSpec
			for k := 0; k < 3; k++ {
				b := reqSpec{ID: nextID(r), Version: []int16{1, 3, 5}[k], Func: "outFirst", Timeout: 50, Token: fmt.Sprintf("c10-%d-queued2-%d", ci, k), Kind: "queue-timeout"}
				w.Servant.SetDirective(b.Token, &vworld.Directive{Ret: int64(1), Outs: []interface{}{"never"}})
				c.conn.Write(buildRequest(b, obj))
				bs = append(bs, b)
			}
			time.Sleep(150 * time.Millisecond)
			close(gate)
			run.Eval(4)
			if !judge(cfg, w, c, a, witBase) {
				return
			}
			for _, b := range bs {
				if !judge(cfg, w, c, b, witBase) {
					return
				}
				run.Distinct(fmt.Sprintf("%s|queue-timeout|v%d", cfg, b.Version))
			}
		} else {
			close(gate)
		}
	}
	// ---- phase 3: handle timeout ----
	if cfg.HandleMs > 0 {
		c := clients[0]
		for k, v := range []int16{1, 3, 5, 1} {
			oneway := k == 3
			gate := make(chan struct{})
			s := reqSpec{ID: nextID(r), Version: v, OneWay: oneway, Func: "outFirst", Timeout: 60000, Token: fmt.Sprintf("c10-%d-slow%d", ci, k), Kind: "handle-timeout"}
			w.Servant.SetDirective(s.Token, &vworld.Directive{Ret: int64(5), Outs: []interface{}{"late"}, Gate: gate})
			c.conn.Write(buildRequest(s, obj))
			// the handler stays blocked until its timeout response has been seen (or, one-way, well past the timeout)
			if oneway {
				time.Sleep(time.Duration(cfg.HandleMs)*time.Millisecond + 150*time.Millisecond)
			} else {
				waitFor(func() bool { return len(c.responses(s.ID)) >= 1 }, time.Duration(cfg.HandleMs)*time.Millisecond+5*time.Second)
			}
			close(gate)
			time.Sleep(60 * time.Millisecond) // a second response would show up now
			run.Eval(1)
			if !judge(cfg, w, c, s, witBase) {
				return
			}
			if n := len(c.responses(s.ID)); !oneway && n != 1 {
				run.Violation("response-count", fmt.Sprintf("%s:v%d:handle-timeout:after-handler-finished", cfg.Proto, v), fmt.Sprintf("over-long handler: %d responses after the handler finished, expected exactly 1", n), witBase(map[string]interface{}{"request": s}))
				return
			}
			run.Distinct(fmt.Sprintf("%s|handle-timeout|v%d|ow%v", cfg, v, oneway))
		}
	}
	// ---- phase 3b: a short request timeout on an idle server ----
	// nothing is queued, so a request with a 700 ms timeout of its own is executed at once, whatever
	// the phase of the wall-clock second it arrives in
	if cfg.HandleMs == 0 {
		c := clients[0]
		for k := 0; k < 14; k++ {
			s := reqSpec{ID: nextID(r), Version: []int16{1, 3, 5}[k%3], Func: "outFirst", Timeout: 700, Token: fmt.Sprintf("c10-%d-short%d", ci, k), Kind: "ok", Ret: int64(70 + k), TokenOut: fmt.Sprintf("T%d", k)}
			w.Servant.SetDirective(s.Token, &vworld.Directive{Ret: s.Ret, Outs: []interface{}{s.TokenOut}})
			c.conn.Write(buildRequest(s, obj))
			run.Eval(1)
			if !judge(cfg, w, c, s, witBase) {
				return
			}
			run.Distinct(fmt.Sprintf("%s|short-timeout-idle|v%d", cfg, s.Version))
			time.Sleep(80 * time.Millisecond)
		}
	}
	// ---- phase 3c (TCP, one worker): a client that half-closes after sending still gets its answer ----
	// the request waits in the pool's queue behind another connection's call when the server sees
	// the client's FIN; it was read, so it is executed and answered before the connection goes
	if cfg.Proto == "tcp" && cfg.Pool == 1 && cfg.HandleMs == 0 {
		gate := make(chan struct{})
		blk := reqSpec{ID: nextID(r), Version: 1, Func: "outFirst", Timeout: 0, Token: fmt.Sprintf("c10-%d-blk", ci), Kind: "ok", Ret: 5, TokenOut: "B"}
		w.Servant.SetDirective(blk.Token, &vworld.Directive{Ret: blk.Ret, Outs: []interface{}{blk.TokenOut}, Gate: gate})
		clients[0].conn.Write(buildRequest(blk, obj))
		if waitFor(func() bool { return len(w.Servant.ReceivedFor(blk.Token)) >= 1 }, 3*time.Second) {
			if hc, err := dial("tcp", conf.Address); err == nil {
				hs := reqSpec{ID: nextID(r), Version: 1, Func: "outFirst", Timeout: 0, Token: fmt.Sprintf("c10-%d-half", ci), Kind: "ok", Ret: 6, TokenOut: "H"}
				w.Servant.SetDirective(hs.Token, &vworld.Directive{Ret: hs.Ret, Outs: []interface{}{hs.TokenOut}})
				hc.conn.Write(buildRequest(hs, obj))
				if tc, ok := hc.conn.(*net.TCPConn); ok {
					_ = tc.CloseWrite()
				}
				time.Sleep(900 * time.Millisecond) // longer than the server's 500 ms clean-up poll
				close(gate)
				run.Eval(1)
				if judge(cfg, w, hc, hs, func(extra map[string]interface{}) map[string]interface{} {
					m := witBase(extra)
					m["phase"] = "request queued behind another connection's 900 ms call; its client half-closed right after sending"
					return m
				}) {
					run.Distinct(fmt.Sprintf("%s|half-closed-client", cfg))
				}
				hc.conn.Close()
			} else {
				close(gate)
			}
			judge(cfg, w, clients[0], blk, witBase)
		} else {
			close(gate)
		}
	}
	// ---- phase 4 (UDP): requests accepted before a graceful shutdown are still answered ----
	// (for TCP this is C12's matter: there the connection is the unit that drains)
	if cfg.Proto == "udp" && cfg.HandleMs == 0 {
		c := clients[0]
		gate := make(chan struct{})
		var ss []reqSpec
		for k := 0; k < 2; k++ {
			s := reqSpec{ID: nextID(r), Version: 1, Func: "outFirst", Timeout: 0, Token: fmt.Sprintf("c10-%d-shut%d", ci, k), Kind: "ok", Ret: int64(40 + k), TokenOut: fmt.Sprintf("S%d", k)}
			w.Servant.SetDirective(s.Token, &vworld.Directive{Ret: s.Ret, Outs: []interface{}{s.TokenOut}, Gate: gate})
			c.conn.Write(buildRequest(s, obj))
			ss = append(ss, s)
		}
		started := 1
		if cfg.Pool != 1 {
			started = 2
		}
		if !waitFor(func() bool {
			return len(w.Servant.ReceivedFor(ss[0].Token))+len(w.Servant.ReceivedFor(ss[1].Token)) >= started
		}, 3*time.Second) {
			run.Inconclusive("udp shutdown phase: the gated requests did not start")
		} else {
			done := make(chan struct{})
			go func() {
				ctx, cancel := context.WithTimeout(context.Background(), 8*time.Second)
				defer cancel()
				_ = w.Server.Shutdown(ctx)
				close(done)
			}()
			time.Sleep(150 * time.Millisecond)
			close(gate)
			for _, s := range ss {
				run.Eval(1)
				if !judge(cfg, w, c, s, func(extra map[string]interface{}) map[string]interface{} {
					m := witBase(extra)
					m["phase"] = "two gated udp requests, graceful Shutdown 150 ms before the handlers finish"
					return m
				}) {
					break
				}
				run.Distinct(fmt.Sprintf("%s|shutdown-in-flight", cfg))
			}
			select {
			case <-done:
			case <-time.After(12 * time.Second):
			}
		}
	}
	if ci == 1 {
		run.Sample(map[string]interface{}{"server": cfg.String(), "connections": nConns, "pipelined_requests": burst, "example_request": specs[0][0]})
	}
	for _, c := range clients {
		c.conn.Close()
	}
}

func main() {
	appchild.MaybeChild()
	run = vlib.Start("C10")
	rogger.SetLevel(rogger.OFF)
	run.SetRule("server configurations {tcp,udp} x pool {0,1,4} x handle timeout {0,250 ms}; per configuration a pipelined burst over 1/3/10 connections of requests drawn from versions {TARS,TUP,JSON} x {two-way, one-way} x kinds {success with result values, tars.Error, plain error, tars_ping, unknown function} x functions {outFirst (out before in, result), nothing (void, no parameters), onlyOut (void, three out parameters)} x ids (sequential, negative, 1, MaxInt32) x request timeouts {0,3 s,60 s}; with pool 1: three requests (one per version) whose 50 ms timeout elapses behind a gated handler; with a handle timeout: gated over-long handlers per version and one-way. A case is one request; distinct = distinct (configuration, version, kind, one-way).")
	run.Assume("the TUP reply layout (RequestPacket-shaped) carries no return code, so codes/messages are judged for TARS and JSON requests")
	var cfgs []srvCfg
	for _, p := range []string{"tcp", "udp"} {
		for _, pool := range []int{0, 1, 4} {
			for _, h := range []int{0, 250} {
				cfgs = append(cfgs, srvCfg{p, pool, h})
			}
		}
	}
	var wg sync.WaitGroup
	for i, c := range cfgs {
		wg.Add(1)
		go func(i int, c srvCfg) {
			defer wg.Done()
			runConfig(c, i)
		}(i, c)
	}
	wg.Wait()
	appHandleTimeoutPhase()
	run.Finish()
}
