// C11 — calls keep succeeding across server-initiated connection closes.
//
// Monitor: a real ServantProxy talks to a scripted server that answers every request it receives
// and keeps a connection ledger (accept, request with token, response, close, all stamped).  The
// server closes connections at scripted points: after a response, during an idle period, right
// after accept, by restart (listener and all connections closed, new listener on the same port),
// abortively (RST), and after sending the reconnect notification.  After each close the monitor
// waits until the client has registered it (transport probe; at most 2 s), then issues the next
// call after a delay delta on both sides of the sender goroutine's 1 s poll.  Oracle: the call
// succeeds with its own token well before its timeout; its request arrived exactly once; no
// further connection is opened while an earlier one is healthy and idle.
package main

import (
	"context"
	"fmt"
	"strings"
	"sync"
	"sync/atomic"
	"time"

	"github.com/TarsCloud/TarsGo/tars/util/rogger"

	"verif/netlab"
	"verif/rpcw"
	"verif/vlib"
)

var run *vlib.Run

const callTimeoutMs = 3000

type scenario struct {
	ID        int    `json:"id"`
	CloseKind string `json:"close_kind"`
	DeltaMs   int    `json:"delay_after_close_ms"`
	Callers   int    `json:"callers"`
	Cycles    int    `json:"cycles"`
}

type world struct {
	srv     *netlab.ScriptServer
	addr    string
	mu      sync.Mutex
	byToken map[string]int
	connOf  map[string]*netlab.SConn
	mode    atomic.Value
}

func (w *world) handler(ev *netlab.ReqEvent) {
	if ev.Err != nil {
		return
	}
	w.mu.Lock()
	w.byToken[string(ev.Req.Buffer)]++
	w.connOf[string(ev.Req.Buffer)] = ev.Conn
	w.mu.Unlock()
	_ = ev.Conn.Send(netlab.Echo(ev))
}

func newWorld() *world {
	w := &world{byToken: map[string]int{}, connOf: map[string]*netlab.SConn{}}
	w.srv = netlab.NewScriptServer(w.handler)
	w.addr = w.srv.Addr
	return w
}

func (w *world) restart() {
	w.srv.Stop()
	for i := 0; i < 200; i++ {
		s, err := netlab.NewScriptServerAt(w.addr, w.handler)
		if err == nil {
			w.srv = s
			return
		}
		time.Sleep(10 * time.Millisecond)
	}
}

func (w *world) arrivals(tok string) int {
	w.mu.Lock()
	defer w.mu.Unlock()
	return w.byToken[tok]
}

func clientClosed(cl *rpcw.Client) bool {
	m := cl.SP.VerifClientsClosed()
	if len(m) == 0 {
		return false
	}
	for _, c := range m {
		if !c {
			return false
		}
	}
	return true
}

func call(cl *rpcw.Client, tok string) (time.Duration, string, string) {
	type r struct {
		d   time.Duration
		c   string
		got string
	}
	ch := make(chan r, 1)
	go func() {
		t0 := time.Now()
		b, _, err := cl.Call(context.Background(), "echo", []byte(tok), false)
		ch <- r{time.Since(t0), rpcw.ErrClass(err), string(b)}
	}()
	select {
	case x := <-ch:
		return x.d, x.c, x.got
	case <-time.After(callTimeoutMs*time.Millisecond + 12*time.Second):
		return callTimeoutMs*time.Millisecond + 12*time.Second, "never-returned", ""
	}
}

func runScenario(sc scenario) {
	w := newWorld()
	defer func() { w.srv.Stop() }()
	opt := rpcw.Opt{InvokeTimeoutMs: callTimeoutMs, DialTimeout: time.Second}
	if sc.CloseKind == "down-call-up" && sc.Callers == 1 {
		// a small bound on calls in flight: the calls that fail while the server is away must not
		// stay counted, or the proxy refuses everything once the server is back
		opt.ObjQueueMax = 4
	}
	pushClient := sc.CloseKind == "down-call-up" && sc.Callers == 1 && sc.ID%2 == 1
	if pushClient {
		opt.IdleTimeout = 200 * time.Millisecond // keep-alive pings every 100 ms
	}
	cl := rpcw.NewDirect([]string{w.addr}, opt)
	if pushClient {
		// a push client keeps pinging while the server is away; pings that cannot be sent must not use
		// up the proxy's bound on calls in flight
		cl.App.ClientConfig().KeepAliveInterval = 0
		cl.SP.SetPushCallback(func([]byte) {})
	}
	if sc.ID%2 == 0 && strings.HasPrefix(sc.CloseKind, "notice") {
		// a proxy with a push callback registered (a push client) must honour the server's close
		// notification like any other proxy
		cl.SP.SetPushCallback(func([]byte) {})
	}
	wit := func(extra map[string]interface{}) map[string]interface{} {
		m := map[string]interface{}{"scenario": sc}
		for k, v := range extra {
			m[k] = v
		}
		return m
	}
	// establish the connection
	if d, c, got := call(cl, fmt.Sprintf("c11-%d-first", sc.ID)); c != "ok" {
		run.Inconclusive(fmt.Sprintf("first call failed (%s after %v, %q)", c, d, got))
		return
	}
	for cyc := 0; cyc < sc.Cycles; cyc++ {
		// ---- the server closes ----
		openBefore := 0
		for _, c := range w.srv.Conns() {
			if c.Closed.Load() == 0 {
				openBefore++
			}
		}
		switch sc.CloseKind {
		case "after-response", "idle":
			if sc.CloseKind == "idle" {
				time.Sleep(30 * time.Millisecond)
			}
			w.srv.CloseAllConns()
		case "reset":
			for _, c := range w.srv.Conns() {
				if c.Closed.Load() == 0 {
					c.Reset()
				}
			}
		case "restart":
			w.restart()
		case "notice-then-close":
			for _, c := range w.srv.Conns() {
				if c.Closed.Load() == 0 {
					_ = c.Send((&netlab.Response{Version: 1, RequestID: 0, ResultDesc: "_reconnect_"}).Encode())
				}
			}
			time.Sleep(20 * time.Millisecond)
			w.srv.CloseAllConns()
		case "down-call-up":
			// the server goes down, three calls are attempted meanwhile (they may fail, they must return),
			// then the server comes back on the same port
			w.srv.Stop()
			waitFor(func() bool { return clientClosed(cl) }, 2*time.Second)
			if pushClient {
				time.Sleep(450 * time.Millisecond) // four keep-alive periods without a server
			}
			for k := 0; k < 3; k++ {
				if d, c, _ := call(cl, fmt.Sprintf("c11-%d-c%d-down%d", sc.ID, cyc, k)); c == "never-returned" {
					run.Violation("call-never-returns", "down-call-up", fmt.Sprintf("a call issued while the server was down had not returned after %v; scenario %+v", d, sc), wit(map[string]interface{}{"cycle": cyc}))
					return
				}
			}
			w.restart()
		case "notice-window":
			// the server announces the close and keeps the old connection open for a while: calls
			// issued after the notice must use a new connection, not the one known to be going away
			var noticed []*netlab.SConn
			for _, c := range w.srv.Conns() {
				if c.Closed.Load() == 0 {
					_ = c.Send((&netlab.Response{Version: 1, RequestID: 0, ResultDesc: "_reconnect_"}).Encode())
					noticed = append(noticed, c)
				}
			}
			time.Sleep(time.Duration(50+sc.DeltaMs%200) * time.Millisecond)
			for k := 0; k < 3; k++ {
				tok := fmt.Sprintf("c11-%d-c%d-win%d", sc.ID, cyc, k)
				d, c, got := call(cl, tok)
				if c != "ok" || got != tok {
					run.Violation("call-after-close-fails", "notice-window", fmt.Sprintf("call %q issued after the reconnect notice ended with %s after %v; scenario %+v", tok, c, d, sc), wit(map[string]interface{}{"cycle": cyc}))
					return
				}
				w.mu.Lock()
				used := w.connOf[tok]
				w.mu.Unlock()
				for _, n := range noticed {
					if used == n {
						run.Violation("request-written-to-connection-known-dead", "notice-window", fmt.Sprintf("request of call %q, issued %d ms after the server's reconnect notice, was written to the connection the notice announced as closing; scenario %+v", tok, 50+sc.DeltaMs%200, sc), wit(map[string]interface{}{"cycle": cyc}))
						return
					}
				}
			}
			if cyc < 2 {
				// the connection opened after the notice is healthy: nothing the client still has to do
				// about the announced one (it drains and closes it about half a second later) may
				// close this one or make later calls leave it
				w.mu.Lock()
				fresh := w.connOf[fmt.Sprintf("c11-%d-c%d-win2", sc.ID, cyc)]
				w.mu.Unlock()
				time.Sleep(800 * time.Millisecond)
				if fresh != nil && fresh.Closed.Load() != 0 {
					run.Violation("healthy-connection-treated-as-closed", "notice-window", fmt.Sprintf("the connection the client opened after the reconnect notice was closed by the client itself within 0.8 s, the server had not touched it; scenario %+v", sc), wit(map[string]interface{}{"cycle": cyc}))
					return
				}
				tok := fmt.Sprintf("c11-%d-c%d-win-later", sc.ID, cyc)
				d, c, got := call(cl, tok)
				if c != "ok" || got != tok {
					run.Violation("call-after-close-fails", "notice-window", fmt.Sprintf("call %q issued 0.8 s after the calls that followed the reconnect notice ended with %s after %v; scenario %+v", tok, c, d, sc), wit(map[string]interface{}{"cycle": cyc}))
					return
				}
				w.mu.Lock()
				used := w.connOf[tok]
				w.mu.Unlock()
				if fresh != nil && used != fresh {
					run.Violation("healthy-connection-treated-as-closed", "notice-window", fmt.Sprintf("a call issued 0.8 s later did not use the healthy connection opened after the reconnect notice but a further new one; scenario %+v", sc), wit(map[string]interface{}{"cycle": cyc}))
					return
				}
				run.Eval(1)
			}
			w.srv.CloseAllConnsExceptNewest()
			run.Eval(3)
			continue
		case "close-right-after-accept":
			// the next connection is closed as soon as it is accepted; the one after is healthy
			w.srv.CloseAllConns()
			var once sync.Once
			w.srv.OnAccept = func(c *netlab.SConn) bool {
				ok := true
				once.Do(func() { ok = false })
				return ok
			}
			waitFor(func() bool { return clientClosed(cl) }, 2*time.Second)
			// a sacrificial call makes the client connect; that connection is closed on accept.
			// The call itself races with the close and is not judged.
			ctx, cancel := context.WithTimeout(context.Background(), 400*time.Millisecond)
			_, _, _ = cl.Call(ctx, "echo", []byte("sacrificial"), false)
			cancel()
		}
		closeStamp := netlab.Tick()
		// ---- wait until the client has registered the close (at most 2 s) ----
		registered := waitFor(func() bool { return clientClosed(cl) }, 2*time.Second)
		if sc.CloseKind == "notice-then-close" {
			registered = true // the adapter switched to a fresh client object: nothing to poll
		}
		time.Sleep(time.Duration(sc.DeltaMs) * time.Millisecond)
		// ---- calls issued after the close ----
		type res struct {
			d     time.Duration
			class string
			got   string
			tok   string
		}
		results := make([]res, sc.Callers)
		var wg sync.WaitGroup
		for g := 0; g < sc.Callers; g++ {
			wg.Add(1)
			go func(g int) {
				defer wg.Done()
				tok := fmt.Sprintf("c11-%d-c%d-g%d", sc.ID, cyc, g)
				d, c, got := call(cl, tok)
				results[g] = res{d, c, got, tok}
			}(g)
		}
		wg.Wait()
		for _, r := range results {
			locus := sc.CloseKind + ":" + deltaClass(sc.DeltaMs)
			if r.class != "ok" || r.got != r.tok {
				run.Violation("call-after-close-fails", locus, fmt.Sprintf("call %q issued %d ms after the server closed the connection (client had registered the close: %v) ended with %s after %v although the server is reachable and answers every request it receives (requests of this call seen by the server: %d); scenario %+v",
					r.tok, sc.DeltaMs, registered, r.class, r.d, w.arrivals(r.tok), sc), wit(map[string]interface{}{"cycle": cyc, "duration_ms": r.d.Milliseconds(), "client_registered_close": registered, "close_stamp": closeStamp, "arrivals": w.arrivals(r.tok)}))
				return
			}
			if r.d > callTimeoutMs*time.Millisecond/2 {
				run.Violation("call-after-close-slow", locus, fmt.Sprintf("call %q succeeded only after %v (timeout %d ms)", r.tok, r.d, callTimeoutMs), wit(map[string]interface{}{"cycle": cyc}))
				return
			}
			if n := w.arrivals(r.tok); n != 1 {
				run.Violation("request-arrived-not-once", locus, fmt.Sprintf("request of call %q arrived %d times at the server", r.tok, n), wit(map[string]interface{}{"cycle": cyc}))
				return
			}
		}
		// ---- a healthy connection must not be abandoned: a few more sequential calls reuse it ----
		connsBefore := len(w.srv.Conns())
		for k := 0; k < 3; k++ {
			tok := fmt.Sprintf("c11-%d-c%d-follow%d", sc.ID, cyc, k)
			d, c, got := call(cl, tok)
			if c != "ok" || got != tok {
				run.Violation("call-after-close-fails", sc.CloseKind+":follow-up", fmt.Sprintf("follow-up call %q on the re-established connection ended with %s after %v; scenario %+v", tok, c, d, sc), wit(map[string]interface{}{"cycle": cyc}))
				return
			}
		}
		if extra := len(w.srv.Conns()) - connsBefore; extra > 0 {
			run.Violation("healthy-connection-abandoned", sc.CloseKind, fmt.Sprintf("%d further connection(s) were opened for sequential follow-up calls although the connection in use was healthy; scenario %+v", extra, sc), wit(map[string]interface{}{"cycle": cyc}))
			return
		}
		run.Eval(int64(sc.Callers + 3))
		w.srv.OnAccept = nil
	}
	run.Add("close_cycles", int64(sc.Cycles))
	run.Distinct(fmt.Sprintf("%s|%d|g%d", sc.CloseKind, sc.DeltaMs, sc.Callers))
	if sc.ID%13 == 1 {
		run.Sample(map[string]interface{}{"scenario": sc, "server_connections_accepted": len(w.srv.Conns()), "requests_seen": len(w.srv.Ledger())})
	}
}

func deltaClass(ms int) string {
	switch {
	case ms < 1000:
		return "delta<1s"
	}
	return "delta>=1s"
}

func waitFor(cond func() bool, d time.Duration) bool {
	dl := time.Now().Add(d)
	for !cond() {
		if time.Now().After(dl) {
			return false
		}
		time.Sleep(time.Millisecond)
	}
	return true
}

func main() {
	run = vlib.Start("C11")
	rogger.SetLevel(rogger.OFF)
	run.SetRule("scenarios = close kind {after a response, idle, abortive reset, restart on the same port, reconnect notice then close, close right after accept} x delay between the close (registered by the client) and the next call {0,1,10,100,500,900,1100,2500 ms} x callers {1 sequential, 8 concurrent} x N close/call cycles, each cycle followed by 3 sequential follow-up calls. A case is one call issued after a close; distinct = distinct (close kind, delay, callers).")
	run.Assume("calls racing with the close itself are outside the verdict: the monitor waits (at most 2 s) until the client has registered the close")
	run.Assume("success 'without waiting for its timeout' is judged as completing within half of the 3 s call timeout")
	kinds := []string{"after-response", "idle", "reset", "restart", "notice-then-close", "notice-window", "close-right-after-accept", "down-call-up"}
	deltas := []int{0, 1, 10, 100, 500, 900, 1100, 2500}
	cycles := run.Pick(6, 60)
	var scs []scenario
	id := 0
	for _, k := range kinds {
		for _, d := range deltas {
			for _, g := range []int{1, 8} {
				id++
				scs = append(scs, scenario{ID: id, CloseKind: k, DeltaMs: d, Callers: g, Cycles: cycles})
			}
		}
	}
	sem := make(chan struct{}, 24)
	var wg sync.WaitGroup
	for _, sc := range scs {
		wg.Add(1)
		sem <- struct{}{}
		go func(sc scenario) {
			defer wg.Done()
			defer func() { <-sem }()
			runScenario(sc)
		}(sc)
	}
	wg.Wait()
	run.Set("scenarios", len(scs))
	run.Finish()
}
