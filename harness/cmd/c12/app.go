package main

import (
	"fmt"
	"net"
	"strings"
	"syscall"
	"time"

	"verif/appchild"
	"verif/netlab"
)

// Application level: the real tars.Run() in a child process (configuration file, TCP (and UDP)
// servants, the admin servant on the local port), shut down the two ways a deployed server is:
// by the admin servant's "shutdown" command and by a termination signal.  A request the server
// had read (its handler is running) must be answered before its connection ends, the admin's own
// request must be answered, and the process must end once everything has drained — long before
// the grace period.
func appPhase() {
	for rep := 0; rep < run.Pick(1, 4); rep++ {
		appShutdownScenario("admin-command", false, rep)
		appShutdownScenario("signal", true, rep)
	}
}

func waitLine(a *appchild.App, prefix string, d time.Duration) bool {
	dl := time.Now().Add(d)
	for time.Now().Before(dl) {
		if _, ok := a.Line(prefix); ok {
			return true
		}
		time.Sleep(5 * time.Millisecond)
	}
	return false
}

func appShutdownScenario(how string, udp bool, rep int) {
	a, err := appchild.Start(appchild.Config{UDP: udp, GracedownMs: 30000, MaxRoutine: []int{0, 2}[rep%2]})
	if err != nil {
		if a != nil {
			a.Kill()
		}
		run.Inconclusive("application child: " + err.Error())
		return
	}
	defer a.Kill()
	wit := func(extra map[string]interface{}) map[string]interface{} {
		ls := a.Lines()
		if len(ls) > 30 {
			ls = ls[len(ls)-30:]
		}
		m := map[string]interface{}{"scenario": "application:" + how, "udp_servant_too": udp, "child_output_tail": ls}
		for k, v := range extra {
			m[k] = v
		}
		return m
	}
	locus := "app:" + how
	c, err := net.DialTimeout("tcp", a.TCPAddr, 3*time.Second)
	if err != nil {
		run.Inconclusive("application child: dial: " + err.Error())
		return
	}
	defer c.Close()
	type res struct {
		rsp *netlab.Response
		err error
	}
	slow := make(chan res, 1)
	id := int32(11 + rep)
	holdMs := 1800
	go func() {
		r, err := appchild.Exchange(c, "tcp", a.TCPObj, "sleep", id, []byte(fmt.Sprint(holdMs)), 25*time.Second)
		slow <- res{r, err}
	}()
	if !waitLine(a, fmt.Sprintf("EXEC %d ", id), 5*time.Second) {
		run.Inconclusive("application child: the slow request did not start")
		return
	}
	t0 := time.Now()
	if how == "admin-command" {
		rsp, err := a.Call(a.AdminAddr, "tcp", "AdminObj", "shutdown", 77, nil, 8*time.Second)
		if err != nil || rsp.RequestID != 77 {
			run.Violation("received-request-not-answered", locus+":the-shutdown-request-itself", fmt.Sprintf("the admin servant's shutdown request (read and executed by the server) got no response within 8 s: %v", err), wit(nil))
			return
		}
	} else {
		a.Signal(syscall.SIGTERM)
	}
	r := <-slow
	if r.err != nil || r.rsp == nil || r.rsp.RequestID != id {
		run.Violation("received-request-not-answered", locus, fmt.Sprintf("a request whose handler was running when the application was shut down (%s) got no response before its connection ended: %v (%.1f s after the shutdown began; the handler needs %d ms)", how, r.err, time.Since(t0).Seconds(), holdMs), wit(nil))
		return
	}
	if !a.WaitExit(15 * time.Second) {
		run.Violation("shutdown-does-not-return", locus, fmt.Sprintf("15 s after every request was answered the application has not ended (%s; grace period 30 s resp. 60 s)", how), wit(nil))
		return
	}
	joined := strings.Join(a.Lines(), "\n")
	if !strings.Contains(joined, "RUN-RETURNED") {
		run.Violation("process-death", locus, "the application process ended without Run() returning", wit(nil))
		return
	}
	run.Eval(1)
	run.Distinct(fmt.Sprintf("app-shutdown|%s|udp%v|pool%d", how, udp, rep%2))
}
