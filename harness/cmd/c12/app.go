package main

import (
	"fmt"
	"net"
	"os/exec"
	"strings"
	"syscall"
	"time"

	"verif/appchild"
	"verif/netlab"
)

// Application level: the real tars.Run() in a child process (configuration file, TCP (and UDP)
// servants, the admin servant on the local port), shut down the two ways a deployed server is:
// by the admin servant's "shutdown" command and by a termination signal.  A request the server
// had read (its handler is running) must be answered before its connection ends, the admin's own
// request must be answered, and the process must end once everything has drained — long before
// the grace period.
func appPhase() {
	for rep := 0; rep < run.Pick(1, 4); rep++ {
		appShutdownScenario("admin-command", false, rep)
		appShutdownScenario("signal", true, rep)
	}
}

func waitLine(a *appchild.App, prefix string, d time.Duration) bool {
	dl := time.Now().Add(d)
	for time.Now().Before(dl) {
		if _, ok := a.Line(prefix); ok {
			return true
		}
		time.Sleep(5 * time.Millisecond)
	}
	return false
}

// killedBySignal: the child died of the signal's default action — its SIGTERM handling was not
// installed (yet): tars.Run starts serving before its signal goroutine has registered.
func killedBySignal(a *appchild.App) bool {
	if !a.WaitExit(2 * time.Second) {
		return false
	}
	if ee, ok := a.ExitErr.(*exec.ExitError); ok {
		if ws, ok := ee.Sys().(syscall.WaitStatus); ok {
			return ws.Signaled() && ws.Signal() == syscall.SIGTERM
		}
	}
	return false
}

func appShutdownScenario(how string, udp bool, rep int) {
	appShutdownScenarioWait(how, udp, rep, 300*time.Millisecond)
}

// preSignal: how long the application has been serving before it is told to stop.
func appShutdownScenarioWait(how string, udp bool, rep int, preSignal time.Duration) {
	a, err := appchild.Start(appchild.Config{UDP: udp, GracedownMs: 30000, MaxRoutine: []int{0, 2}[rep%2]})
	if err != nil {
		if a != nil {
			a.Kill()
		}
		run.Inconclusive("application child: " + err.Error())
		return
	}
	defer a.Kill()
	wit := func(extra map[string]interface{}) map[string]interface{} {
		ls := a.Lines()
		if len(ls) > 30 {
			ls = ls[len(ls)-30:]
		}
		m := map[string]interface{}{"scenario": "application:" + how, "udp_servant_too": udp, "child_output_tail": ls}
		for k, v := range extra {
			m[k] = v
		}
		return m
	}
	locus := "app:" + how
	c, err := net.DialTimeout("tcp", a.TCPAddr, 3*time.Second)
	if err != nil {
		run.Inconclusive("application child: dial: " + err.Error())
		return
	}
	defer c.Close()
	type res struct {
		rsp *netlab.Response
		err error
	}
	slow := make(chan res, 1)
	id := int32(11 + rep)
	holdMs := 1800 + int(preSignal/time.Millisecond)
	go func() {
		r, err := appchild.Exchange(c, "tcp", a.TCPObj, "sleep", id, []byte(fmt.Sprint(holdMs)), 25*time.Second)
		slow <- res{r, err}
	}()
	if !waitLine(a, fmt.Sprintf("EXEC %d ", id), 5*time.Second) {
		run.Inconclusive("application child: the slow request did not start")
		return
	}
	// an application that has just begun to serve may not have installed its signal handling yet
	time.Sleep(preSignal)
	t0 := time.Now()
	if how == "admin-command" {
		rsp, err := a.Call(a.AdminAddr, "tcp", "AdminObj", "shutdown", 77, nil, 8*time.Second)
		if err != nil || rsp.RequestID != 77 {
			run.Violation("received-request-not-answered", locus+":the-shutdown-request-itself", fmt.Sprintf("the admin servant's shutdown request (read and executed by the server) got no response within 8 s: %v", err), wit(nil))
			return
		}
	} else {
		a.Signal(syscall.SIGTERM)
	}
	r := <-slow
	if (r.err != nil || r.rsp == nil) && how == "signal" && killedBySignal(a) {
		// death by the signal's default action is no graceful shutdown gone wrong: the handler was not
		// installed.  Once more, with an application that has been serving for 3 s; if the signal
		// still kills it, it has no signal handling
		if preSignal < 3*time.Second {
			run.Add("app_signal_before_handler_installed_retried", 1)
			a.Kill()
			appShutdownScenarioWait(how, udp, rep, 3*time.Second)
			return
		}
		run.Violation("received-request-not-answered", locus+":no-signal-handling", "SIGTERM ended the application by its default action 3 s after it had begun to serve: no graceful shutdown on a signal", wit(nil))
		return
	}
	if r.err != nil || r.rsp == nil || r.rsp.RequestID != id {
		run.Violation("received-request-not-answered", locus, fmt.Sprintf("a request whose handler was running when the application was shut down (%s) got no response before its connection ended: %v (%.1f s after the shutdown began; the handler needs %d ms)", how, r.err, time.Since(t0).Seconds(), holdMs), wit(nil))
		return
	}
	if !a.WaitExit(15 * time.Second) {
		run.Violation("shutdown-does-not-return", locus, fmt.Sprintf("15 s after every request was answered the application has not ended (%s; grace period 30 s resp. 60 s)", how), wit(nil))
		return
	}
	joined := strings.Join(a.Lines(), "\n")
	if !strings.Contains(joined, "RUN-RETURNED") {
		run.Violation("process-death", locus, "the application process ended without Run() returning", wit(nil))
		return
	}
	run.Eval(1)
	run.Distinct(fmt.Sprintf("app-shutdown|%s|udp%v|pool%d", how, udp, rep%2))
}
