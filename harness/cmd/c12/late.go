// C12, two further families of executions (seventh round):
//
//  slowDrainScenario — the response a request is owed is far larger than the socket buffers and its
//  client drains it slowly; Shutdown is called while the handler is in the middle of writing it.
//  "Its response written before that connection is closed" means the whole response: the client
//  must receive every announced byte before EOF, whatever the close tickers (500 ms) and the 2 s
//  idle rule do meanwhile.
//
//  splitRequestScenario — a connection has been answered and is quiet; the first bytes of one more
//  request are on the wire when Shutdown is called, the rest follows while the connection is still
//  open.  Whatever the server reads (frames) from a connection it has to execute and answer before
//  it closes that connection, and Shutdown returns when the connections have drained, not at its
//  context's end.  The server may also close the connection without reading the request (then the
//  request was not received and nothing is owed): only framed requests are judged.
package main

import (
	"context"
	"crypto/tls"
	"encoding/binary"
	"fmt"
	"io"
	"net"
	"time"

	"verif/netlab"
)

const bigResponse = 12 << 20

func dialScenario(addr string, tlsOn bool) (net.Conn, error) {
	if tlsOn {
		return tls.DialWithDialer(&net.Dialer{Timeout: 3 * time.Second}, "tcp", addr, &tls.Config{InsecureSkipVerify: true})
	}
	return net.DialTimeout("tcp", addr, 3*time.Second)
}

func slowDrainScenario(id, pool int, tlsOn bool, chunk int, pause time.Duration) {
	w := &world{reqs: map[[2]int]*reqState{}, openNew: true}
	p := &gateProto{w: w}
	conf := netlab.DefaultServerConf("tcp")
	conf.MaxInvoke = int32(pool)
	conf.QueueCap = 1000
	if tlsOn {
		tc, err := netlab.SelfSignedTLS()
		if err != nil {
			run.Inconclusive("cannot make a certificate: " + err.Error())
			return
		}
		conf.TlsConfig = tc
	}
	ts, err := netlab.StartServer(p, conf)
	if err != nil {
		run.Inconclusive("cannot start server")
		return
	}
	locus := fmt.Sprintf("pool%d:large-response-slow-reader", min(pool, 1))
	desc := map[string]interface{}{"id": id, "pool": pool, "tls": tlsOn, "response_bytes": bigResponse + 16, "client_reads_bytes_per_step": chunk, "client_pause_ms": pause.Milliseconds()}
	cn, err := dialScenario(conf.Address, tlsOn)
	if err != nil {
		run.Inconclusive("dial failed: " + err.Error())
		return
	}
	defer cn.Close()
	if tc, ok := cn.(*net.TCPConn); ok {
		_ = tc.SetReadBuffer(64 << 10)
	}
	// a second, ordinary client on the same server: it has to be answered and notified as usual
	other, err := dialScenario(conf.Address, tlsOn)
	if err != nil {
		run.Inconclusive("dial failed: " + err.Error())
		return
	}
	defer other.Close()
	ob := make([]byte, 9)
	binary.BigEndian.PutUint32(ob, 1)
	ofr := &netlab.FrameReader{Conn: other}
	if _, err := other.Write(netlab.Frame(ob)); err != nil {
		run.Inconclusive("write failed")
		return
	}
	if f, err := ofr.Next(10 * time.Second); err != nil || len(f) < 16 || string(f[4:8]) != "RSP:" {
		run.Inconclusive("the ordinary client's request was not answered before the shutdown")
		return
	}
	otherNotice := make(chan bool, 1)
	go func() {
		seen := false
		for {
			f, err := ofr.Next(40 * time.Second)
			if err != nil {
				otherNotice <- seen
				return
			}
			if string(f[4:]) == "CLOSE-NOTICE" {
				seen = true
			}
		}
	}()
	b := make([]byte, 9)
	binary.BigEndian.PutUint32(b, 0)
	binary.BigEndian.PutUint32(b[4:], 0)
	b[8] = 3
	if _, err := cn.Write(netlab.Frame(b)); err != nil {
		run.Inconclusive("write failed")
		return
	}
	// the head of the response: the handler is inside Write from here on
	head := make([]byte, 16)
	_ = cn.SetReadDeadline(time.Now().Add(10 * time.Second))
	if _, err := io.ReadFull(cn, head); err != nil {
		run.Inconclusive("the large response did not begin within 10 s: " + err.Error())
		return
	}
	announced := int(binary.BigEndian.Uint32(head))
	if announced != bigResponse+16 || string(head[4:8]) != "BIG:" {
		run.Violation("received-request-not-answered", locus, fmt.Sprintf("the response to the large-response request begins with %x, not with the frame the handler returned", head), desc)
		return
	}
	time.Sleep(150 * time.Millisecond) // the socket buffers are full by now, Write is blocked
	ctxMs := 20000
	ctx, cancel := context.WithTimeout(context.Background(), time.Duration(ctxMs)*time.Millisecond)
	defer cancel()
	t0 := time.Now()
	done := make(chan time.Duration, 1)
	go func() {
		_ = ts.Shutdown(ctx)
		done <- time.Since(t0)
	}()
	got := 16
	buf := make([]byte, chunk)
	var rerr error
	for got < announced {
		time.Sleep(pause)
		want := min(chunk, announced-got)
		_ = cn.SetReadDeadline(time.Now().Add(15 * time.Second))
		n, err := io.ReadFull(cn, buf[:want])
		got += n
		if err != nil {
			rerr = err
			break
		}
	}
	drained := time.Since(t0)
	if got < announced {
		run.Violation("response-cut-short", locus, fmt.Sprintf("a request read before Shutdown was called was owed a response of %d bytes; its connection ended (%v) after %d bytes, %v after the Shutdown call, while the handler was still writing", announced, rerr, got, drained.Round(time.Millisecond)),
			map[string]interface{}{"scenario": desc, "bytes_received": got, "bytes_announced": announced, "ended_with": fmt.Sprint(rerr), "ms_after_shutdown_call": drained.Milliseconds()})
		return
	}
	// after the response: the close notice, then EOF
	fr := &netlab.FrameReader{Conn: cn}
	notice := false
	for {
		f, err := fr.Next(15 * time.Second)
		if err != nil {
			break
		}
		if string(f[4:]) == "CLOSE-NOTICE" {
			notice = true
		}
	}
	if !notice {
		run.Violation("no-close-notice", locus, "the connection that was receiving a large response got no reconnect notice after it", desc)
		return
	}
	select {
	case took := <-done:
		if took >= time.Duration(ctxMs)*time.Millisecond {
			run.Violation("shutdown-waits-for-context", locus, fmt.Sprintf("the response was fully read after %v but Shutdown returned only at its context deadline (%v of %d ms)", drained, took, ctxMs), desc)
			return
		}
		run.Distinct(fmt.Sprintf("slow-drain|%d|%v|%d|%d", pool, tlsOn, chunk, took.Milliseconds()/250))
	case <-time.After(time.Duration(ctxMs)*time.Millisecond + 10*time.Second):
		run.Violation("shutdown-does-not-return", locus, "Shutdown did not return within its context + 10 s", desc)
		return
	}
	select {
	case seen := <-otherNotice:
		if !seen {
			run.Violation("no-close-notice", locus, "the ordinary client next to the slow reader received no reconnect notice", desc)
			return
		}
	case <-time.After(10 * time.Second):
		run.Violation("connection-not-closed", locus, "Shutdown returned but the ordinary client's connection was still open 10 s later", desc)
		return
	}
	run.Eval(1)
	run.Add("large_responses_drained_across_shutdown", 1)
	run.Add("large_response_bytes_observed", int64(got))
}

func splitRequestScenario(id, pool, conns, firstPart int, lateMs int, tlsOn bool) {
	w := &world{reqs: map[[2]int]*reqState{}, openNew: true}
	p := &gateProto{w: w}
	conf := netlab.DefaultServerConf("tcp")
	conf.MaxInvoke = int32(pool)
	conf.QueueCap = 1000
	if tlsOn {
		tc, err := netlab.SelfSignedTLS()
		if err != nil {
			run.Inconclusive("cannot make a certificate: " + err.Error())
			return
		}
		conf.TlsConfig = tc
	}
	ts, err := netlab.StartServer(p, conf)
	if err != nil {
		run.Inconclusive("cannot start server")
		return
	}
	locus := fmt.Sprintf("pool%d:request-completed-during-shutdown", min(pool, 1))
	desc := map[string]interface{}{"id": id, "pool": pool, "connections": conns, "tls": tlsOn, "bytes_of_the_request_sent_before_shutdown": firstPart, "rest_sent_ms_after_shutdown_call": lateMs}
	ctxMs := 9000
	type cres struct {
		warm, late, notice int
		err               string
	}
	cs := make([]net.Conn, conns)
	rs := make([]*cres, conns)
	frames := make([][]byte, conns)
	for c := 0; c < conns; c++ {
		cn, err := dialScenario(conf.Address, tlsOn)
		if err != nil {
			run.Inconclusive("dial failed: " + err.Error())
			return
		}
		defer cn.Close()
		cs[c], rs[c] = cn, &cres{}
		mk := func(seq int) []byte {
			b := make([]byte, 9)
			binary.BigEndian.PutUint32(b, uint32(c))
			binary.BigEndian.PutUint32(b[4:], uint32(seq))
			return netlab.Frame(b)
		}
		frames[c] = mk(1)
		// a warm-up request, answered at once: nothing is in flight when the shutdown begins
		if _, err := cn.Write(mk(0)); err != nil {
			run.Inconclusive("write failed")
			return
		}
		fr := &netlab.FrameReader{Conn: cn}
		f, err := fr.Next(10 * time.Second)
		if err != nil || len(f) < 16 || string(f[4:8]) != "RSP:" {
			run.Inconclusive("the warm-up request was not answered")
			return
		}
		rs[c].warm = 1
		if _, err := cn.Write(frames[c][:firstPart]); err != nil {
			run.Inconclusive("write failed")
			return
		}
	}
	time.Sleep(60 * time.Millisecond) // the first bytes have been read into the receive loops' buffers
	ctx, cancel := context.WithTimeout(context.Background(), time.Duration(ctxMs)*time.Millisecond)
	defer cancel()
	shutdownCall := tick()
	t0 := time.Now()
	done := make(chan time.Duration, 1)
	go func() {
		_ = ts.Shutdown(ctx)
		done <- time.Since(t0)
	}()
	readers := make(chan int, conns)
	for c := 0; c < conns; c++ {
		go func(c int) {
			fr := &netlab.FrameReader{Conn: cs[c]}
			for {
				f, err := fr.Next(time.Duration(ctxMs)*time.Millisecond + 10*time.Second)
				if err != nil {
					rs[c].err = err.Error()
					readers <- c
					return
				}
				switch {
				case len(f) >= 16 && string(f[4:8]) == "RSP:" && binary.BigEndian.Uint32(f[12:]) == 1:
					rs[c].late++
				case string(f[4:]) == "CLOSE-NOTICE":
					rs[c].notice++
				}
			}
		}(c)
	}
	time.Sleep(time.Duration(lateMs) * time.Millisecond)
	for c := 0; c < conns; c++ {
		_, _ = cs[c].Write(frames[c][firstPart:]) // fails when the server has closed the connection meanwhile: then nothing was received
	}
	var took time.Duration
	select {
	case took = <-done:
	case <-time.After(time.Duration(ctxMs)*time.Millisecond + 10*time.Second):
		run.Violation("shutdown-does-not-return", locus, "Shutdown did not return within its context + 10 s", desc)
		return
	}
	for c := 0; c < conns; c++ {
		select {
		case <-readers:
		case <-time.After(8 * time.Second):
		}
	}
	read, answered := 0, 0
	for c := 0; c < conns; c++ {
		r := w.get(c, 1)
		if r.framed.Load() == 0 {
			continue // the server never read it: nothing owed
		}
		read++
		switch n := rs[c].late; {
		case n == 1:
			answered++
		case n > 1:
			run.Violation("request-answered-twice", locus, fmt.Sprintf("the request completed during the shutdown was answered %d times", n), desc)
			return
		default:
			run.Violation("received-request-not-answered", locus, fmt.Sprintf("connection %d: the server read a request whose last bytes arrived %d ms after Shutdown was called (framed at stamp %d, Shutdown called at stamp %d, handler started: %v) and closed the connection (%s) without answering it; Shutdown took %v of a %d ms context",
				c, lateMs, r.framed.Load(), shutdownCall, r.started.Load() != 0, rs[c].err, took.Round(time.Millisecond), ctxMs),
				map[string]interface{}{"scenario": desc, "framed_stamp": r.framed.Load(), "shutdown_call_stamp": shutdownCall, "started_stamp": r.started.Load(), "shutdown_took_ms": took.Milliseconds()})
			return
		}
	}
	if took >= time.Duration(ctxMs)*time.Millisecond {
		run.Violation("shutdown-waits-for-context", locus, fmt.Sprintf("every handler had finished (%d requests read during the shutdown, %d answered) but Shutdown returned only at its context deadline (%v of %d ms)", read, answered, took, ctxMs), desc)
		return
	}
	for c := 0; c < conns; c++ {
		if rs[c].notice == 0 {
			run.Violation("no-close-notice", locus, fmt.Sprintf("connection %d received no reconnect notice (ended with %s)", c, rs[c].err), desc)
			return
		}
	}
	run.Eval(1)
	run.Add("requests_completed_during_shutdown_read_by_the_server", int64(read))
	run.Add("requests_completed_during_shutdown_answered", int64(answered))
	run.Distinct(fmt.Sprintf("split|%d|%d|%d|%d|%v|%d", pool, conns, firstPart, lateMs, tlsOn, read))
}
