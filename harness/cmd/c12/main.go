// C12 — graceful shutdown answers every request already received.
//
// Monitor: a real transport.TarsServer runs a monitor-owned ServerProtocol whose ParsePackage
// (delegating to the real framing function) stamps "framed" on a logical clock, whose Invoke
// blocks on a per-request gate opened by the monitor, and whose GetCloseMsg returns a recognisable
// frame.  Raw clients pipeline requests on c connections so that at the shutdown moment requests
// are running, queued in the worker pool and framed-but-not-started by construction; Shutdown(ctx)
// is called, gates open per script, clients read until EOF.  Oracle: every request framed before
// the Shutdown call whose gate was opened gets exactly one response before its connection reaches
// EOF; every connection receives the close notice; Shutdown returns once all drained (all gates
// open) or by its context deadline (+slack) otherwise.
package main

import (
	"context"
	"crypto/tls"
	"encoding/binary"
	"fmt"
	"net"
	"sync"
	"sync/atomic"
	"time"
	"verif/appchild"

	"github.com/TarsCloud/TarsGo/tars/protocol"
	"github.com/TarsCloud/TarsGo/tars/protocol/res/basef"
	"github.com/TarsCloud/TarsGo/tars/transport"
	"github.com/TarsCloud/TarsGo/tars/util/current"
	"github.com/TarsCloud/TarsGo/tars/util/rogger"

	"verif/netlab"
	"verif/vlib"
)

var run *vlib.Run
var clock atomic.Int64

func tick() int64 { return clock.Add(1) }

type reqState struct {
	conn, seq  int
	framed     atomic.Int64
	started    atomic.Int64
	finished   atomic.Int64
	gate       chan struct{}
	gateOpened atomic.Int64
	responses  atomic.Int32
	oneway     atomic.Bool
}

type world struct {
	mu           sync.Mutex
	reqs         map[[2]int]*reqState
	openNew      bool // requests that appear from now on are not gated
	stuckStarted atomic.Bool
}

func (w *world) get(conn, seq int) *reqState {
	w.mu.Lock()
	defer w.mu.Unlock()
	k := [2]int{conn, seq}
	r := w.reqs[k]
	if r == nil {
		r = &reqState{conn: conn, seq: seq, gate: make(chan struct{})}
		if w.openNew {
			r.gateOpened.Store(tick())
			close(r.gate)
		}
		w.reqs[k] = r
	}
	return r
}

type gateProto struct{ w *world }

func ids(pkg []byte) (int, int, bool) {
	if len(pkg) < 12 {
		return 0, 0, false
	}
	return int(binary.BigEndian.Uint32(pkg[4:])), int(binary.BigEndian.Uint32(pkg[8:])), true
}

func (p *gateProto) ParsePackage(buff []byte) (int, int) {
	n, st := protocol.TarsRequest(buff)
	if st == transport.PackageFull {
		if c, s, ok := ids(buff[:n]); ok && !(n > 12 && buff[12] == 2) {
			p.w.get(c, s).framed.CompareAndSwap(0, tick())
		}
	}
	return n, st
}

func (p *gateProto) Invoke(ctx context.Context, pkg []byte) []byte {
	c, s, _ := ids(pkg)
	if len(pkg) > 12 && pkg[12] == 2 {
		// the request of the client that never reads: a response far larger than the socket buffers
		p.w.stuckStarted.Store(true)
		return netlab.Frame(make([]byte, 32<<20))
	}
	r := p.w.get(c, s)
	r.started.Store(tick())
	<-r.gate
	r.finished.Store(tick())
	if len(pkg) > 12 && pkg[12] == 3 {
		// a response far larger than the socket buffers, to a client that reads it slowly (late.go)
		current.SetPacketTypeFromContext(ctx, basef.TARSNORMAL)
		b := make([]byte, 12+bigResponse)
		copy(b, "BIG:")
		binary.BigEndian.PutUint32(b[4:], uint32(c))
		binary.BigEndian.PutUint32(b[8:], uint32(s))
		return netlab.Frame(b)
	}
	if len(pkg) > 12 && pkg[12] == 1 {
		// a one-way request: the real protocol layer records the packet type in the context
		current.SetPacketTypeFromContext(ctx, basef.TARSONEWAY)
		r.oneway.Store(true)
		return nil
	}
	current.SetPacketTypeFromContext(ctx, basef.TARSNORMAL)
	b := make([]byte, 12)
	copy(b, "RSP:")
	binary.BigEndian.PutUint32(b[4:], uint32(c))
	binary.BigEndian.PutUint32(b[8:], uint32(s))
	return netlab.Frame(b)
}
func (p *gateProto) InvokeTimeout(pkg []byte) []byte { return netlab.Frame([]byte("TIMEOUT")) }
func (p *gateProto) GetCloseMsg() []byte             { return netlab.Frame([]byte("CLOSE-NOTICE")) }
func (p *gateProto) DoClose(ctx context.Context)     {}

type scenario struct {
	ID               int           `json:"id"`
	Pool             int           `json:"pool"`
	Conns            int           `json:"connections"`
	PerConn          int           `json:"requests_per_connection"`
	Script           string        `json:"gate_script"`
	CtxMs            int           `json:"shutdown_context_ms"`
	LateConns        int           `json:"connections_sending_after_shutdown_call"`
	Delay            time.Duration `json:"-"`
	DelayMs          int           `json:"gate_delay_ms"`
	ResetConn        int           `json:"connections_reset_by_client_before_shutdown"`
	OneWay           bool          `json:"every_other_request_one_way"`
	TLS              bool          `json:"tls"`
	IdleMs           int           `json:"connections_idle_ms_before_shutdown"` // with requests_per_connection = 0: clients that only sit there
	RawPeer          bool          `json:"tcp_peer_that_never_starts_the_tls_handshake"`
	SecondShutdownMs int           `json:"second_shutdown_call_after_ms"`        // a second, overlapping Shutdown call (admin command, then a signal)
	StuckReader      bool          `json:"one_more_client_that_stopped_reading"` // it is owed a 32 MiB response and never reads: its handler and the close notice block in Write
	BusyConns        int           `json:"connections_with_requests"`            // > 0: only the first that many connections send requests, the others just sit there
	Unbuffered       bool          `json:"pool_queue_capacity_0"`                // receive loops hand their requests over to the workers directly
}

type connResult struct {
	responses map[int]int
	notice    int
	eof       bool
	eofStamp  int64
	err       string
}

func runScenario(sc scenario) {
	w := &world{reqs: map[[2]int]*reqState{}}
	p := &gateProto{w: w}
	conf := netlab.DefaultServerConf("tcp")
	conf.MaxInvoke = int32(sc.Pool)
	conf.QueueCap = 100000
	if sc.Unbuffered {
		conf.QueueCap = 0
	}
	if sc.TLS {
		tc, err := netlab.SelfSignedTLS()
		if err != nil {
			run.Inconclusive("cannot make a certificate: " + err.Error())
			return
		}
		conf.TlsConfig = tc
	}
	ts, err := netlab.StartServer(p, conf)
	if err != nil {
		run.Inconclusive("cannot start server")
		return
	}
	conns := make([]net.Conn, sc.Conns)
	results := make([]*connResult, sc.Conns)
	var rwg sync.WaitGroup
	for c := 0; c < sc.Conns; c++ {
		var cn net.Conn
		var err error
		if sc.TLS {
			cn, err = tls.DialWithDialer(&net.Dialer{Timeout: 3 * time.Second}, "tcp", conf.Address, &tls.Config{InsecureSkipVerify: true})
		} else {
			cn, err = net.DialTimeout("tcp", conf.Address, 3*time.Second)
		}
		if err != nil {
			run.Inconclusive("dial failed: " + err.Error())
			return
		}
		conns[c] = cn
		results[c] = &connResult{responses: map[int]int{}}
		var stream []byte
		for s := 0; s < sc.PerConn && (sc.BusyConns == 0 || c < sc.BusyConns); s++ {
			b := make([]byte, 9)
			binary.BigEndian.PutUint32(b, uint32(c))
			binary.BigEndian.PutUint32(b[4:], uint32(s))
			if sc.OneWay && s%2 == 0 {
				b[8] = 1
			}
			stream = append(stream, netlab.Frame(b)...)
		}
		if _, err := cn.Write(stream); err != nil {
			run.Inconclusive("write failed")
			return
		}
		rwg.Add(1)
		go func(c int, cn net.Conn) {
			defer rwg.Done()
			fr := &netlab.FrameReader{Conn: cn}
			res := results[c]
			for {
				f, err := fr.Next(time.Duration(sc.CtxMs)*time.Millisecond + 15*time.Second)
				if err != nil {
					res.eof = err.Error() == "EOF" || fr.Pending() == 0 && err != netlab.ErrTimeout
					res.eofStamp = tick()
					res.err = err.Error()
					return
				}
				switch {
				case len(f) >= 16 && string(f[4:8]) == "RSP:":
					s := int(binary.BigEndian.Uint32(f[12:]))
					res.responses[s]++
					w.get(c, s).responses.Add(1)
				case string(f[4:]) == "CLOSE-NOTICE":
					res.notice++
				}
			}
		}(c, cn)
	}
	if sc.RawPeer {
		// a peer that opened the TCP connection to the TLS port and says nothing (a port scanner, a
		// health checker): it must not keep the shutdown from notifying the others and returning
		if rp, err := net.DialTimeout("tcp", conf.Address, 3*time.Second); err == nil {
			defer rp.Close()
			time.Sleep(50 * time.Millisecond)
		}
	}
	if sc.StuckReader {
		if st, err := net.DialTimeout("tcp", conf.Address, 3*time.Second); err == nil {
			defer st.Close()
			b := make([]byte, 9)
			binary.BigEndian.PutUint32(b, 9999)
			b[8] = 2
			_, _ = st.Write(netlab.Frame(b))
			waitFor(func() bool { return w.stuckStarted.Load() }, 3*time.Second)
			time.Sleep(100 * time.Millisecond) // its handler is in Write by now, the buffers are full
		}
	}
	total := sc.Conns * sc.PerConn
	if sc.BusyConns > 0 {
		total = sc.BusyConns * sc.PerConn
	}
	// wait until every request has been framed by the server (read from its connection)
	framedAll := waitFor(func() bool {
		n := 0
		w.mu.Lock()
		for _, r := range w.reqs {
			if r.framed.Load() != 0 {
				n++
			}
		}
		w.mu.Unlock()
		return n >= total
	}, 10*time.Second)
	if sc.Unbuffered {
		// a receive loop that is waiting to hand a request over does not read on: wait until no
		// further request gets framed; only the ones framed before the Shutdown call are judged
		last, stable := -1, 0
		for stable < 60 {
			n := 0
			w.mu.Lock()
			for _, r := range w.reqs {
				if r.framed.Load() != 0 {
					n++
				}
			}
			w.mu.Unlock()
			if n == last {
				stable++
			} else {
				last, stable = n, 0
			}
			time.Sleep(5 * time.Millisecond)
		}
		framedAll = true
	}
	if !framedAll {
		run.Inconclusive(fmt.Sprintf("not all requests were framed before shutdown (scenario %+v)", sc))
	}
	isReset := map[int]bool{}
	for c := 0; c < sc.ResetConn && c < sc.Conns; c++ {
		// the client dies abruptly while its requests are still executing
		if tc, ok := conns[c*2%sc.Conns].(*net.TCPConn); ok {
			isReset[c*2%sc.Conns] = true
			_ = tc.SetLinger(0)
			_ = tc.Close()
		}
	}
	if sc.ResetConn > 0 {
		time.Sleep(20 * time.Millisecond)
	}
	if sc.IdleMs > 0 {
		time.Sleep(time.Duration(sc.IdleMs) * time.Millisecond) // connected clients that have been idle for a while
	}
	ctx, cancel := context.WithTimeout(context.Background(), time.Duration(sc.CtxMs)*time.Millisecond)
	defer cancel()
	shutdownCall := tick()
	t0 := time.Now()
	done := make(chan int64, 1)
	go func() {
		_ = ts.Shutdown(ctx)
		done <- tick()
	}()
	var second chan [2]int64 // return stamp, duration in ms
	if sc.SecondShutdownMs > 0 {
		second = make(chan [2]int64, 1)
		go func() {
			time.Sleep(time.Duration(sc.SecondShutdownMs) * time.Millisecond)
			ctx2, cancel2 := context.WithTimeout(context.Background(), time.Duration(sc.CtxMs)*time.Millisecond)
			defer cancel2()
			t := time.Now()
			_ = ts.Shutdown(ctx2)
			second <- [2]int64{tick(), time.Since(t).Milliseconds()}
		}()
	}
	// gate script
	var all []*reqState
	w.mu.Lock()
	for _, r := range w.reqs {
		all = append(all, r)
	}
	w.mu.Unlock()
	open := func(r *reqState) {
		if r.gateOpened.CompareAndSwap(0, tick()) {
			close(r.gate)
		}
	}
	neverOpen := map[*reqState]bool{}
	switch sc.Script {
	case "all-at-once":
		time.Sleep(sc.Delay)
		for _, r := range all {
			open(r)
		}
	case "one-by-one":
		for _, r := range all {
			time.Sleep(2 * time.Millisecond)
			open(r)
		}
	case "after-notice":
		waitFor(func() bool {
			for c, res := range results {
				if res.notice == 0 && !isReset[c] {
					return false
				}
			}
			return true
		}, 3*time.Second)
		time.Sleep(sc.Delay)
		for _, r := range all {
			open(r)
		}
	case "some-never":
		for i, r := range all {
			if i%3 == 0 {
				neverOpen[r] = true
				continue
			}
			open(r)
		}
	}
	if sc.Unbuffered {
		// requests the receive loops only read once their predecessor was handed over are not in
		// `all`: they run ungated (they are not judged, but they must not hold up the drain)
		w.mu.Lock()
		w.openNew = true
		for _, r := range w.reqs {
			if !neverOpen[r] {
				open(r)
			}
		}
		w.mu.Unlock()
	}
	// gates of requests that only start later (queued ones) are opened as they come: they are in `all` already
	var retStamp int64
	var took time.Duration
	select {
	case retStamp = <-done:
		took = time.Since(t0)
	case <-time.After(time.Duration(sc.CtxMs)*time.Millisecond + 10*time.Second):
		run.Violation("shutdown-does-not-return", fmt.Sprintf("pool%d", min(sc.Pool, 1)), fmt.Sprintf("Shutdown did not return within its context (%d ms) + 10 s; scenario %+v", sc.CtxMs, sc), map[string]interface{}{"scenario": sc})
		for _, r := range all {
			open(r)
		}
		return
	}
	// let the clients reach EOF (connections are closed by the server's own pollers)
	finished := make(chan struct{})
	go func() { rwg.Wait(); close(finished) }()
	clientsDone := false
	select {
	case <-finished:
		clientsDone = true
	case <-time.After(6 * time.Second):
	}
	endStamp := tick()
	for r := range neverOpen {
		open(r)
	}
	for _, cn := range conns {
		cn.Close()
	}
	<-finished
	wit := func(extra map[string]interface{}) map[string]interface{} {
		m := map[string]interface{}{"scenario": sc, "shutdown_call_stamp": shutdownCall, "shutdown_return_stamp": retStamp, "shutdown_took_ms": took.Milliseconds()}
		for k, v := range extra {
			m[k] = v
		}
		return m
	}
	locus := fmt.Sprintf("pool%d", min(sc.Pool, 1))
	// oracle 1: requests framed before the Shutdown call whose gate was opened: exactly one response
	unanswered, dup := 0, 0
	var firstMissing *reqState
	for _, r := range all {
		if f := r.framed.Load(); f == 0 || f > shutdownCall || neverOpen[r] || isReset[r.conn] {
			continue
		}
		if st := r.started.Load(); sc.OneWay && r.seq%2 == 0 && (len(neverOpen) > 0 || sc.StuckReader) && (st == 0 || st > endStamp) {
			continue // queued behind handlers that never finish (bounded pool): not judged, like the two-way case below
		}
		if sc.OneWay && r.seq%2 == 0 {
			if r.responses.Load() != 0 {
				run.Violation("one-way-request-answered", locus, fmt.Sprintf("one-way request %d on connection %d received a response", r.seq, r.conn), wit(nil))
				return
			}
			if r.finished.Load() == 0 {
				run.Violation("received-request-not-executed", locus, fmt.Sprintf("one-way request %d on connection %d, read before Shutdown was called, was never executed; scenario %+v", r.seq, r.conn, sc), wit(nil))
				return
			}
			continue
		}
		if st := r.started.Load(); (len(neverOpen) > 0 || sc.StuckReader) && (st == 0 || st > endStamp) {
			continue // a bounded pool occupied by handlers that never finish (or cannot write their response) cannot start this one: not judged
		}
		switch n := r.responses.Load(); {
		case n == 0:
			unanswered++
			if firstMissing == nil {
				firstMissing = r
			}
		case n > 1:
			dup++
		}
	}
	if unanswered > 0 {
		run.Violation("received-request-not-answered", locus, fmt.Sprintf("%d of %d requests the server had read before Shutdown was called got no response before their connection ended (first: connection %d request %d, started=%v); scenario %+v",
			unanswered, total, firstMissing.conn, firstMissing.seq, firstMissing.started.Load() != 0, sc),
			wit(map[string]interface{}{"unanswered": unanswered, "first_unanswered": map[string]interface{}{"conn": firstMissing.conn, "seq": firstMissing.seq, "framed_stamp": firstMissing.framed.Load(), "started_stamp": firstMissing.started.Load()}}))
		return
	}
	if dup > 0 {
		run.Violation("request-answered-twice", locus, fmt.Sprintf("%d requests answered more than once", dup), wit(nil))
		return
	}
	// oracle 1b: a Shutdown call that came back before its context expired came back because
	// everything had drained: no request it had to wait for finishes after its return
	returns := [][3]int64{{retStamp, took.Milliseconds(), 1}}
	if second != nil {
		select {
		case s2 := <-second:
			returns = append(returns, [3]int64{s2[0], s2[1], 2})
		case <-time.After(time.Duration(sc.CtxMs)*time.Millisecond + 10*time.Second):
			run.Violation("shutdown-does-not-return", locus+":second-overlapping-call", fmt.Sprintf("a second Shutdown call did not return within its context (%d ms) + 10 s; scenario %+v", sc.CtxMs, sc), wit(nil))
			return
		}
	}
	for _, rt := range returns {
		if rt[1] >= int64(sc.CtxMs) {
			continue
		}
		for _, r := range all {
			if f := r.framed.Load(); f == 0 || f > shutdownCall || neverOpen[r] || isReset[r.conn] {
				continue
			}
			if st := r.started.Load(); sc.StuckReader && (st == 0 || st > endStamp) {
				continue
			}
			if fin := r.finished.Load(); fin == 0 || fin > rt[0] {
				which := map[int64]string{1: "Shutdown", 2: "a second, overlapping Shutdown call"}[rt[2]]
				loc := locus
				if rt[2] == 2 {
					loc += ":second-overlapping-call"
				}
				run.Violation("shutdown-returned-before-drained", loc, fmt.Sprintf("%s returned after %d ms (context %d ms) while request %d on connection %d, read before the shutdown began, was still executing; scenario %+v", which, rt[1], sc.CtxMs, r.seq, r.conn, sc),
					wit(map[string]interface{}{"return_stamp": rt[0], "request_finished_stamp": r.finished.Load()}))
				return
			}
		}
	}
	// oracle 2: close notice on every connection
	if len(neverOpen) == 0 {
		for c, res := range results {
			if res.notice == 0 && !isReset[c] {
				run.Violation("no-close-notice", locus, fmt.Sprintf("connection %d received no reconnect notice during graceful shutdown (responses %d, ended with %s); scenario %+v", c, len(res.responses), res.err, sc), wit(nil))
				return
			}
		}
	}
	// oracle 3: return time
	if len(neverOpen) == 0 && !sc.StuckReader {
		if took >= time.Duration(sc.CtxMs)*time.Millisecond {
			run.Violation("shutdown-waits-for-context", locus, fmt.Sprintf("all handlers finished but Shutdown returned only at its context deadline (%v of %d ms); scenario %+v", took, sc.CtxMs, sc), wit(nil))
			return
		}
		if !clientsDone {
			run.Violation("connection-not-closed", locus, fmt.Sprintf("Shutdown returned but a client connection was still open 6 s later; scenario %+v", sc), wit(nil))
			return
		}
	}
	if (len(neverOpen) > 0 || sc.StuckReader) && took > time.Duration(sc.CtxMs)*time.Millisecond+2*time.Second {
		run.Violation("shutdown-overruns-context", locus, fmt.Sprintf("Shutdown returned %v after a %d ms context", took, sc.CtxMs), wit(nil))
		return
	}
	run.Eval(1)
	run.Add("requests_observed", int64(total))
	run.Distinct(fmt.Sprintf("%d|%d|%d|%s|%d", sc.Pool, sc.Conns, sc.PerConn, sc.Script, took.Milliseconds()/250))
	if sc.ID == 3 {
		run.Sample(map[string]interface{}{"scenario": sc, "shutdown_took_ms": took.Milliseconds(), "requests": total, "events": "all framed < Shutdown call; gates opened; responses == 1 each; CLOSE-NOTICE on every connection; EOF"})
	}
}

func waitFor(cond func() bool, d time.Duration) bool {
	dl := time.Now().Add(d)
	for !cond() {
		if time.Now().After(dl) {
			return false
		}
		time.Sleep(500 * time.Microsecond)
	}
	return true
}

func main() {
	appchild.MaybeChild()
	run = vlib.Start("C12")
	rogger.SetLevel(rogger.OFF)
	run.SetRule("scenarios = pool {0,1,4} x connections {1,4,32} x pipelined requests per connection {1,3,8} x gate script {all at once (after 0/30/700 ms), one by one, after the close notice was seen, some never (context expiry)}; every request is framed by the server before Shutdown(ctx) is called, so running / queued-in-pool / framed-not-started states exist by construction. UDP servers: requests sent while an earlier request is still executing after the Shutdown call, judged when /proc/net/udp shows that the server took them from its socket (udp.go). A case is one scenario; distinct by (pool, connections, requests, script, shutdown duration bucket).")
	run.Assume("the server's own pollers (500 ms tickers, 2 s idle rule) decide when connections close; return-time verdicts use a 2 s slack and the context deadline itself")
	var scs []scenario
	id := 0
	reps := run.Pick(1, 4)
	type combo struct{ conns, per int }
	combos := []combo{{1, 1}, {1, 3}, {4, 1}, {4, 3}, {32, 8}}
	if run.Thorough() {
		combos = []combo{{1, 1}, {1, 3}, {1, 8}, {4, 1}, {4, 3}, {4, 8}, {32, 1}, {32, 3}, {32, 8}}
	}
	for rep := 0; rep < reps; rep++ {
		for _, pool := range []int{0, 1, 4} {
			for _, cb := range combos {
				for _, v := range []struct {
					script string
					delay  int
				}{{"all-at-once", 0}, {"all-at-once", 1300 + 150*rep}, {"one-by-one", 0}, {"after-notice", 700}, {"some-never", 0}} {
					id++
					scs = append(scs, scenario{ID: id, Pool: pool, Conns: cb.conns, PerConn: cb.per, Script: v.script, CtxMs: 6000, Delay: time.Duration(v.delay) * time.Millisecond, DelayMs: v.delay, OneWay: id%4 == 1})
				}
			}
			// idle clients (no request at all, connected for 2.3 s), plain and TLS: they get the notice too
			for _, tlsOn := range []bool{false, true} {
				for k := 0; k < 4; k++ { // whether the notice goes out is a race between the accept loop and the shutdown poller: several servers at once
					id++
					scs = append(scs, scenario{ID: id, Pool: pool, Conns: 3 + k, PerConn: 0, Script: "all-at-once", CtxMs: 6000, TLS: tlsOn, IdleMs: 2300})
				}
				id++
				scs = append(scs, scenario{ID: id, Pool: pool, Conns: 3, PerConn: 2, Script: "all-at-once", CtxMs: 6000, Delay: 300 * time.Millisecond, DelayMs: 300, TLS: tlsOn})
			}
			id++
			scs = append(scs, scenario{ID: id, Pool: pool, Conns: 3, PerConn: 1, Script: "all-at-once", CtxMs: 4000, Delay: 200 * time.Millisecond, DelayMs: 200, TLS: true, RawPeer: true})
			// many connections that have been idle for a while next to one with a request in flight: the
			// shutdown is over when the busy one has drained, whichever connection the poller looks at last
			for k := 0; k < 2; k++ {
				id++
				scs = append(scs, scenario{ID: id, Pool: pool, Conns: 16, BusyConns: 1, PerConn: 1, Script: "all-at-once", CtxMs: 8000, Delay: 1500 * time.Millisecond, DelayMs: 1500, IdleMs: 2300})
			}
			// one client has stopped reading while it is owed a large response: the others are notified
			// and answered all the same, and Shutdown still returns when its context ends
			id++
			scs = append(scs, scenario{ID: id, Pool: pool, Conns: 3, PerConn: 1, Script: "all-at-once", CtxMs: 2500, Delay: 200 * time.Millisecond, DelayMs: 200, StuckReader: true})
			// a handler that finishes well after the close notice went out (more than 3 s later)
			id++
			scs = append(scs, scenario{ID: id, Pool: pool, Conns: 2, PerConn: 1, Script: "all-at-once", CtxMs: 9000, Delay: 4300 * time.Millisecond, DelayMs: 4300})
			// a second Shutdown call while the first is draining (an admin command followed by a signal)
			id++
			scs = append(scs, scenario{ID: id, Pool: pool, Conns: 3, PerConn: 2, Script: "all-at-once", CtxMs: 6000, Delay: 1200 * time.Millisecond, DelayMs: 1200, SecondShutdownMs: 250})
			if pool > 0 {
				// no queue between the receive loops and the workers: more requests read than workers
				id++
				scs = append(scs, scenario{ID: id, Pool: pool, Conns: 4 + 2*pool, PerConn: 2, Script: "all-at-once", CtxMs: 6000, Delay: 300 * time.Millisecond, DelayMs: 300, Unbuffered: true})
				id++
				scs = append(scs, scenario{ID: id, Pool: pool, Conns: 4 + 2*pool, PerConn: 2, Script: "one-by-one", CtxMs: 6000, Unbuffered: true})
			}
			// clients that die by reset while their requests execute; healthy ones must still get the notice
			id++
			scs = append(scs, scenario{ID: id, Pool: pool, Conns: 12, PerConn: 1, Script: "after-notice", CtxMs: 6000, Delay: 300 * time.Millisecond, DelayMs: 300, ResetConn: 6})
		}
	}
	// every scenario spends >= 2.5 s in the server's own polling: run them in parallel
	sem := make(chan struct{}, 32)
	var wg sync.WaitGroup
	special := func(f func()) {
		wg.Add(1)
		sem <- struct{}{}
		go func() {
			defer wg.Done()
			defer func() { <-sem }()
			f()
		}()
	}
	for rep := 0; rep < reps; rep++ {
		for _, pool := range []int{0, 1, 4} {
			for k, tlsOn := range []bool{false, true} {
				id++
				sid, pool, tlsOn, chunk := id, pool, tlsOn, (256<<10)>>uint(rep%2)
				pause := time.Duration(70+20*k+35*(rep%2)) * time.Millisecond
				special(func() { slowDrainScenario(sid, pool, tlsOn, chunk, pause) })
			}
			for k, late := range []int{250, 700, 1300, 1900} {
				id++
				sid, pool, late := id, pool, late+130*rep
				conns, first, tlsOn := 1+k%3, []int{1, 3, 4, 6, 12}[(k+rep)%5], k == 2
				special(func() { splitRequestScenario(sid, pool, conns, first, late, tlsOn) })
			}
			for k, lateMs := range []int{120, 600, 1400} {
				id++
				sid, pool, n, lateMs := id, pool, 1+(k+rep)%3, lateMs+90*rep
				special(func() { udpScenario(sid, pool, n, lateMs) })
			}
		}
	}
	for _, sc := range scs {
		wg.Add(1)
		sem <- struct{}{}
		go func(sc scenario) {
			defer wg.Done()
			defer func() { <-sem }()
			runScenario(sc)
		}(sc)
	}
	wg.Wait()
	appPhase()
	run.Finish()
}
