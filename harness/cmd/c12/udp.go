// C12 over the datagram transport.  A UDP server keeps its socket open during a graceful shutdown
// for as long as requests are executing, and its receive loop is the only reader of that socket.
// A request that the server takes from the socket in that phase has been read: it must be executed
// and answered before the socket is closed, exactly like a request read from a TCP connection.
//
// "Read" is observed at the boundary, not assumed: /proc/net/udp lists the server's socket with the
// number of bytes waiting in its receive queue and its drop counter.  A late request counts as read
// when, after it was sent, the socket is still listed, its receive queue is empty and nothing was
// dropped.  A late request that was never taken from the socket is not judged.
package main

import (
	"bufio"
	"context"
	"encoding/binary"
	"fmt"
	"net"
	"os"
	"strconv"
	"strings"
	"time"
	"verif/netlab"
)

type udpSock struct {
	listed      bool
	rxQueue     int64
	drops       int64
	unparseable bool
}

// udpSocketState looks the server's socket up by its local port.
func udpSocketState(port int) udpSock {
	f, err := os.Open("/proc/net/udp")
	if err != nil {
		return udpSock{unparseable: true}
	}
	defer f.Close()
	want := fmt.Sprintf("0100007F:%04X", port)
	sc := bufio.NewScanner(f)
	for sc.Scan() {
		fs := strings.Fields(sc.Text())
		if len(fs) < 13 || fs[1] != want {
			continue
		}
		q := strings.Split(fs[4], ":")
		if len(q) != 2 {
			return udpSock{unparseable: true}
		}
		rx, err1 := strconv.ParseInt(q[1], 16, 64)
		dr, err2 := strconv.ParseInt(fs[12], 10, 64)
		if err1 != nil || err2 != nil {
			return udpSock{unparseable: true}
		}
		return udpSock{listed: true, rxQueue: rx, drops: dr}
	}
	return udpSock{}
}

func udpScenario(id, pool, late int, lateMs int) {
	w := &world{reqs: map[[2]int]*reqState{}}
	p := &gateProto{w: w}
	conf := netlab.DefaultServerConf("udp")
	conf.MaxInvoke = int32(pool)
	conf.QueueCap = 1000
	ts, err := netlab.StartServer(p, conf)
	if err != nil {
		run.Inconclusive("cannot start udp server")
		return
	}
	locus := fmt.Sprintf("pool%d:udp-request-read-during-shutdown", min(pool, 1))
	desc := map[string]interface{}{"id": id, "pool": pool, "transport": "udp", "late_requests": late, "sent_ms_after_shutdown_call": lateMs}
	_, ps, _ := net.SplitHostPort(conf.Address)
	port, _ := strconv.Atoi(ps)
	raddr, _ := net.ResolveUDPAddr("udp4", conf.Address)
	cn, err := net.DialUDP("udp4", nil, raddr)
	if err != nil {
		run.Inconclusive("udp dial failed")
		return
	}
	defer cn.Close()
	mk := func(seq int) []byte {
		b := make([]byte, 9)
		binary.BigEndian.PutUint32(b, uint32(id))
		binary.BigEndian.PutUint32(b[4:], uint32(seq))
		return netlab.Frame(b)
	}
	// responses, by sequence number
	got := make(chan int, 64)
	go func() {
		buf := make([]byte, 65535)
		for {
			n, err := cn.Read(buf)
			if err != nil {
				return
			}
			if n >= 16 && string(buf[4:8]) == "RSP:" {
				got <- int(binary.BigEndian.Uint32(buf[12:]))
			}
		}
	}()
	if st := udpSocketState(port); !st.listed || st.unparseable {
		run.Inconclusive("the server's socket is not visible in /proc/net/udp")
		return
	}
	// request 0 is executing (gated) when the shutdown begins
	if _, err := cn.Write(mk(0)); err != nil {
		run.Inconclusive("udp write failed")
		return
	}
	r0 := w.get(id, 0)
	if !waitFor(func() bool { return r0.started.Load() != 0 }, 5*time.Second) {
		run.Inconclusive("the first udp request was not started")
		return
	}
	w.mu.Lock()
	w.openNew = true
	w.mu.Unlock()
	ctx, cancel := context.WithTimeout(context.Background(), 12*time.Second)
	defer cancel()
	t0 := time.Now()
	done := make(chan time.Duration, 1)
	go func() {
		_ = ts.Shutdown(ctx)
		done <- time.Since(t0)
	}()
	time.Sleep(time.Duration(lateMs) * time.Millisecond)
	before := udpSocketState(port)
	read := 0
	var readSeqs []int
	var lastState udpSock
	answered := map[int]bool{}
	for k := 1; k <= late; k++ {
		if _, err := cn.Write(mk(k)); err != nil {
			break
		}
		// taken from the socket by the server?
		ok := waitFor(func() bool {
			st := udpSocketState(port)
			return !st.listed || st.rxQueue == 0
		}, 2*time.Second)
		st := udpSocketState(port)
		if !ok || !st.listed || st.unparseable || st.rxQueue != 0 || st.drops != before.drops || !before.listed {
			run.Add("udp_late_requests_not_read", 1)
			continue
		}
		read++
		run.Add("udp_late_requests_read_by_server", 1)
		readSeqs = append(readSeqs, k)
		lastState = st
	}
	// with a pool of one worker a late request waits behind request 0: everything is judged after
	// the gate has been opened; the socket must stay open until the read requests are answered
	r0.gateOpened.Store(tick())
	close(r0.gate)
	deadline := time.After(6 * time.Second)
	need := append([]int{0}, readSeqs...)
	missing := func() []int {
		var m []int
		for _, k := range need {
			if !answered[k] {
				m = append(m, k)
			}
		}
		return m
	}
wait0:
	for len(missing()) > 0 {
		select {
		case s := <-got:
			answered[s] = true
		case <-deadline:
			break wait0
		}
	}
	var took time.Duration
	select {
	case took = <-done:
	case <-time.After(15 * time.Second):
		run.Violation("shutdown-did-not-return", locus, "udp server: Shutdown had not returned 3 s after its context expired", desc)
		return
	}
	desc["shutdown_ms"] = took.Milliseconds()
	if m := missing(); len(m) > 0 {
		k := m[0]
		rs := w.get(id, k)
		desc["unanswered"], desc["framed_by_server"], desc["handler_started"] = m, rs.framed.Load() != 0, rs.started.Load() != 0
		desc["socket_after_last_read_request"] = map[string]interface{}{"listed": lastState.listed, "rx_queue": lastState.rxQueue, "drops": lastState.drops}
		if k == 0 {
			run.Violation("read-request-not-answered", locus, fmt.Sprintf("udp server (pool %d): the request executing when Shutdown was called finished and was never answered", pool), desc)
		} else {
			run.Violation("read-request-not-answered", locus, fmt.Sprintf("udp server (pool %d): request %d, sent %d ms after the Shutdown call while request 0 was still executing, was taken from the socket by the server (receive queue empty, no drops) and never answered", pool, k, lateMs), desc)
		}
		return
	}
	run.Add("udp_late_requests_answered", int64(len(readSeqs)))
	if took >= 12*time.Second {
		run.Violation("shutdown-waited-for-context", locus, fmt.Sprintf("udp server: everything was answered, yet Shutdown returned only after %v (context: 12 s)", took), desc)
		return
	}
	run.Eval(1)
	run.Distinct(fmt.Sprintf("udp|pool%d|late%d|read%d|ms%d", pool, late, read, lateMs/200))
}
