// C13 — endpoint selection: members only, strict rotation, weight-proportional.
//
// Monitors: (a) sequential model-based histories of Refresh/Add/Remove/Select on every real
// selector against an ordered-member reference model (panic = violation); (b) rotation and
// weighted-cycle counts against the formula of the property; (c) concurrent selectors + updaters
// recorded with call/return stamps and checked with porcupine against the membership model, plus
// exact rotation counts under concurrency; built with -race, race reports whose accessing frames
// lie in tars/selector are violations.  The concurrent part runs in a child process so that a
// fatal runtime error (concurrent map access, corrupted PRNG) is observed as a violation instead
// of ending the monitor.
package main

import (
	"fmt"
	"math/rand"
	"os"
	"runtime/debug"
	"sort"
	"strings"
	"sync"
	"sync/atomic"
	"time"

	"github.com/anishathalye/porcupine"

	"github.com/TarsCloud/TarsGo/tars/selector"
	"github.com/TarsCloud/TarsGo/tars/selector/consistenthash"
	"github.com/TarsCloud/TarsGo/tars/selector/modhash"
	"github.com/TarsCloud/TarsGo/tars/selector/random"
	"github.com/TarsCloud/TarsGo/tars/selector/roundrobin"
	"github.com/TarsCloud/TarsGo/tars/util/endpoint"

	"verif/selref"
	"verif/vlib"
)

type reporter interface {
	Violation(class, locus, detail string, witness interface{})
	Eval(n int64)
	Distinct(key string)
	Add(k string, n int64)
	Sample(v interface{})
	Inconclusive(what string)
}

// announce is the write-ahead log of the case about to run (child processes only).
var announce = func(v interface{}) {}

var rep reporter

var kinds = []string{"roundrobin", "random", "modhash", "conhash-ketama", "conhash-default"}

func newSelector(kind string, weighted bool) selector.Selector {
	switch kind {
	case "roundrobin":
		return roundrobin.New(weighted)
	case "random":
		return random.New(weighted)
	case "modhash":
		return modhash.New(weighted)
	case "conhash-ketama":
		return consistenthash.New(weighted, consistenthash.KetamaHash)
	}
	return consistenthash.New(weighted, consistenthash.DefaultHash)
}

type op struct {
	Kind   string   `json:"op"` // refresh add remove select
	Hosts  []string `json:"hosts,omitempty"`
	Weight []int32  `json:"weights,omitempty"`
	WType  []int32  `json:"wtypes,omitempty"`
	Code   uint32   `json:"code,omitempty"`
}

func panicLocus(stack string) string {
	for _, l := range strings.Split(stack, "\n") {
		l = strings.TrimSpace(l)
		if strings.Contains(l, "TarsGo/tars/") && strings.Contains(l, "(") && !strings.HasPrefix(l, "/") {
			if i := strings.LastIndex(l, "("); i > 0 {
				l = l[:i]
			}
			if i := strings.LastIndex(l, "/"); i >= 0 {
				l = l[i+1:]
			}
			return l
		}
	}
	return "unknown"
}

// guarded runs f and converts a panic into a violation; returns false if it panicked.
func guarded(kind string, weighted bool, history []op, f func()) (ok bool) {
	defer func() {
		if r := recover(); r != nil {
			st := string(debug.Stack())
			rep.Violation("panic", panicLocus(st), fmt.Sprintf("%s(weighted=%v): %v", kind, weighted, r),
				map[string]interface{}{"selector": kind, "weighted": weighted, "history": tail(history, 12), "panic": fmt.Sprint(r), "stack": vlib.Tail(st, 1500)})
			ok = false
		}
	}()
	f()
	return true
}

func tail(h []op, n int) []op {
	if len(h) > n {
		return h[len(h)-n:]
	}
	return h
}

// eligible reports whether Select must succeed on the model.
func eligible(kind string, weighted bool, m *selref.Model) bool {
	if len(m.Eps) == 0 {
		return false
	}
	if weighted && strings.HasPrefix(kind, "conhash") {
		for _, e := range m.Eps {
			if e.Weight > 0 {
				return true
			}
		}
		return false
	}
	return true
}

type weightMode int

const (
	wNone weightMode = iota // weight type 0
	wStaticPos
	wStaticHostile
	wMixed
)

// capWeight keeps weights of weighted consistent hashing in a range where the ring (4 points per
// 4 weight units, by design linear in the weight) stays small.
func capWeight(kind string, e endpoint.Endpoint) endpoint.Endpoint {
	if strings.HasPrefix(kind, "conhash") && e.Weight > 2000 {
		e.Weight = 2000
	}
	return e
}

// hostPool, when set, replaces the numbered universe: the hosts histories draw from.
var hostPool []string

func drawEP(r *rand.Rand, universe int, wm weightMode) endpoint.Endpoint {
	host := fmt.Sprintf("10.0.%d.%d", r.Intn(universe)/250, r.Intn(universe)%250+1)
	if hostPool != nil {
		host = hostPool[r.Intn(len(hostPool))]
	}
	switch wm {
	case wStaticPos:
		ws := []int32{1, 1, 2, 3, 5, 10, 50, 99, 100, 101, 250, 1000, 9999, 2147483647}
		return selref.EP(host, ws[r.Intn(len(ws))], 1)
	case wStaticHostile:
		ws := []int32{0, 0, -1, -5, -100, -101, -2147483648, 1, 7, 100, 2147483647, -60}
		return selref.EP(host, ws[r.Intn(len(ws))], 1)
	case wMixed:
		return selref.EP(host, int32(r.Intn(200)-20), int32(r.Intn(2)))
	}
	return selref.EP(host, -1, 0)
}

// sequentialHistory runs one seeded history on one selector against the model.
func sequentialHistory(r *rand.Rand, kind string, weighted bool, wm weightMode, universe, length int) {
	sel := newSelector(kind, weighted)
	m := &selref.Model{}
	var hist []op
	wit := func() map[string]interface{} {
		return map[string]interface{}{"selector": kind, "weighted": weighted, "history": tail(hist, 14), "members": m.Hosts()}
	}
	for step := 0; step < length; step++ {
		switch c := r.Intn(10); {
		case c == 0: // refresh
			n := r.Intn(universe + 1)
			if r.Intn(6) == 0 {
				n = 0
			}
			eps := make([]endpoint.Endpoint, n)
			o := op{Kind: "refresh"}
			for i := range eps {
				eps[i] = capWeight(kind, drawEP(r, universe, wm))
				o.Hosts, o.Weight, o.WType = append(o.Hosts, eps[i].Host), append(o.Weight, eps[i].Weight), append(o.WType, eps[i].WeightType)
			}
			hist = append(hist, o)
			announce(map[string]interface{}{"selector": kind, "weighted": weighted, "about_to": o, "members": m.Hosts()})
			if !guarded(kind, weighted, hist, func() { sel.Refresh(eps) }) {
				return
			}
			m.Refresh(eps)
		case c <= 2: // add
			e := capWeight(kind, drawEP(r, universe, wm))
			hist = append(hist, op{Kind: "add", Hosts: []string{e.Host}, Weight: []int32{e.Weight}, WType: []int32{e.WeightType}})
			announce(map[string]interface{}{"selector": kind, "weighted": weighted, "about_to": hist[len(hist)-1], "members": m.Hosts()})
			var err error
			if !guarded(kind, weighted, hist, func() { err = sel.Add(e) }) {
				return
			}
			want := m.Add(e)
			if (err == nil) != want {
				rep.Violation("membership-error", kind+":add", fmt.Sprintf("Add(%s) err=%v, host was member=%v", e.Host, err, !want), wit())
				return
			}
		case c <= 4: // remove (by the stored endpoint value, as the manager does, or a stranger)
			var e endpoint.Endpoint
			if len(m.Eps) > 0 && r.Intn(4) != 0 {
				e = m.Eps[r.Intn(len(m.Eps))]
			} else {
				e = capWeight(kind, drawEP(r, universe, wm))
				for _, x := range m.Eps { // a member is always removed by its stored value
					if x.Host == e.Host {
						e = x
					}
				}
			}
			if r.Intn(3) == 0 {
				// a member is identified by its host: the caller's description may have changed in
				// other fields since it was installed (the registry changed its weight, say)
				e.Weight = e.Weight%7 + 1
				e.Timeout += 1000
			}
			hist = append(hist, op{Kind: "remove", Hosts: []string{e.Host}})
			var err error
			if !guarded(kind, weighted, hist, func() { err = sel.Remove(e) }) {
				return
			}
			want := m.Remove(e.Host)
			if (err == nil) != want {
				rep.Violation("membership-error", kind+":remove", fmt.Sprintf("Remove(%s) err=%v, host was member=%v", e.Host, err, want), wit())
				return
			}
		default: // select
			code := r.Uint32()
			if r.Intn(4) == 0 {
				code = []uint32{0, 1, 0xffffffff, 0x80000000, 0x7fffffff}[r.Intn(5)]
			}
			hist = append(hist, op{Kind: "select", Code: code})
			var got endpoint.Endpoint
			var err error
			if !guarded(kind, weighted, hist, func() { got, err = sel.Select(selref.Msg{Code: code, Hash: true}) }) {
				return
			}
			el := eligible(kind, weighted, m)
			if err != nil {
				if el {
					rep.Violation("select-error-with-eligible-endpoint", kind, fmt.Sprintf("Select failed (%v) although members %v are eligible", err, m.Hosts()), wit())
					return
				}
				continue
			}
			if !el {
				rep.Violation("select-success-on-ineligible-set", kind, fmt.Sprintf("Select returned %s although no endpoint is eligible (members %v)", got.Host, m.Hosts()), wit())
				return
			}
			found := false
			for _, e := range m.Eps {
				if e == got {
					found = true
				}
			}
			if !found {
				rep.Violation("non-member-selected", kind, fmt.Sprintf("Select returned %+v which is not in the current set %v", got.Host, m.Hosts()), wit())
				return
			}
		}
		// rotation check after update bursts
		if kind == "roundrobin" && len(m.Eps) > 0 && r.Intn(8) == 0 {
			if !rotationCheck(sel, m, weighted, hist, 1+r.Intn(3)) {
				return
			}
		}
	}
	rep.Eval(1)
	rep.Add("sequential_ops", int64(length))
	rep.Distinct(fmt.Sprintf("seq|%s|%v|%d|%d|%s", kind, weighted, wm, len(m.Eps), strings.Join(m.Hosts(), ",")))
}

// rotationCheck: k full cycles must hit each endpoint exactly k*count times.
func rotationCheck(sel selector.Selector, m *selref.Model, weighted bool, hist []op, k int) bool {
	counts := map[string]int{}
	cycle := len(m.Eps)
	useWeights := weighted && m.AllStatic()
	if useWeights && !m.AllPositive() {
		return true // the formula speaks about positive weights only
	}
	if useWeights {
		counts, cycle = m.CycleCounts()
	} else {
		for _, e := range m.Eps {
			counts[e.Host] = 1
		}
	}
	if cycle > 200000 {
		return true
	}
	got := map[string]int{}
	okk := guarded("roundrobin", weighted, hist, func() {
		for i := 0; i < k*cycle; i++ {
			if i == (k*cycle)/2 && len(m.Eps) > 0 {
				// updates that are refused leave the set — and with it the rotation — as it is:
				// adding a host that is already a member, removing one that is not
				if err := sel.Add(m.Eps[i%len(m.Eps)]); err == nil {
					got["ADD-OF-A-MEMBER-ACCEPTED"]++
				}
				if err := sel.Remove(selref.EP("10.250.250.250", 1, 0)); err == nil {
					got["REMOVE-OF-A-STRANGER-ACCEPTED"]++
				}
			}
			e, err := sel.Select(selref.Msg{})
			if err != nil {
				got["ERR"]++
				continue
			}
			got[e.Host]++
		}
	})
	if !okk {
		return false
	}
	rep.Add("rotation_checks", 1)
	for h, c := range counts {
		if got[h] != k*c {
			ws := map[string]int32{}
			for _, e := range m.Eps {
				ws[e.Host] = e.Weight
			}
			class := "rotation-broken"
			if useWeights {
				class = "weighted-cycle-count"
			}
			rep.Violation(class, "roundrobin", fmt.Sprintf("%d full cycles (cycle length %d): host %s selected %d times, want %d", k, cycle, h, got[h], k*c),
				map[string]interface{}{"weights": ws, "weighted": useWeights, "cycles": k, "cycle_length": cycle, "got": got, "want_per_cycle": counts, "history": tail(hist, 8)})
			return false
		}
	}
	return true
}

// ---------- weight vectors (deterministic list + random) ----------

func weightVectorCheck(r *rand.Rand, ws []int32) {
	for _, kind := range kinds {
		sel := newSelector(kind, true)
		m := &selref.Model{}
		eps := make([]endpoint.Endpoint, len(ws))
		for i, w := range ws {
			eps[i] = capWeight(kind, selref.EP(fmt.Sprintf("10.1.0.%d", i+1), w, 1))
		}
		hist := []op{{Kind: "refresh", Weight: ws}}
		announce(map[string]interface{}{"selector": kind, "weighted": true, "about_to": hist[0]})
		if !guarded(kind, true, hist, func() { sel.Refresh(eps) }) {
			continue
		}
		m.Refresh(eps)
		el := eligible(kind, true, m)
		guarded(kind, true, hist, func() {
			for i := 0; i < 50; i++ {
				e, err := sel.Select(selref.Msg{Code: r.Uint32(), Hash: true})
				if (err == nil) != el {
					rep.Violation("select-eligibility", kind, fmt.Sprintf("weights %v: Select err=%v, eligible=%v", ws, err, el), map[string]interface{}{"weights": ws, "selector": kind})
					return
				}
				if err == nil && !m.Has(e.Host) {
					rep.Violation("non-member-selected", kind, fmt.Sprintf("weights %v: %s", ws, e.Host), map[string]interface{}{"weights": ws})
					return
				}
			}
		})
		if kind == "roundrobin" {
			rotationCheck(sel, m, true, hist, 2)
		}
		// removing and re-adding every endpoint must not crash either
		guarded(kind, true, hist, func() {
			for _, e := range eps {
				_ = sel.Remove(e)
			}
			for _, e := range eps {
				_ = sel.Add(e)
			}
		})
	}
	rep.Eval(1)
	rep.Distinct(fmt.Sprintf("wv|%v", ws))
}

// ---------- concurrent part (child process) ----------

type cIn struct {
	Op   string
	Host string
	Set  string // refresh: comma separated hosts
	Code uint32
}
type cOut struct {
	Host string
	Err  bool
}

func setOf(hosts []string) string {
	s := append([]string(nil), hosts...)
	sort.Strings(s)
	return strings.Join(s, ",")
}

var membershipModel = porcupine.Model{
	Init: func() interface{} { return "" },
	Step: func(state, input, output interface{}) (bool, interface{}) {
		st := state.(string)
		in := input.(cIn)
		out := output.(cOut)
		members := map[string]bool{}
		if st != "" {
			for _, h := range strings.Split(st, ",") {
				members[h] = true
			}
		}
		switch in.Op {
		case "select":
			if len(members) == 0 {
				return out.Err, st
			}
			return !out.Err && members[out.Host], st
		case "add":
			if members[in.Host] {
				return out.Err, st
			}
			if out.Err {
				return false, st
			}
			members[in.Host] = true
		case "remove":
			if !members[in.Host] {
				return out.Err, st
			}
			if out.Err {
				return false, st
			}
			delete(members, in.Host)
		case "refresh":
			return true, in.Set
		}
		hs := make([]string, 0, len(members))
		for h := range members {
			hs = append(hs, h)
		}
		return true, setOf(hs)
	},
	DescribeOperation: func(input, output interface{}) string {
		return fmt.Sprintf("%+v -> %+v", input, output)
	},
}

func concurrentHistory(seed int64, kind string, weighted bool, selectors, updaters, opsPer int) {
	sel := newSelector(kind, weighted)
	universe := 6
	var clock atomic.Int64
	var mu sync.Mutex
	var ops []porcupine.Operation
	record := func(client int, in cIn, call int64, out cOut, ret int64) {
		mu.Lock()
		ops = append(ops, porcupine.Operation{ClientId: client, Input: in, Call: call, Output: out, Return: ret})
		mu.Unlock()
	}
	ep := func(i int) endpoint.Endpoint { return selref.EP(fmt.Sprintf("10.2.0.%d", i+1), int32(10+10*i), 1) }
	// initial refresh (recorded)
	init := []endpoint.Endpoint{ep(0), ep(1), ep(2)}
	c0 := clock.Add(1)
	sel.Refresh(init)
	record(0, cIn{Op: "refresh", Set: setOf([]string{ep(0).Host, ep(1).Host, ep(2).Host})}, c0, cOut{}, clock.Add(1))
	var wg sync.WaitGroup
	start := make(chan struct{})
	for s := 0; s < selectors; s++ {
		wg.Add(1)
		go func(s int) {
			defer wg.Done()
			r := rand.New(rand.NewSource(seed*131 + int64(s)))
			<-start
			for i := 0; i < opsPer; i++ {
				code := r.Uint32()
				call := clock.Add(1)
				e, err := sel.Select(selref.Msg{Code: code, Hash: true})
				ret := clock.Add(1)
				record(1+s, cIn{Op: "select", Code: code}, call, cOut{Host: e.Host, Err: err != nil}, ret)
			}
		}(s)
	}
	for u := 0; u < updaters; u++ {
		wg.Add(1)
		go func(u int) {
			defer wg.Done()
			r := rand.New(rand.NewSource(seed*977 + int64(u)))
			<-start
			for i := 0; i < opsPer/2+1; i++ {
				e := ep(r.Intn(universe))
				switch r.Intn(5) {
				case 0:
					n := r.Intn(4)
					var eps []endpoint.Endpoint
					var hs []string
					seen := map[string]bool{}
					for k := 0; k < n; k++ {
						x := ep(r.Intn(universe))
						if !seen[x.Host] {
							seen[x.Host] = true
							eps = append(eps, x)
							hs = append(hs, x.Host)
						}
					}
					call := clock.Add(1)
					sel.Refresh(eps)
					record(100+u, cIn{Op: "refresh", Set: setOf(hs)}, call, cOut{}, clock.Add(1))
				case 1, 2:
					call := clock.Add(1)
					err := sel.Add(e)
					record(100+u, cIn{Op: "add", Host: e.Host}, call, cOut{Err: err != nil}, clock.Add(1))
				default:
					call := clock.Add(1)
					err := sel.Remove(e)
					record(100+u, cIn{Op: "remove", Host: e.Host}, call, cOut{Err: err != nil}, clock.Add(1))
				}
			}
		}(u)
	}
	close(start)
	wg.Wait()
	res, info := porcupine.CheckOperationsVerbose(membershipModel, ops, 20*time.Second)
	rep.Eval(1)
	rep.Add("concurrent_ops_recorded", int64(len(ops)))
	switch res {
	case porcupine.Illegal:
		_ = info
		var hist []string
		sort.Slice(ops, func(i, j int) bool { return ops[i].Call < ops[j].Call })
		for _, o := range ops {
			hist = append(hist, fmt.Sprintf("c%d [%d,%d] %+v -> %+v", o.ClientId, o.Call, o.Return, o.Input, o.Output))
		}
		if len(hist) > 120 {
			hist = hist[:120]
		}
		rep.Violation("not-linearizable-membership", kind, "concurrent history is not linearizable w.r.t. the membership model (a Select returned a non-member, or an update result contradicts every possible order)",
			map[string]interface{}{"selector": kind, "weighted": weighted, "seed": seed, "history": hist})
	case porcupine.Unknown:
		rep.Inconclusive("porcupine timeout on " + kind)
	default:
		rep.Distinct(fmt.Sprintf("conc|%s|%v|%d|%d", kind, weighted, seed, len(ops)))
	}
}

// racingAdds: several goroutines add the SAME endpoint to a selector at the same moment.  Whatever
// the interleaving, the endpoint is a member once: exactly one Add succeeds, one Remove takes it out
// again, and after that no selection returns it.
func racingAdds(kind string, weighted bool, rounds int) {
	a, b := selref.EP("10.4.0.1", 10, 1), selref.EP("10.4.0.2", 20, 1)
	for round := 0; round < rounds; round++ {
		sel := newSelector(kind, weighted)
		sel.Refresh([]endpoint.Endpoint{a, b})
		x := selref.EP(fmt.Sprintf("10.4.1.%d", 1+round%200), 30, 1)
		const g = 4
		var wg sync.WaitGroup
		start := make(chan struct{})
		var okAdds atomic.Int32
		for i := 0; i < g; i++ {
			wg.Add(1)
			go func() {
				defer wg.Done()
				<-start
				if sel.Add(x) == nil {
					okAdds.Add(1)
				}
			}()
		}
		close(start)
		wg.Wait()
		rep.Eval(1)
		wit := map[string]interface{}{"selector": kind, "weighted": weighted, "round": round, "racing_adds": g, "adds_that_succeeded": okAdds.Load(), "endpoint": x.Host}
		if okAdds.Load() != 1 {
			rep.Violation("not-linearizable-membership", kind+":racing-adds", fmt.Sprintf("%d of %d simultaneous Add(%s) calls succeeded; in every order of them exactly one does", okAdds.Load(), g, x.Host), wit)
			return
		}
		if err := sel.Remove(x); err != nil {
			rep.Violation("membership-error", kind+":racing-adds", fmt.Sprintf("Remove(%s) after the racing adds failed: %v", x.Host, err), wit)
			return
		}
		for k := 0; k < 64; k++ {
			if e, err := sel.Select(selref.Msg{Code: uint32(k) * 0x9e3779b1, Hash: true}); err == nil && e.Host == x.Host {
				rep.Violation("non-member-selected", kind+":racing-adds", fmt.Sprintf("Select returned %s after it had been removed (it was added by %d racing goroutines)", x.Host, g), wit)
				return
			}
		}
	}
	rep.Distinct(fmt.Sprintf("racing-adds|%s|%v", kind, weighted))
}

// concurrentRotation: G goroutines x m selections on an unchanged unweighted round-robin set.
func concurrentRotation(n, g, per int) {
	sel := roundrobin.New(false)
	eps := make([]endpoint.Endpoint, n)
	for i := range eps {
		eps[i] = selref.EP(fmt.Sprintf("10.3.0.%d", i+1), -1, 0)
	}
	sel.Refresh(eps)
	total := g * per // chosen as a multiple of n
	counts := make([]atomic.Int64, n)
	var wg sync.WaitGroup
	for k := 0; k < g; k++ {
		wg.Add(1)
		go func() {
			defer wg.Done()
			for i := 0; i < per; i++ {
				e, err := sel.Select(selref.Msg{})
				if err != nil {
					continue
				}
				var idx int
				fmt.Sscanf(e.Host, "10.3.0.%d", &idx)
				counts[idx-1].Add(1)
			}
		}()
	}
	wg.Wait()
	rep.Eval(1)
	rep.Add("concurrent_rotation_selections", int64(total))
	for i := range counts {
		if c := counts[i].Load(); c != int64(total/n) {
			all := make([]int64, n)
			for j := range counts {
				all[j] = counts[j].Load()
			}
			rep.Violation("rotation-broken", "roundrobin-concurrent", fmt.Sprintf("%d goroutines x %d selections over %d endpoints: endpoint %d selected %d times, want exactly %d", g, per, n, i, c, total/n),
				map[string]interface{}{"endpoints": n, "goroutines": g, "per_goroutine": per, "counts": all})
			return
		}
	}
	rep.Distinct(fmt.Sprintf("crot|%d|%d|%d", n, g, per))
}

// concurrentStress: many selecting goroutines on every selector while updaters run; crash or
// non-member = violation (membership checked against the universe, which never changes).
// independentInstances: several selectors of one kind, each used by its own single goroutine
// (updates and selections interleaved), all running in parallel.  Instances share nothing a caller
// can see, so nothing may go wrong: no panic, no non-member, and (under -race) no report in the
// selector package — state shared behind the instances' backs shows up here only.
func independentInstances(kind string, weighted bool, dur time.Duration) {
	const inst = 16
	var wg sync.WaitGroup
	var bad, n, panics atomic.Int64
	var firstPanic atomic.Value
	stop := make(chan struct{})
	for k := 0; k < inst; k++ {
		wg.Add(1)
		go func(k int) {
			defer wg.Done()
			defer func() {
				if r := recover(); r != nil {
					panics.Add(1)
					firstPanic.CompareAndSwap(nil, fmt.Sprintf("%v\n%s", r, debug.Stack()))
				}
			}()
			sel := newSelector(kind, weighted)
			univ := map[string]bool{}
			eps := make([]endpoint.Endpoint, 8)
			for i := range eps {
				eps[i] = selref.EP(fmt.Sprintf("10.5.%d.%d", k, i+1), int32(1+(i*3+k)%9), 1)
				univ[eps[i].Host] = true
			}
			r := rand.New(rand.NewSource(int64(1000 + k)))
			sel.Refresh(eps[:4])
			for {
				select {
				case <-stop:
					return
				default:
				}
				switch r.Intn(8) {
				case 0:
					sel.Refresh(eps[r.Intn(4) : 4+r.Intn(4)])
				case 1:
					_ = sel.Add(eps[r.Intn(8)])
				case 2:
					_ = sel.Remove(eps[r.Intn(8)])
				default:
					e, err := sel.Select(selref.Msg{Code: r.Uint32(), Hash: true})
					if err == nil && !univ[e.Host] {
						bad.Add(1)
					}
					n.Add(1)
				}
			}
		}(k)
	}
	time.Sleep(dur)
	close(stop)
	wg.Wait()
	rep.Eval(1)
	rep.Add("independent_instance_selections", n.Load())
	rep.Distinct(fmt.Sprintf("independent|%s|%v", kind, weighted))
	if panics.Load() > 0 {
		rep.Violation("panic", kind+"-independent-instances", fmt.Sprintf("%d of %d independent %s selectors, each used by one goroutine only, panicked while the others ran in parallel", panics.Load(), inst, kind),
			map[string]interface{}{"selector": kind, "weighted": weighted, "first_panic": firstPanic.Load()})
	}
	if bad.Load() > 0 {
		rep.Violation("non-member-selected", kind+"-independent-instances", fmt.Sprintf("%d selections returned a host of another instance's universe", bad.Load()), map[string]interface{}{"selector": kind})
	}
}

func concurrentStress(kind string, weighted bool, dur time.Duration) {
	sel := newSelector(kind, weighted)
	univ := map[string]bool{}
	eps := make([]endpoint.Endpoint, 8)
	for i := range eps {
		eps[i] = selref.EP(fmt.Sprintf("10.4.0.%d", i+1), int32(5+i*7), 1)
		univ[eps[i].Host] = true
	}
	sel.Refresh(eps[:4])
	stop := make(chan struct{})
	var wg sync.WaitGroup
	var n atomic.Int64
	var bad atomic.Int64
	for s := 0; s < 12; s++ {
		wg.Add(1)
		go func(s int) {
			defer wg.Done()
			r := rand.New(rand.NewSource(int64(s)))
			for {
				select {
				case <-stop:
					return
				default:
				}
				e, err := sel.Select(selref.Msg{Code: r.Uint32(), Hash: true})
				if err == nil && !univ[e.Host] {
					bad.Add(1)
				}
				n.Add(1)
			}
		}(s)
	}
	for u := 0; u < 2; u++ {
		wg.Add(1)
		go func(u int) {
			defer wg.Done()
			r := rand.New(rand.NewSource(int64(100 + u)))
			for {
				select {
				case <-stop:
					return
				default:
				}
				switch r.Intn(3) {
				case 0:
					sel.Refresh(eps[r.Intn(4) : 4+r.Intn(4)])
				case 1:
					_ = sel.Add(eps[r.Intn(8)])
				default:
					_ = sel.Remove(eps[r.Intn(8)])
				}
			}
		}(u)
	}
	time.Sleep(dur)
	close(stop)
	wg.Wait()
	rep.Eval(1)
	rep.Add("stress_selections", n.Load())
	if bad.Load() > 0 {
		rep.Violation("non-member-selected", kind+"-concurrent", fmt.Sprintf("%d selections returned a host outside the universe", bad.Load()), map[string]interface{}{"selector": kind})
	}
	rep.Distinct(fmt.Sprintf("stress|%s|%v", kind, weighted))
}

func seqChild(seed int64, pick func(q, t int) int) {
	r := vlib.SeedRand(seed, "seq")
	nSeq := pick(1500, 60000)
	for i := 0; i < nSeq; i++ {
		kind := kinds[i%len(kinds)]
		weighted := (i/len(kinds))%2 == 1
		wm := weightMode((i / 10) % 4)
		universe := []int{1, 2, 3, 5, 8, 20, 64}[(i/40)%7]
		sequentialHistory(r, kind, weighted, wm, universe, 20+r.Intn(180))
	}
	// histories over hosts that share a point of the Ketama ring (found by a birthday search over a
	// fixed universe, independent of the seed): membership must not depend on who else claims a point
	owner := map[uint32]int{}
	var pairs [][2]string
	ch := func(i int) string { return fmt.Sprintf("10.%d.%d.1", i/250, i%250) }
	for i := 0; i < 3000; i++ {
		for _, p := range selref.Points(ch(i), 25, true) {
			if o, ok := owner[p]; ok && o != i {
				pairs = append(pairs, [2]string{ch(o), ch(i)})
			} else {
				owner[p] = i
			}
		}
	}
	rep.Add("colliding_host_pairs_used", int64(min(len(pairs), pick(6, len(pairs)))))
	for pi, pr := range pairs {
		if pi >= pick(6, len(pairs)) {
			break
		}
		hostPool = []string{pr[0], pr[1], "10.200.0.1", "10.200.0.2"}
		for k := 0; k < pick(30, 400); k++ {
			sequentialHistory(r, "conhash-ketama", false, wNone, 4, 20+r.Intn(100))
		}
	}
	hostPool = nil
	// weight vectors
	vectors := [][]int32{{0}, {0, 0}, {0, 0, 0}, {-1}, {-1, -1}, {-50, -60}, {-100, -1}, {-101}, {-2147483648}, {-2147483648, -2147483648}, {1}, {1, 1}, {1, 2, 3}, {5, 1000}, {99, 9999}, {1, 100}, {1, 101},
		{10, 20, 30, 40}, {2147483647}, {2147483647, 1}, {2147483647, 2147483647}, {0, 5}, {5, 0, 0}, {-3, 7}, {100, 100, 100}, {3, 3, 3, 3, 3, 3, 3}, {1, 10}, {1, 9}, {1, 11}, {7, 13, 29}, {50, 75, 100}, {1000, 1}}
	for _, v := range vectors {
		weightVectorCheck(r, v)
	}
	for i := 0; i < pick(300, 20000); i++ {
		n := 1 + r.Intn(6)
		v := make([]int32, n)
		for k := range v {
			switch r.Intn(5) {
			case 0:
				v[k] = int32(r.Intn(5)) - 2
			case 1:
				v[k] = int32(r.Uint32())
			default:
				v[k] = int32(1 + r.Intn(2000))
			}
		}
		weightVectorCheck(r, v)
	}

}

func childMain() {
	em := vlib.NewEmitter()
	rep = em
	announce = em.Case
	thorough := os.Getenv("VERIF_TIER") == "thorough"
	if os.Getenv("C13_CHILD") == "seq" {
		var seed int64 = 1
		fmt.Sscanf(os.Getenv("VERIF_SEED"), "%d", &seed)
		seqChild(seed, func(q, t int) int {
			if thorough {
				return t
			}
			return q
		})
		return
	}
	nh := 12
	if thorough {
		nh = 300
	}
	var seed int64 = 1
	fmt.Sscanf(os.Getenv("VERIF_SEED"), "%d", &seed)
	for _, kind := range kinds {
		for _, w := range []bool{false, true} {
			for i := 0; i < nh; i++ {
				concurrentHistory(seed*100000+int64(i), kind, w, 2+i%5, 1+i%2, 6+i%20)
			}
			d := 150 * time.Millisecond
			if thorough {
				d = 2 * time.Second
			}
			concurrentStress(kind, w, d)
			independentInstances(kind, w, d)
			rr := 2500
			if thorough {
				rr = 12000
			}
			racingAdds(kind, w, rr)
		}
	}
	for _, c := range [][3]int{{1, 4, 1000}, {2, 8, 5000}, {3, 6, 5000}, {4, 8, 50000}, {7, 14, 10000}, {64, 16, 64000}} {
		reps := 1
		if thorough {
			reps = 10
		}
		for i := 0; i < reps; i++ {
			concurrentRotation(c[0], c[1], c[2])
		}
	}
}

// runChild runs one phase in a child process; a death or a hang of the child is a violation
// attributed to the last case it announced.
func runChild(run *vlib.Run, mode string, timeout time.Duration) {
	run.LastCase = nil
	res := vlib.RunSelf([]string{"C13_CHILD=" + mode}, timeout)
	used := run.Absorb(res.Stdout)
	run.Set("child_"+mode+"_protocol_lines", used)
	run.Set("child_"+mode+"_cpu_s", (res.UserCPU + res.SysCPU).Seconds())
	if res.TimedOut {
		if (res.UserCPU + res.SysCPU) > timeout/2 {
			sel := "unknown"
			if m, ok := run.LastCase.(map[string]interface{}); ok {
				sel = fmt.Sprint(m["selector"])
			}
			run.Violation("hang", sel, fmt.Sprintf("phase %s did not finish within %v and burned %v CPU; last announced case: %v", mode, timeout, res.UserCPU+res.SysCPU, run.LastCase),
				map[string]interface{}{"last_case": run.LastCase, "stderr_tail": vlib.Tail(res.Stderr, 3000)})
		} else {
			run.Inconclusive("child " + mode + " timed out without burning CPU")
		}
		return
	}
	if res.Exit != 0 {
		locus := "unknown"
		for _, l := range strings.Split(res.Stderr, "\n") {
			if strings.HasPrefix(l, "fatal error:") || strings.HasPrefix(l, "panic:") {
				locus = strings.TrimSpace(l)
				break
			}
		}
		if len(locus) > 80 {
			locus = locus[:80]
		}
		run.Violation("process-death", locus, "the child running phase "+mode+" died: "+vlib.Tail(res.Stderr, 300), map[string]interface{}{"exit": res.Exit, "last_case": run.LastCase, "stderr_tail": vlib.Tail(res.Stderr, 4000)})
	}
}

func main() {
	if os.Getenv("C13_CHILD") != "" {
		childMain()
		return
	}
	run := vlib.Start("C13")
	rep = run
	run.SetRule("(a) seeded sequential histories of Refresh/Add/Remove/Select (length<=200, universes 1..64, weight modes none/static-positive/static-hostile/mixed) on roundrobin, random, modhash, consistent hash (Ketama and default) x weighted/unweighted against the ordered-member model; (b) rotation / weighted-cycle counts vs the formula after update bursts and for a fixed list + random weight vectors (incl. all-zero, all-negative, sum<-100, MaxInt32); (c) child process: concurrent histories (<=8 clients) checked with porcupine against the membership model, exact concurrent rotation counts, stress with updaters. A case is one history / weight vector / concurrent history; distinct by (selector, mode, final member list) or vector.")
	run.Assume("weighted-cycle formula is judged for all-positive static weights only; with non-positive weights only membership and absence of crashes are judged")
	run.Assume("removes name a member by its host; a third of them with a description whose weight and timeout differ from the installed one")
	runChild(run, "seq", time.Duration(run.Pick(8, 60))*time.Minute)
	run.Sample(map[string]interface{}{"kind": "weight-vector", "weights": []int32{5, 1000}, "expect_cycle": "R=100: counts {0:1 (max(1,floor(5*100/1000)=0)), 1:100}"})
	run.Sample(map[string]interface{}{"kind": "sequential-history", "ops": []op{{Kind: "refresh", Hosts: []string{"10.0.0.1", "10.0.0.2"}}, {Kind: "select", Code: 7}, {Kind: "remove", Hosts: []string{"10.0.0.1"}}, {Kind: "select", Code: 7}}})
	runChild(run, "conc", time.Duration(run.Pick(8, 60))*time.Minute)
	if vlib.RaceEnabled() {
		reports := vlib.ReadRaceReports()
		seen := map[string]bool{}
		other := 0
		for _, rr := range reports {
			if seen[rr.Key()] {
				continue
			}
			seen[rr.Key()] = true
			if rr.Touches("/tars/selector/") {
				loc := "selector"
				for _, f := range rr.Files {
					if i := strings.Index(f, "/tars/selector/"); i >= 0 {
						loc = strings.TrimSpace(f[i+len("/tars/selector/"):])
						if j := strings.Index(loc, ":"); j > 0 {
							loc = loc[:j]
						}
						break
					}
				}
				run.Violation("data-race", loc, "race detector report with an accessing frame in tars/selector (selector state is what the property is about)", map[string]interface{}{"report": vlib.Tail(rr.Text, 3000)})
			} else {
				other++
			}
		}
		run.Set("race_reports_total", len(reports))
		run.Set("race_reports_unrelated", other)
		run.Set("race_detector", "on")
	}
	run.Finish()
}
