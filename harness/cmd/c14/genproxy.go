package main

import (
	"context"
	"fmt"
	"math/rand"
	"strings"
	"sync"
	"time"

	"github.com/TarsCloud/TarsGo/tars"
	"github.com/TarsCloud/TarsGo/tars/util/current"

	"verif/gen/VI"
	"verif/netlab"
	"verif/vworld"
)

// generatedProxyPhase: "a call made with a hash code in its context is routed by these rules" also
// holds for the calls application code really makes — through a tars2go-generated proxy (compiled
// from /verif/idl by the working tree's generator), in each of its forms: plain, WithContext,
// OneWayWithContext.  For every code, the two-way call with the code in its context tells where the
// code is routed; the one-way calls with the same context must arrive at the same scripted server.
func generatedProxyPhase(r *rand.Rand) {
	type ep struct {
		host string
		srv  *netlab.ScriptServer
		mu   sync.Mutex
		seen map[string]bool
	}
	rounds := run.Pick(2, 12)
	for round := 0; round < rounds; round++ {
		n := 3 + round%2
		eps := make([]*ep, n)
		var parts []string
		for i := range eps {
			e := &ep{host: fmt.Sprintf("127.3.%d.%d", 1+round%200, i+1), seen: map[string]bool{}}
			e.srv = netlab.NewScriptServerOnHost(e.host, func(ev *netlab.ReqEvent) {
				if ev.Err != nil {
					return
				}
				e.mu.Lock()
				e.seen[ev.Req.Context[vworld.TokenKey]] = true
				e.mu.Unlock()
				if ev.Req.PacketType == 0 {
					_ = ev.Conn.Send((&netlab.Response{Version: ev.Req.Version, RequestID: ev.Req.RequestID}).Encode())
				}
			})
			eps[i] = e
			h, p := netlab.HostPort(e.srv.Addr)
			parts = append(parts, fmt.Sprintf("tcp -h %s -p %s -t 3000", h, p))
		}
		app := tars.VerifNewApp()
		comm := app.NewCommunicator()
		proxy := new(VI.Echo)
		comm.StringToProxy(fmt.Sprintf("Verif.C14gen%d.EchoObj@%s", round, strings.Join(parts, ":")), proxy)
		where := func(tok string, wait time.Duration) int {
			dl := time.Now().Add(wait)
			for {
				for i, e := range eps {
					e.mu.Lock()
					ok := e.seen[tok]
					e.mu.Unlock()
					if ok {
						return i
					}
				}
				if time.Now().After(dl) {
					return -1
				}
				time.Sleep(time.Millisecond)
			}
		}
		codes := []uint32{0, 1, 2, 3, 7, 0xffffffff, 0x80000000}
		for i := 0; i < run.Pick(20, 100); i++ {
			codes = append(codes, r.Uint32())
		}
		homes := map[[2]uint32]int{} // (hash type, code) -> endpoint index of the two-way call
		for ci, code := range codes {
			for _, ht := range []int{0, 1} {
				name := []string{"modhash", "conhash"}[ht]
				mk := func() context.Context {
					ctx := current.ContextWithClientCurrent(context.Background())
					current.SetClientHash(ctx, ht, code)
					return ctx
				}
				tok2 := fmt.Sprintf("c14g-%d-%d-%d-two", round, ci, ht)
				if err := proxy.NothingWithContext(mk(), map[string]string{vworld.TokenKey: tok2}); err != nil {
					run.Inconclusive(fmt.Sprintf("generated proxy: two-way call failed: %v", err))
					continue
				}
				home := where(tok2, time.Second)
				if home < 0 {
					run.Inconclusive("generated proxy: the two-way call reached no scripted server")
					continue
				}
				homes[[2]uint32{uint32(ht), code}] = home
				for k := 0; k < 3; k++ {
					tok1 := fmt.Sprintf("c14g-%d-%d-%d-one%d", round, ci, ht, k)
					if err := proxy.NothingOneWayWithContext(mk(), map[string]string{vworld.TokenKey: tok1}); err != nil {
						run.Inconclusive(fmt.Sprintf("generated proxy: one-way call failed: %v", err))
						continue
					}
					got := where(tok1, 2*time.Second)
					run.Eval(1)
					if got != home {
						at := "no server"
						if got >= 0 {
							at = eps[got].host
						}
						run.Violation("hash-code-in-context-not-followed", "generated-proxy:oneway:"+name, fmt.Sprintf("%s code %d: the two-way call through the generated proxy went to %s, one-way call #%d with the same context went to %s (%d endpoints)", name, code, eps[home].host, k, at, n),
							map[string]interface{}{"code": code, "hash_type": name, "two_way": eps[home].host, "one_way": at, "endpoints": n})
						for _, e := range eps {
							e.srv.Stop()
						}
						return
					}
				}
			}
		}
		// call contexts derived from one base context that already carries client-side settings (an
		// outer layer set a timeout): each call's own hash code routes it, whatever its siblings set
		for _, ht := range []int{0, 1} {
			name := []string{"modhash", "conhash"}[ht]
			base := current.ContextWithClientCurrent(context.Background())
			current.SetClientTimeout(base, 2500)
			var ctxs []context.Context
			var cs []uint32
			for _, code := range codes {
				if _, ok := homes[[2]uint32{uint32(ht), code}]; !ok {
					continue
				}
				ctx := current.ContextWithClientCurrent(base)
				current.SetClientHash(ctx, ht, code)
				ctxs, cs = append(ctxs, ctx), append(cs, code)
				if len(ctxs) == 12 {
					break
				}
			}
			for i := range ctxs {
				tok := fmt.Sprintf("c14g-%d-derived-%d-%d", round, ht, i)
				if err := proxy.NothingWithContext(ctxs[i], map[string]string{vworld.TokenKey: tok}); err != nil {
					run.Inconclusive(fmt.Sprintf("generated proxy: call on a derived context failed: %v", err))
					continue
				}
				got, home := where(tok, time.Second), homes[[2]uint32{uint32(ht), cs[i]}]
				run.Eval(1)
				if got >= 0 && got != home {
					run.Violation("hash-code-in-context-not-followed", "generated-proxy:derived-contexts:"+name, fmt.Sprintf("%s code %d in a call context derived from a base context that %d sibling calls were derived from too: the call went to %s, the same code in a context of its own to %s", name, cs[i], len(ctxs)-1, eps[got].host, eps[home].host),
						map[string]interface{}{"code": cs[i], "hash_type": name, "went_to": eps[got].host, "own_context_goes_to": eps[home].host, "sibling_codes": cs})
					for _, e := range eps {
						e.srv.Stop()
					}
					return
				}
			}
		}
		run.Distinct(fmt.Sprintf("genproxy|n%d|round%d", n, round))
		for _, e := range eps {
			e.srv.Stop()
		}
	}
}
