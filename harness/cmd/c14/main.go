// C14 — hash routing is deterministic, history-independent and minimally disruptive.
//
// Monitors (selector level): for target endpoint sets reached through several different
// Add/Remove/Refresh histories on separate real selector instances, every instance must agree on
// every probed code (ring points and their +-1 neighbours, 0, 2^32-1, random codes), and agree with
// an independently computed reference ring wherever that is unambiguous; removing an endpoint may
// move only codes that were mapped to it, adding one may move codes only onto it; mod-hash must
// return slot h mod N of the installed list (reference list model) and, with static weights, a
// cycle with the formula's counts and period that is identical across histories.  Sets built
// around hosts with colliding virtual points (found by a birthday search in a fixed universe) are
// probed separately.
package main

import (
	"context"
	"fmt"
	"math/rand"
	"runtime/debug"
	"sort"
	"strings"
	"sync"

	"github.com/TarsCloud/TarsGo/tars/selector"
	"github.com/TarsCloud/TarsGo/tars/selector/consistenthash"
	"github.com/TarsCloud/TarsGo/tars/selector/modhash"
	"github.com/TarsCloud/TarsGo/tars/util/current"
	"github.com/TarsCloud/TarsGo/tars/util/endpoint"
	"github.com/TarsCloud/TarsGo/tars/util/rogger"

	"verif/netlab"
	"verif/rpcw"
	"verif/selref"
	"verif/vlib"
)

var run *vlib.Run

func host(i int) string { return fmt.Sprintf("10.%d.%d.1", i/250, i%250) }

func sel(s selector.Selector, code uint32) (out string) {
	defer func() {
		if r := recover(); r != nil {
			st := string(debug.Stack())
			run.Violation("panic", fmt.Sprintf("%T.Select", s), fmt.Sprintf("Select(code %d) panicked: %v", code, r), map[string]interface{}{"code": code, "panic": fmt.Sprint(r), "stack": vlib.Tail(st, 2000)})
			out = "PANIC"
		}
	}()
	e, err := s.Select(selref.Msg{Code: code, Hash: true})
	if err != nil {
		return "ERR"
	}
	return e.Host
}

type hstep struct {
	Op    string   `json:"op"`
	Hosts []string `json:"hosts"`
}

// buildByHistory reaches the target member list on a fresh selector through history variant v.
func buildByHistory(newSel func() selector.Selector, target []endpoint.Endpoint, extra []endpoint.Endpoint, v int, r *rand.Rand) (selector.Selector, []hstep) {
	s := newSel()
	var h []hstep
	names := func(eps []endpoint.Endpoint) []string {
		var n []string
		for _, e := range eps {
			n = append(n, e.Host)
		}
		return n
	}
	switch v % 8 {
	case 0: // one refresh
		s.Refresh(target)
		h = append(h, hstep{"refresh", names(target)})
	case 1: // adds in order
		for _, e := range target {
			_ = s.Add(e)
		}
		h = append(h, hstep{"add*", names(target)})
	case 2: // adds in reverse order
		rev := append([]endpoint.Endpoint(nil), target...)
		for i, j := 0, len(rev)-1; i < j; i, j = i+1, j-1 {
			rev[i], rev[j] = rev[j], rev[i]
		}
		for _, e := range rev {
			_ = s.Add(e)
		}
		h = append(h, hstep{"add*", names(rev)})
	case 3: // refresh with a superset, then remove the extras
		sup := append(append([]endpoint.Endpoint(nil), extra...), target...)
		r.Shuffle(len(sup), func(i, j int) { sup[i], sup[j] = sup[j], sup[i] })
		s.Refresh(sup)
		h = append(h, hstep{"refresh", names(sup)})
		for _, e := range extra {
			_ = s.Remove(e)
		}
		h = append(h, hstep{"remove*", names(extra)})
	case 4: // add, remove, add detours
		perm := r.Perm(len(target))
		for _, i := range perm {
			_ = s.Add(target[i])
			if r.Intn(2) == 0 {
				_ = s.Remove(target[i])
				_ = s.Add(target[i])
			}
		}
		for _, e := range extra {
			_ = s.Add(e)
		}
		for _, e := range extra {
			_ = s.Remove(e)
		}
		h = append(h, hstep{"add/remove/add detours + extras added then removed", names(extra)})
	case 6: // the same hosts refreshed with other weights first: a refresh replaces what was known
		other := append([]endpoint.Endpoint(nil), target...)
		for i := range other {
			other[i].Weight = other[i].Weight*2 + int32(1+i%3)
		}
		s.Refresh(other)
		s.Refresh(target)
		h = append(h, hstep{"refresh (same hosts, weights 2w+1..3)", names(other)}, hstep{"refresh", names(target)})
	case 7: // the same hosts refreshed on other ports first, then the identical refresh twice
		other := append([]endpoint.Endpoint(nil), target...)
		for i := range other {
			other[i].Port += 1000
			other[i].Key = other[i].String()
		}
		s.Refresh(other)
		s.Refresh(target)
		s.Refresh(target)
		h = append(h, hstep{"refresh (same hosts, ports +1000)", names(other)}, hstep{"refresh", names(target)}, hstep{"refresh", names(target)})
	default: // refresh something else first, then refresh the target in shuffled order
		s.Refresh(extra)
		sh := append([]endpoint.Endpoint(nil), target...)
		r.Shuffle(len(sh), func(i, j int) { sh[i], sh[j] = sh[j], sh[i] })
		s.Refresh(sh)
		h = append(h, hstep{"refresh", names(extra)}, hstep{"refresh", names(sh)})
	}
	return s, h
}

func probeCodes(ring *selref.Ring, r *rand.Rand, nrand int) []uint32 {
	set := map[uint32]struct{}{0: {}, 1: {}, 0xffffffff: {}, 0xfffffffe: {}, 0x7fffffff: {}, 0x80000000: {}}
	for _, k := range ring.Keys() {
		set[k] = struct{}{}
		set[k-1] = struct{}{}
		set[k+1] = struct{}{}
	}
	for i := 0; i < nrand; i++ {
		set[r.Uint32()] = struct{}{}
	}
	out := make([]uint32, 0, len(set))
	for c := range set {
		out = append(out, c)
	}
	sort.Slice(out, func(i, j int) bool { return out[i] < out[j] })
	return out
}

func hostsOf(eps []endpoint.Endpoint) []string {
	var h []string
	for _, e := range eps {
		h = append(h, e.Host)
	}
	return h
}

// conhashSet checks one target set on one consistent-hash flavour.  collision marks sets that
// were built around colliding hosts (reported under their own signature).
func conhashSet(r *rand.Rand, target, extra []endpoint.Endpoint, weighted, ketama bool, nHist int, collisionTag string) {
	ht := consistenthash.DefaultHash
	name := "conhash-default"
	if ketama {
		ht = consistenthash.KetamaHash
		name = "conhash-ketama"
	}
	newSel := func() selector.Selector { return consistenthash.New(weighted, ht) }
	ring := selref.BuildRing(target, weighted, ketama)
	codes := probeCodes(ring, r, 300)
	var insts []selector.Selector
	var hists [][]hstep
	rot := r.Intn(6)
	for v := 0; v < nHist; v++ {
		hv := v
		if v >= 2 && nHist < 8 {
			hv = 2 + (v-2+rot)%6 // which of the longer histories a set gets rotates from set to set
		}
		s, h := buildByHistory(newSel, target, extra, hv, r)
		insts = append(insts, s)
		hists = append(hists, h)
	}
	locus := name
	if collisionTag != "" {
		locus = name + ":" + collisionTag
	}
	base := map[uint32]string{}
	for _, c := range codes {
		base[c] = sel(insts[0], c)
		// determinism on an unchanged set
		if again := sel(insts[0], c); again != base[c] {
			run.Violation("nondeterministic", locus, fmt.Sprintf("code %d mapped to %s then %s on an unchanged set", c, base[c], again), map[string]interface{}{"set": hostsOf(target), "code": c})
			return
		}
	}
	for i := 1; i < len(insts); i++ {
		for _, c := range codes {
			if g := sel(insts[i], c); g != base[c] {
				run.Violation("history-dependent", locus, fmt.Sprintf("two %s instances holding the same %d-endpoint set disagree on code %d: %s vs %s", name, len(target), c, base[c], g),
					map[string]interface{}{"set": hostsOf(target), "code": c, "history_a": hists[0], "history_b": hists[i], "a": base[c], "b": g, "contested_points": len(ring.Ambiguous), "weighted": weighted})
				return
			}
		}
	}
	// reference ring
	for _, c := range codes {
		want, amb, ok := ring.Lookup(c)
		if !ok {
			want = "ERR"
		}
		if amb {
			run.Add("codes_on_contested_points_not_judged_against_reference", 1)
			continue
		}
		if base[c] != want {
			run.Violation("reference-mismatch", locus, fmt.Sprintf("code %d routed to %s, the independently computed ring gives %s (set of %d)", c, base[c], want, len(target)),
				map[string]interface{}{"set": hostsOf(target), "code": c, "got": base[c], "want": want, "weighted": weighted})
			return
		}
	}
	// minimal disruption: remove one endpoint, then add it back
	if len(target) >= 2 {
		s := insts[0]
		victim := target[r.Intn(len(target))]
		_ = s.Remove(victim)
		for _, c := range codes {
			after := sel(s, c)
			if base[c] != victim.Host && after != base[c] {
				run.Violation("disruption-on-remove", locus, fmt.Sprintf("removing %s moved code %d from %s to %s", victim.Host, c, base[c], after),
					map[string]interface{}{"set": hostsOf(target), "removed": victim.Host, "code": c, "before": base[c], "after": after})
				return
			}
			if after == victim.Host {
				run.Violation("removed-endpoint-still-routed", locus, fmt.Sprintf("code %d still routed to removed %s", c, victim.Host), map[string]interface{}{"set": hostsOf(target), "removed": victim.Host, "code": c})
				return
			}
		}
		mid := map[uint32]string{}
		for _, c := range codes {
			mid[c] = sel(s, c)
		}
		_ = s.Add(victim)
		for _, c := range codes {
			after := sel(s, c)
			if after != mid[c] && after != victim.Host {
				run.Violation("disruption-on-add", locus, fmt.Sprintf("adding %s moved code %d from %s to %s", victim.Host, c, mid[c], after),
					map[string]interface{}{"set": hostsOf(target), "added": victim.Host, "code": c, "before": mid[c], "after": after})
				return
			}
			if after != base[c] {
				run.Violation("history-dependent", locus, fmt.Sprintf("after removing and re-adding %s code %d maps to %s, before it mapped to %s", victim.Host, c, after, base[c]),
					map[string]interface{}{"set": hostsOf(target), "readded": victim.Host, "code": c, "before": base[c], "after": after, "contested_points": len(ring.Ambiguous)})
				return
			}
		}
	}
	run.Eval(1)
	run.Add("codes_probed", int64(len(codes)*len(insts)))
	run.Distinct(fmt.Sprintf("%s|%v|%s", name, weighted, strings.Join(hostsOf(target), ",")))
}

func modhashSet(r *rand.Rand, target, extra []endpoint.Endpoint, weighted bool, nHist int) {
	newSel := func() selector.Selector { return modhash.New(weighted) }
	m := &selref.Model{}
	m.Refresh(target)
	static := weighted && m.AllStatic() && m.AllPositive()
	var insts []selector.Selector
	var hists [][]hstep
	// mod-hash depends on the installed ORDER, so only order-preserving histories reach "the same list"
	for _, v := range []int{0, []int{1, 6, 7}[r.Intn(3)], 3} {
		var s selector.Selector
		var h []hstep
		if v == 3 {
			// superset with extras interleaved (order of target preserved), then extras removed
			var sup []endpoint.Endpoint
			ei := 0
			for _, e := range target {
				if ei < len(extra) && r.Intn(2) == 0 {
					sup = append(sup, extra[ei])
					ei++
				}
				sup = append(sup, e)
			}
			sup = append(sup, extra[ei:]...)
			s = newSel()
			s.Refresh(sup)
			for _, e := range extra {
				_ = s.Remove(e)
			}
			h = []hstep{{"refresh", hostsOf(sup)}, {"remove*", hostsOf(extra)}}
		} else {
			s, h = buildByHistory(newSel, target, extra, v, r)
		}
		insts = append(insts, s)
		hists = append(hists, h)
		if len(insts) >= nHist {
			break
		}
	}
	n := len(target)
	var codes []uint32
	for c := uint32(0); c < uint32(4*n+8); c++ {
		codes = append(codes, c)
	}
	for i := 0; i < 300; i++ {
		codes = append(codes, r.Uint32())
	}
	codes = append(codes, 0xffffffff, 0xfffffffe, 0x80000000, 0x7fffffff)
	cycle := 0
	var counts map[string]int
	if static {
		counts, cycle = m.CycleCounts()
		for c := uint32(0); c < uint32(2*cycle); c++ {
			codes = append(codes, c)
		}
	}
	for _, c := range codes {
		got := sel(insts[0], c)
		for i := 1; i < len(insts); i++ {
			if g := sel(insts[i], c); g != got {
				run.Violation("history-dependent", "modhash", fmt.Sprintf("two mod-hash instances with the same installed list disagree on code %d: %s vs %s", c, got, g),
					map[string]interface{}{"list": hostsOf(target), "code": c, "history_a": hists[0], "history_b": hists[i], "weighted": weighted})
				return
			}
		}
		if n == 0 {
			if got != "ERR" {
				run.Violation("reference-mismatch", "modhash", "selection on an empty list succeeded", nil)
				return
			}
			continue
		}
		if !static {
			if weighted && m.AllStatic() {
				continue // non-positive weights: no formula
			}
			if want := target[c%uint32(n)].Host; got != want {
				run.Violation("reference-mismatch", "modhash", fmt.Sprintf("code %d routed to %s, slot %d mod %d of the installed list is %s", c, got, c, n, want),
					map[string]interface{}{"list": hostsOf(target), "code": c, "got": got, "want": want})
				return
			}
		} else if g2 := sel(insts[0], c+uint32(cycle)); c < 0xffffffff-uint32(cycle) && g2 != got {
			run.Violation("weighted-cycle-period", "modhash", fmt.Sprintf("code %d -> %s but code %d (+cycle length %d) -> %s", c, got, c+uint32(cycle), cycle, g2), map[string]interface{}{"list": hostsOf(target), "code": c})
			return
		}
	}
	if static {
		gotc := map[string]int{}
		for c := uint32(0); c < uint32(cycle); c++ {
			gotc[sel(insts[0], c)]++
		}
		for h, k := range counts {
			if gotc[h] != k {
				ws := map[string]int32{}
				for _, e := range target {
					ws[e.Host] = e.Weight
				}
				run.Violation("weighted-cycle-count", "modhash", fmt.Sprintf("codes 0..%d: host %s gets %d slots, formula gives %d", cycle-1, h, gotc[h], k), map[string]interface{}{"weights": ws, "got": gotc, "want": counts})
				return
			}
		}
	}
	// after Remove the list must equal the model list (slot mapping follows the new list)
	if n >= 2 {
		s := insts[len(insts)-1]
		victim := target[r.Intn(n)]
		_ = s.Remove(victim)
		m2 := &selref.Model{}
		m2.Refresh(target)
		m2.Remove(victim.Host)
		fresh := newSel()
		fresh.Refresh(m2.Eps)
		for _, c := range codes {
			a, b := sel(s, c), sel(fresh, c)
			if a != b {
				run.Violation("history-dependent", "modhash-after-remove", fmt.Sprintf("after Remove(%s) code %d -> %s, a fresh selector with the remaining list gives %s", victim.Host, c, a, b),
					map[string]interface{}{"list": hostsOf(target), "removed": victim.Host, "code": c, "weighted": weighted})
				return
			}
			if a == victim.Host {
				run.Violation("removed-endpoint-still-routed", "modhash", fmt.Sprintf("code %d still routed to removed %s", c, victim.Host), map[string]interface{}{"list": hostsOf(target)})
				return
			}
		}
	}
	run.Eval(1)
	run.Add("codes_probed", int64(len(codes)*len(insts)))
	run.Distinct(fmt.Sprintf("modhash|%v|%s", weighted, strings.Join(hostsOf(target), ",")))
}

func drawSet(r *rand.Rand, universe, n int, weightMode int) []endpoint.Endpoint {
	perm := r.Perm(universe)
	var out []endpoint.Endpoint
	for _, i := range perm[:n] {
		switch weightMode {
		case 1:
			out = append(out, selref.EP(host(i), []int32{1, 3, 4, 5, 8, 40, 100, 101, 400}[r.Intn(9)], 1))
		case 2:
			out = append(out, selref.EP(host(i), []int32{0, -1, 4, 100, 7, -50}[r.Intn(6)], 1))
		default:
			out = append(out, selref.EP(host(i), -1, 0))
		}
	}
	return out
}

// findCollisions searches a fixed universe for pairs of hosts that share a virtual point.
func findCollisions(universe int) [][2]int {
	owner := map[uint32]int{}
	var pairs [][2]int
	for i := 0; i < universe; i++ {
		for _, p := range selref.Points(host(i), 25, true) {
			if o, ok := owner[p]; ok && o != i {
				pairs = append(pairs, [2]int{o, i})
			} else {
				owner[p] = i
			}
		}
	}
	return pairs
}

func main() {
	run = vlib.Start("C14")
	run.SetRule("target sets drawn from a host universe (sizes 1..40; unweighted, static positive, hostile weights) are reached by 3..6 different Refresh/Add/Remove histories on separate real selector instances (consistent hash Ketama+default, mod-hash); probed codes: every ring point and +-1, 0, 2^32-1, 300 random (consistent hash) / all slots of 4 rounds + 2 weighted cycles + random (mod-hash). Oracles: determinism, agreement between instances, equality with the reference ring / list slot, minimal disruption on remove/add, weighted cycle counts and period. Collision sets: hosts with identical virtual points found by a birthday search over a fixed 3000-host universe. A case is one (selector, weighting, target set); distinct by that key.")
	run.Assume("reference ring: md5(host_i) little-endian 32-bit points, weight/4 rounds (min 1), 100 replicas unweighted; codes landing on a point owned by two hosts are not judged against the reference")
	r := run.Rand("sets")
	nSets := run.Pick(150, 4000)
	for i := 0; i < nSets; i++ {
		n := []int{1, 2, 3, 5, 8, 13, 40}[i%7]
		wm := (i / 7) % 3
		t := drawSet(r, 400, n+3, wm)
		target, extra := t[:n], t[n:]
		conhashSet(r, target, extra, wm != 0, true, run.Pick(4, 6), "")
		conhashSet(r, target, extra, wm != 0, false, run.Pick(3, 6), "")
		modhashSet(r, target, extra, wm != 0, 3)
		if i == 0 {
			run.Sample(map[string]interface{}{"selector": "conhash-ketama", "set": hostsOf(target), "histories": "refresh | adds in order | adds reversed | superset refresh + removes", "codes": "ring points +-1, 0, 2^32-1, 300 random"})
		}
	}
	// empty set
	conhashSet(r, nil, drawSet(r, 50, 2, 0), false, true, 4, "")
	modhashSet(r, nil, drawSet(r, 50, 2, 0), false, 3)

	// ---- collision sets (fixed universe, independent of the seed) ----
	pairs := findCollisions(3000)
	run.Set("colliding_host_pairs_in_universe", len(pairs))
	cr := rand.New(rand.NewSource(20260927))
	maxPairs := run.Pick(6, len(pairs))
	for pi, p := range pairs {
		if pi >= maxPairs {
			break
		}
		a, b := selref.EP(host(p[0]), -1, 0), selref.EP(host(p[1]), -1, 0)
		others := []endpoint.Endpoint{selref.EP("10.200.0.1", -1, 0), selref.EP("10.200.0.2", -1, 0)}
		tag := fmt.Sprintf("collision:%s+%s", a.Host, b.Host)
		conhashSet(cr, []endpoint.Endpoint{a, b, others[0]}, others[1:], false, true, 6, tag)
		conhashSet(cr, []endpoint.Endpoint{b, others[0], a}, others[1:], false, true, 6, tag)
		if pi == 0 {
			run.Sample(map[string]interface{}{"collision_pair": []string{a.Host, b.Host}, "note": "both hosts own an identical Ketama point"})
		}
	}
	e2ePhase(r)
	managerPhase(r)
	generatedProxyPhase(r)
	run.Finish()
}

// e2ePhase: a real proxy, a hash code in the call context, one scripted server per endpoint.  The
// server that receives the token must be the one the routing rules give: mod-hash = slot code mod N
// of the installed endpoint list (ServantProxy.Endpoints()), consistent hash = owner in the
// reference ring over the endpoint hosts.
func e2ePhase(r *rand.Rand) {
	rogger.SetLevel(rogger.OFF)
	nWorlds := run.Pick(6, 60)
	for wi := 0; wi < nWorlds; wi++ {
		n := 2 + wi%4
		type ep struct {
			host string
			srv  *netlab.ScriptServer
			mu   sync.Mutex
			seen map[string]bool
		}
		eps := make([]*ep, n)
		var addrs []string
		for i := range eps {
			e := &ep{host: fmt.Sprintf("127.1.%d.%d", 1+wi%200, i+1), seen: map[string]bool{}}
			e.srv = netlab.NewScriptServerOnHost(e.host, func(ev *netlab.ReqEvent) {
				if ev.Err != nil {
					return
				}
				e.mu.Lock()
				e.seen[string(ev.Req.Buffer)] = true
				e.mu.Unlock()
				_ = ev.Conn.Send(netlab.Echo(ev))
			})
			eps[i] = e
			addrs = append(addrs, e.srv.Addr)
		}
		cl := rpcw.NewDirect(addrs, rpcw.Opt{InvokeTimeoutMs: 2000})
		installed := cl.SP.Endpoints()
		var members []endpoint.Endpoint
		for _, e := range installed {
			members = append(members, selref.EP(e.Host, -1, 0))
		}
		ring := selref.BuildRing(members, false, true)
		codes := []uint32{0, 1, 2, uint32(n - 1), uint32(n), uint32(n + 1), 0xffffffff, 0x80000000, 0x7fffffff}
		for _, k := range ring.Keys()[:min(len(ring.Keys()), 12)] {
			codes = append(codes, k, k+1, k-1)
		}
		for i := 0; i < 20; i++ {
			codes = append(codes, r.Uint32())
		}
		for ci, code := range codes {
			for _, ht := range []int{0, 1} { // 0 = ModHash, 1 = ConsistentHash
				tok := fmt.Sprintf("c14e2e-%d-%d-%d", wi, ci, ht)
				ctx := current.ContextWithClientCurrent(context.Background())
				current.SetClientHash(ctx, ht, code)
				b, _, err := cl.Call(ctx, "echo", []byte(tok), false)
				run.Eval(1)
				if err != nil || string(b) != tok {
					run.Violation("e2e-call-failed", "hash-routing", fmt.Sprintf("call with hash code %d (type %d) failed: %v", code, ht, err), map[string]interface{}{"code": code, "hash_type": ht})
					return
				}
				var want string
				if ht == 0 {
					want = installed[code%uint32(len(installed))].Host
				} else {
					h, amb, _ := ring.Lookup(code)
					if amb {
						continue
					}
					want = h
				}
				got := "?"
				for _, e := range eps {
					e.mu.Lock()
					if e.seen[tok] {
						got = e.host
					}
					e.mu.Unlock()
				}
				if got != want {
					name := map[int]string{0: "mod-hash", 1: "consistent-hash"}[ht]
					var hosts []string
					for _, e := range installed {
						hosts = append(hosts, e.Host)
					}
					run.Violation("e2e-misrouted", name, fmt.Sprintf("call with %s code %d arrived at %s, the routing rules give %s (installed list %v)", name, code, got, want, hosts),
						map[string]interface{}{"code": code, "hash_type": name, "installed": hosts, "got": got, "want": want})
					return
				}
				run.Distinct(fmt.Sprintf("e2e|%d|%d|%d", n, code, ht))
			}
		}
		// repeated calls with one code stay on one server (pure function of code and set)
		for _, e := range eps {
			e.srv.Stop()
		}
	}
	run.Sample(map[string]interface{}{"phase": "end-to-end", "events": "ctx with SetClientHash(ModHash|ConsistentHash, code) -> real TarsInvoke -> token seen by exactly the scripted server the rules predict"})
}
