package main

import (
	"context"
	"fmt"
	"math/rand"
	"sync"
	"time"

	"github.com/TarsCloud/TarsGo/tars"
	"github.com/TarsCloud/TarsGo/tars/registry"
	"github.com/TarsCloud/TarsGo/tars/util/current"

	"verif/netlab"
	"verif/rpcw"
)

// Manager-level histories: the endpoint set of a real ServantProxy comes from a (fake) registrar and
// changes through the endpoint manager's own paths — a refresh that changes the set or the weight
// mode, a status check that takes a failing endpoint out.  A client that reached an active set
// through such a history must route every hash code exactly like a client that was started on that
// set: for consistent hashing the two must agree, for mod-hash both must send code h to slot
// h mod N of the active list the manager reports (unweighted sets).

type mreg struct {
	mu     sync.Mutex
	active []registry.Endpoint
}

func (f *mreg) Registry(ctx context.Context, s *registry.ServantInstance) error   { return nil }
func (f *mreg) Deregister(ctx context.Context, s *registry.ServantInstance) error { return nil }
func (f *mreg) QueryServant(ctx context.Context, id string) ([]registry.Endpoint, []registry.Endpoint, error) {
	f.mu.Lock()
	defer f.mu.Unlock()
	return append([]registry.Endpoint(nil), f.active...), nil, nil
}
func (f *mreg) QueryServantBySet(ctx context.Context, id, set string) ([]registry.Endpoint, []registry.Endpoint, error) {
	return f.QueryServant(ctx, id)
}
func (f *mreg) set(eps []registry.Endpoint) {
	f.mu.Lock()
	f.active = append([]registry.Endpoint(nil), eps...)
	f.mu.Unlock()
}

type msrv struct {
	host string
	port int32
	addr string
	srv  *netlab.ScriptServer
	mu   sync.Mutex
	seen map[string]bool
	down bool
}

func (e *msrv) handler(ev *netlab.ReqEvent) {
	if ev.Err != nil {
		return
	}
	e.mu.Lock()
	e.seen[string(ev.Req.Buffer)] = true
	e.mu.Unlock()
	_ = ev.Conn.Send(netlab.Echo(ev))
}

func (e *msrv) got(tok string) bool {
	e.mu.Lock()
	defer e.mu.Unlock()
	return e.seen[tok]
}

type wspec struct {
	w  int32
	wt int32 // 0 loop, 1 static
}

var mgrApp *tars.VerifApp

func managerPhase(r *rand.Rand) {
	mgrApp = tars.VerifNewApp()
	rounds := run.Pick(3, 30)
	kinds := []string{"static-then-mixed", "loop-then-static", "superset-then-subset", "status-check-removes-endpoint", "mixed-then-static", "weight-changed-while-down", "mixed-odd-endpoint-down-refresh-recover"}
	for round := 0; round < rounds; round++ {
		for ki, kind := range kinds {
			managerScenario(r, round*len(kinds)+ki, kind)
		}
	}
}

func managerScenario(r *rand.Rand, id int, kind string) {
	n := 4 + id%2
	srvs := make([]*msrv, n)
	for i := range srvs {
		e := &msrv{host: fmt.Sprintf("127.2.%d.%d", 1+id%200, i+1), seen: map[string]bool{}}
		e.srv = netlab.NewScriptServerOnHost(e.host, e.handler)
		e.addr = e.srv.Addr
		_, p := netlab.HostPort(e.addr)
		fmt.Sscan(p, &e.port)
		srvs[i] = e
	}
	defer func() {
		for _, e := range srvs {
			if !e.down {
				e.srv.Stop()
			}
		}
	}()
	mk := func(idx []int, ws []wspec) []registry.Endpoint {
		var out []registry.Endpoint
		for k, i := range idx {
			out = append(out, registry.Endpoint{Host: srvs[i].host, Port: srvs[i].port, Timeout: 3000, Istcp: 1, Weight: ws[k].w, WeightType: ws[k].wt})
		}
		return out
	}
	all := make([]int, n)
	for i := range all {
		all[i] = i
	}
	rw := func(wt int32) []wspec {
		ws := make([]wspec, n)
		for i := range ws {
			ws[i] = wspec{int32(1 + r.Intn(6)), wt}
			if wt == 0 {
				ws[i].w = 0
			}
		}
		return ws
	}
	var first, final []registry.Endpoint
	weighted := false
	victim := -1
	recover := false
	switch kind {
	case "static-then-mixed":
		first = mk(all, rw(1))
		ws := rw(1)
		ws[1+id%(n-1)] = wspec{0, 0}
		final = mk(all, ws)
	case "mixed-then-static":
		ws := rw(1)
		ws[id%n] = wspec{0, 0}
		first = mk(all, ws)
		final = mk(all, rw(1))
		weighted = true
	case "loop-then-static":
		first = mk(all, rw(0))
		final = mk(all, rw(1))
		weighted = true
	case "superset-then-subset":
		first = mk(all, rw(0))
		drop := id % n
		var idx []int
		for _, i := range all {
			if i != drop {
				idx = append(idx, i)
			}
		}
		final = mk(idx, rw(0)[:len(idx)])
	case "weight-changed-while-down":
		// static weights; the victim fails and is taken out; while it is out the registry changes
		// its weight; it recovers through a probe.  A fresh client sees the new weight only.
		ws := rw(1)
		first = mk(all, ws)
		victim = (id / 6) % n
		ws2 := append([]wspec(nil), ws...)
		ws2[victim] = wspec{ws[victim].w%6 + 3, 1}
		final = mk(all, ws2)
		weighted = true
		recover = true
	case "mixed-odd-endpoint-down-refresh-recover":
		// mixed weight types (one loop endpoint among static ones, not the first by host): the set
		// is unweighted.  The loop endpoint fails and is taken out; while it is out the registry
		// answer changes (another endpoint's weight); it recovers through a probe.  The set is still
		// mixed, so a fresh client routes unweighted.
		ws := rw(1)
		victim = 1 + (id/8)%(n-1)
		ws[victim] = wspec{0, 0}
		first = mk(all, ws)
		ws2 := append([]wspec(nil), ws...)
		other := (victim + 1) % n
		ws2[other] = wspec{ws[other].w%6 + 2, 1}
		final = mk(all, ws2)
		recover = true
	case "status-check-removes-endpoint":
		first = mk(all, rw(0))
		victim = (id / 5) % n
		var idx []int
		for _, i := range all {
			if i != victim {
				idx = append(idx, i)
			}
		}
		final = mk(idx, rw(0)[:len(idx)])
	}
	newClient := func(eps []registry.Endpoint) (*rpcw.Client, *mreg) {
		reg := &mreg{}
		reg.set(eps)
		return rpcw.New("", rpcw.Opt{CommOpts: []tars.Option{tars.Registrar(reg)}, InvokeTimeoutMs: 300, DialTimeout: 200 * time.Millisecond, App: mgrApp}), reg
	}
	seq := 0
	route := func(cl *rpcw.Client, who string, ht int, code uint32) int {
		seq++
		tok := fmt.Sprintf("c14m-%d-%s-%d", id, who, seq)
		ctx := current.ContextWithClientCurrent(context.Background())
		if ht >= 0 {
			current.SetClientHash(ctx, ht, code)
		}
		_, _, err := cl.Call(ctx, "echo", []byte(tok), false)
		if err != nil {
			return -1
		}
		for i, e := range srvs {
			if e.got(tok) {
				return i
			}
		}
		return -1
	}
	// ---- client A: the history ----
	a, regA := newClient(first)
	for i := 0; i < 2*n; i++ {
		route(a, "A-warm", -1, 0) // round robin over the first set: creates the adapters
	}
	wit := func(extra map[string]interface{}) map[string]interface{} {
		m := map[string]interface{}{"scenario": kind, "id": id, "first_registry_answer": first, "final_registry_answer": final, "active_A": a.SP.VerifActiveEndpoints()}
		for k, v := range extra {
			m[k] = v
		}
		return m
	}
	if victim >= 0 {
		// the victim stops accepting connections; calls fail on it until a status check takes it out
		srvs[victim].srv.Stop()
		srvs[victim].down = true
		out := false
		for attempt := 0; attempt < 12 && !out; attempt++ {
			for i := 0; i < 3*n; i++ {
				route(a, "A-fail", -1, 0)
			}
			a.SP.VerifShiftHealthClock(6)
			a.SP.VerifCheckStatus()
			out = len(a.SP.VerifActiveEndpoints()) == n-1
		}
		if !out {
			run.Inconclusive(fmt.Sprintf("manager scenario %d: the refusing endpoint was not taken out of rotation by 12 status checks (C15's matter)", id))
			return
		}
		if recover {
			regA.set(final)
			if err := a.SP.VerifRefresh(); err != nil {
				run.Inconclusive("manager scenario: refresh failed: " + err.Error())
				return
			}
			// the victim comes back on the same address; 35 s later a status check queues a probe,
			// the next call is that probe, its success reinstates the endpoint
			back := false
			for i := 0; i < 100 && !back; i++ {
				if sv, err := netlab.NewScriptServerAt(srvs[victim].addr, srvs[victim].handler); err == nil {
					srvs[victim].srv, srvs[victim].down, back = sv, false, true
				} else {
					time.Sleep(10 * time.Millisecond)
				}
			}
			in := false
			for attempt := 0; attempt < 8 && back && !in; attempt++ {
				a.SP.VerifShiftHealthClock(35)
				a.SP.VerifCheckStatus()
				for i := 0; i < 2*n && !in; i++ {
					route(a, "A-probe", -1, 0)
					time.Sleep(5 * time.Millisecond)
					in = len(a.SP.VerifActiveEndpoints()) == n
				}
			}
			if !in {
				run.Inconclusive(fmt.Sprintf("manager scenario %d: the recovered endpoint did not return to rotation (C15's matter)", id))
				return
			}
		}
	} else {
		regA.set(final)
		if err := a.SP.VerifRefresh(); err != nil {
			run.Inconclusive("manager scenario: refresh failed: " + err.Error())
			return
		}
	}
	// ---- client B: started on the final set ----
	b, _ := newClient(final)
	for i := 0; i < 2*n; i++ {
		route(b, "B-warm", -1, 0)
	}
	actA, actB := a.SP.VerifActiveEndpoints(), b.SP.VerifActiveEndpoints()
	if fmt.Sprint(actA) != fmt.Sprint(actB) {
		// the active lists themselves differ (e.g. the victim was reinstated by a probe): nothing to compare
		run.Inconclusive(fmt.Sprintf("manager scenario %d (%s): active lists differ, A=%v B=%v", id, kind, actA, actB))
		return
	}
	keyIdx := map[string]int{}
	for i, e := range srvs {
		for _, k := range actA {
			if contains(k, fmt.Sprintf("-h %s -p %d ", e.host, e.port)) {
				keyIdx[k] = i
			}
		}
	}
	codes := []uint32{0, 1, 2, 3, 4, 5, uint32(len(actA)), 0xffffffff, 0x80000000}
	for i := 0; i < run.Pick(60, 300); i++ {
		codes = append(codes, r.Uint32())
	}
	judged := 0
	for _, code := range codes {
		for _, ht := range []int{0, 1} {
			if ht == 0 && recover {
				// an endpoint that returns through a probe is appended to the mod-hash list (Add), so the
				// slot order legitimately depends on that history; only consistent hashing must not
				continue
			}
			ra, rb := route(a, "A", ht, code), route(b, "B", ht, code)
			if ra < 0 || rb < 0 {
				run.Add("manager_calls_failed_not_judged", 1)
				continue
			}
			name := []string{"modhash", "conhash"}[ht]
			if ra != rb {
				run.Violation("history-dependent", "manager:"+kind+":"+name, fmt.Sprintf("two clients whose endpoint managers hold the same active set route code %d (%s) differently: the one that reached the set through '%s' sends it to %s, the one started on it to %s", code, name, kind, srvs[ra].host, srvs[rb].host),
					wit(map[string]interface{}{"code": code, "hash_type": name, "A": srvs[ra].host, "B": srvs[rb].host}))
				return
			}
			if ht == 0 && !weighted {
				want, ok := keyIdx[actA[int(code%uint32(len(actA)))]]
				if ok && want != ra {
					run.Violation("modhash-slot", "manager:"+kind, fmt.Sprintf("code %d went to %s; slot %d of the manager's active list is %s", code, srvs[ra].host, code%uint32(len(actA)), srvs[want].host), wit(map[string]interface{}{"code": code}))
					return
				}
			}
			judged++
		}
	}
	run.Eval(1)
	run.Add("manager_codes_judged", int64(judged))
	run.Distinct(fmt.Sprintf("manager|%s|n%d|%v", kind, n, actA))
}

func contains(s, sub string) bool {
	for i := 0; i+len(sub) <= len(s); i++ {
		if s[i:i+len(sub)] == sub {
			return true
		}
	}
	return false
}
