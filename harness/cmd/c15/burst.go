package main

import (
	"bytes"
	"context"
	"fmt"
	"os"
	"os/exec"
	"strings"
	"sync"
	"sync/atomic"
	"time"

	"github.com/TarsCloud/TarsGo/tars"
	"github.com/TarsCloud/TarsGo/tars/registry"
	"github.com/TarsCloud/TarsGo/tars/util/rogger"

	"verif/netlab"
	"verif/rpcw"
	"verif/vlib"
)

// "When every endpoint is blocked calls are still attempted on some endpoint instead of failing
// outright" — also when many callers are at it at once.  A child process (a crash must not take the
// monitor with it) blocks every endpoint of a registry-resolved proxy and then lets 32 goroutines
// call concurrently; the process must survive and every call must have been tried on an endpoint.

func burstChild() {
	rogger.SetLevel(rogger.OFF)
	app := tars.VerifNewApp()
	app.ClientConfig().CheckStatusInterval = 3600 * 1000
	app.ClientConfig().RefreshEndpointInterval = 3600 * 1000
	reg := &fakeReg{}
	var eps []*endpointSim
	for i := 0; i < 3; i++ {
		e := &endpointSim{idx: i, host: fmt.Sprintf("127.0.250.%d", i+1), mode: "ok", seen: map[string]bool{}}
		e.srv = netlab.NewScriptServerOnHost(e.host, e.handler)
		e.addr = e.srv.Addr
		_, p := netlab.HostPort(e.addr)
		fmt.Sscan(p, &e.port)
		e.key = fmt.Sprintf("tcp -h %s -p %d -t 3000", e.host, e.port)
		eps = append(eps, e)
		reg.active = append(reg.active, registry.Endpoint{Host: e.host, Port: int32(e.port), Timeout: 3000, Istcp: 1})
	}
	cl := rpcw.New("", rpcw.Opt{CommOpts: []tars.Option{tars.Registrar(reg)}, InvokeTimeoutMs: 60, DialTimeout: 200 * time.Millisecond, App: app})
	call := func(tok string) error {
		_, _, err := cl.Call(context.Background(), "echo", []byte(tok), false)
		return err
	}
	for i := 0; i < 6; i++ {
		_ = call(fmt.Sprintf("warm-%d", i))
	}
	for _, e := range eps {
		e.setMode("silent")
	}
	for round := 0; round < 4 && len(cl.SP.VerifActiveEndpoints()) > 0; round++ {
		for i := 0; i < 24; i++ {
			_ = call(fmt.Sprintf("fail-%d-%d", round, i))
		}
		cl.SP.VerifShiftHealthClock(6)
		cl.SP.VerifCheckStatus()
	}
	if n := len(cl.SP.VerifActiveEndpoints()); n > 0 {
		fmt.Printf("BURST-NOT-BLOCKED %d\n", n)
		os.Exit(0)
	}
	fmt.Println("BURST-ALL-BLOCKED")
	for _, e := range eps {
		e.setMode("refuse") // calls now fail at once: the callers come back to the selection at a high rate
	}
	var wg sync.WaitGroup
	var attempted, notAttempted atomic.Int64
	start := make(chan struct{})
	for g := 0; g < 32; g++ {
		wg.Add(1)
		go func(g int) {
			defer wg.Done()
			<-start
			for i := 0; i < 300; i++ {
				err := call(fmt.Sprintf("burst-%d-%d", g, i))
				if err != nil && strings.Contains(err.Error(), "no adapter") {
					notAttempted.Add(1)
				} else {
					attempted.Add(1)
				}
			}
		}(g)
	}
	close(start)
	wg.Wait()
	// the same selection at the rate a busy client reaches it (every call of every goroutine
	// passes through it): 16 goroutines, 300 000 selections each
	var none atomic.Int64
	var wg2 sync.WaitGroup
	for g := 0; g < 16; g++ {
		wg2.Add(1)
		go func() {
			defer wg2.Done()
			for i := 0; i < 300000; i++ {
				if cl.SP.VerifSelect() == "" {
					none.Add(1)
				}
			}
		}()
	}
	wg2.Wait()
	notAttempted.Add(none.Load())
	attempted.Add(16*300000 - none.Load())
	fmt.Printf("BURST-DONE attempted=%d not-attempted=%d\n", attempted.Load(), notAttempted.Load())
	os.Exit(0)
}

func burstPhase() {
	for rep := 0; rep < run.Pick(2, 10); rep++ {
		cmd := exec.Command(os.Args[0])
		cmd.Env = append(os.Environ(), "C15_BURST=1")
		var out, errb bytes.Buffer
		cmd.Stdout, cmd.Stderr = &out, &errb
		done := make(chan error, 1)
		if err := cmd.Start(); err != nil {
			run.Inconclusive("burst phase: cannot start the child: " + err.Error())
			return
		}
		go func() { done <- cmd.Wait() }()
		var werr error
		select {
		case werr = <-done:
		case <-time.After(3 * time.Minute):
			_ = cmd.Process.Kill()
			run.Inconclusive("burst phase: the child did not finish within 3 minutes")
			return
		}
		run.Eval(1)
		o := out.String()
		switch {
		case strings.Contains(o, "BURST-NOT-BLOCKED"):
			run.Inconclusive("burst phase: the endpoints could not all be blocked: " + vlib.Tail(o, 100))
		case strings.Contains(o, "BURST-ALL-BLOCKED") && !strings.Contains(o, "BURST-DONE"):
			run.Violation("P6-calls-fail-outright", "all-blocked:concurrent-callers", fmt.Sprintf("with every endpoint blocked, concurrent callers (32 goroutines calling, then 16 goroutines running the call path's endpoint selection 300 000 times each) ended the client process (%v): %s", werr, firstLine(errb.String())),
				map[string]interface{}{"stderr_tail": vlib.Tail(errb.String(), 3000), "stdout": vlib.Tail(o, 300)})
			return
		case strings.Contains(o, "BURST-DONE"):
			var a, n int
			fmt.Sscanf(o[strings.Index(o, "BURST-DONE"):], "BURST-DONE attempted=%d not-attempted=%d", &a, &n)
			if n > 0 {
				run.Violation("P6-calls-fail-outright", "all-blocked:concurrent-callers", fmt.Sprintf("with every endpoint blocked, %d of %d concurrent calls failed with 'no adapter' without having been tried on any endpoint", n, a+n), map[string]interface{}{"stdout": vlib.Tail(o, 300)})
				return
			}
			run.Distinct(fmt.Sprintf("burst|%d|%d", rep, a))
		default:
			run.Inconclusive("burst phase: unexpected child output: " + vlib.Tail(o+errb.String(), 200))
		}
	}
}

func firstLine(s string) string {
	for _, l := range strings.Split(s, "\n") {
		if strings.HasPrefix(l, "panic:") || strings.HasPrefix(l, "fatal error:") {
			return l
		}
	}
	return vlib.Tail(s, 160)
}
