// C15 — failover: failing endpoints leave rotation, are probed, and come back.
//
// Monitor: a real communicator + endpoint manager + adapters with a fake registrar (2..4 endpoints
// on distinct loopback hosts), one scripted server per endpoint whose behaviour per step is
// scripted (answer / stay silent / refuse), real calls with short timeouts.  Time is virtual: the
// automatic status ticker is configured out of the way, the monitor runs status checks itself
// (hook VerifCheckStatus) and lets time pass by shifting the adapters' health timestamps (hook
// VerifShiftHealthClock); real seconds elapsing during a script are added to the virtual clock.
// Which server receives which token is the observation; the trace assertions P1..P6 of the
// property are checked over the joined log with margins around the 5 s / 30 s thresholds.
package main

import (
	"context"
	"fmt"
	"github.com/TarsCloud/TarsGo/tars/util/current"
	"math/rand"
	"os"
	"strings"
	"sync"
	"time"

	"github.com/TarsCloud/TarsGo/tars"
	"github.com/TarsCloud/TarsGo/tars/registry"
	"github.com/TarsCloud/TarsGo/tars/util/rogger"

	"verif/netlab"
	"verif/rpcw"
	"verif/vlib"
)

var run *vlib.Run

// ---------- fake registrar ----------

type fakeReg struct {
	mu       sync.Mutex
	active   []registry.Endpoint
	inactive []registry.Endpoint
}

func (f *fakeReg) Registry(ctx context.Context, s *registry.ServantInstance) error   { return nil }
func (f *fakeReg) Deregister(ctx context.Context, s *registry.ServantInstance) error { return nil }
func (f *fakeReg) QueryServant(ctx context.Context, id string) ([]registry.Endpoint, []registry.Endpoint, error) {
	f.mu.Lock()
	defer f.mu.Unlock()
	return append([]registry.Endpoint(nil), f.active...), append([]registry.Endpoint(nil), f.inactive...), nil
}
func (f *fakeReg) QueryServantBySet(ctx context.Context, id, set string) ([]registry.Endpoint, []registry.Endpoint, error) {
	return f.QueryServant(ctx, id)
}

// ---------- scripted endpoints ----------

type endpointSim struct {
	idx  int
	host string
	port int
	key  string
	srv  *netlab.ScriptServer
	mu   sync.Mutex
	mode string // ok | silent | refuse | late (answers after the caller timed out)
	seen map[string]bool
	addr string
}

func (e *endpointSim) handler(ev *netlab.ReqEvent) {
	if ev.Err != nil {
		return
	}
	e.mu.Lock()
	e.seen[string(ev.Req.Buffer)] = true
	m := e.mode
	e.mu.Unlock()
	switch m {
	case "ok":
		_ = ev.Conn.Send(netlab.Echo(ev))
	case "late":
		// the answer arrives when the caller has long given up (the calls' timeout is 60 ms): for
		// the caller, and for the health rules, the call failed
		rsp := netlab.Echo(ev)
		conn := ev.Conn
		time.AfterFunc(150*time.Millisecond, func() { _ = conn.Send(rsp) })
	}
}

func (e *endpointSim) setMode(m string) {
	e.mu.Lock()
	old := e.mode
	e.mode = m
	e.mu.Unlock()
	if m == "refuse" && old != "refuse" {
		e.srv.Stop()
	}
	if m != "refuse" && old == "refuse" {
		for i := 0; i < 100; i++ {
			s, err := netlab.NewScriptServerAt(e.addr, e.handler)
			if err == nil {
				e.srv = s
				return
			}
			time.Sleep(10 * time.Millisecond)
		}
	}
}

func (e *endpointSim) got(tok string) bool {
	e.mu.Lock()
	defer e.mu.Unlock()
	return e.seen[tok]
}

// ---------- model of what the property allows ----------

type epModel struct {
	failSince   int   // failed calls since (re)instatement
	streak      int   // consecutive failures
	streakStart int64 // virtual second of the first failure of the current streak
	blocked     bool  // observed: not in the active list
	lastProbe   int64 // virtual second of the last probe call seen
	probes      int
	away        bool // the registry currently lists it as inactive: not the health rules' matter
}

type step struct {
	Op    string `json:"op"` // calls | mode | advance | check
	N     int    `json:"n,omitempty"`
	Ep    int    `json:"endpoint,omitempty"`
	Mode  string `json:"mode,omitempty"`
	Delta int64  `json:"seconds,omitempty"`
	Note  string `json:"observed,omitempty"`
}

func runScript(id int, r *rand.Rand, nSteps int) {
	nEp := 2 + r.Intn(3)
	reg := &fakeReg{}
	eps := make([]*endpointSim, nEp)
	for i := range eps {
		e := &endpointSim{idx: i, host: fmt.Sprintf("127.0.%d.%d", 1+id%200, i+1), mode: "ok", seen: map[string]bool{}}
		e.srv = netlab.NewScriptServerOnHost(e.host, e.handler)
		e.addr = e.srv.Addr
		_, p := netlab.HostPort(e.addr)
		fmt.Sscan(p, &e.port)
		// the timeout a registry states is part of an endpoint's description (and key): 0 — "none
		// stated" — is as legitimate as any other value
		tmo := []int32{3000, 0, 60000, 3000, 0}[id%5]
		e.key = fmt.Sprintf("tcp -h %s -p %d -t %d", e.host, e.port, tmo)
		eps[i] = e
		reg.active = append(reg.active, registry.Endpoint{Host: e.host, Port: int32(e.port), Timeout: tmo, Istcp: 1})
	}
	defer func() {
		for _, e := range eps {
			e.srv.Stop()
		}
	}()
	cl := rpcw.New("", rpcw.Opt{CommOpts: []tars.Option{tars.Registrar(reg)}, InvokeTimeoutMs: 60, DialTimeout: 200 * time.Millisecond, App: sharedApp})
	models := make([]*epModel, nEp)
	for i := range models {
		models[i] = &epModel{lastProbe: -1000}
	}
	start := time.Now()
	var shifted int64
	now := func() int64 { return shifted + int64(time.Since(start)/time.Second) }
	var trace []step
	wit := func(extra map[string]interface{}) map[string]interface{} {
		t := trace
		if len(t) > 40 {
			t = t[len(t)-40:]
		}
		var mods []string
		for i, mm := range models {
			mods = append(mods, fmt.Sprintf("ep%d{blocked:%v failSince:%d streak:%d lastProbe:%d key:%s}", i, mm.blocked, mm.failSince, mm.streak, mm.lastProbe, eps[i].key))
		}
		m := map[string]interface{}{"script": id, "endpoints": nEp, "trace_tail": t, "virtual_now_s": now(), "model": mods, "active_now": cl.SP.VerifActiveEndpoints(), "adapters": cl.SP.VerifAdapters()}
		for k, v := range extra {
			m[k] = v
		}
		return m
	}
	activeSet := func() map[string]bool {
		m := map[string]bool{}
		for _, k := range cl.SP.VerifActiveEndpoints() {
			m[k] = true
		}
		return m
	}
	anyActive := func() bool {
		for _, m := range models {
			if !m.blocked {
				return true
			}
		}
		return false
	}
	callN := 0
	doCall := func() bool {
		callN++
		tok := fmt.Sprintf("c15-%d-%d", id, callN)
		// routing kind: round robin, mod hash, consistent hash — the health rules are the same for all
		ctx := context.Background()
		if k := callN % 4; k == 1 || k == 3 {
			ctx = current.ContextWithClientCurrent(ctx)
			current.SetClientHash(ctx, k/2, uint32(callN)*2654435761)
		}
		before := map[string]int32{}
		for _, a := range cl.SP.VerifAdapters() {
			before[a.Key] = a.SendCount + a.FailCount
		}
		_, _, err := cl.Call(ctx, "echo", []byte(tok), false)
		class := rpcw.ErrClass(err)
		target := -1
		defer func() {
			if debug {
				fmt.Printf("  t=%d call %s -> target %d class %s active=%v adapters=%+v\n", now(), tok, target, class, cl.SP.VerifActiveEndpoints(), cl.SP.VerifAdapters())
			}
		}()
		for i, e := range eps {
			if e.got(tok) {
				target = i
			}
		}
		if target < 0 && err != nil {
			// refused / dial failure: the error text names the endpoint address for timeouts only;
			// a connection-level failure is attributed through the adapters' counters below
			for i, e := range eps {
				if strings.Contains(err.Error(), fmt.Sprintf("%s:%d", e.host, e.port)) {
					target = i
				}
			}
		}
		if target < 0 && err != nil {
			// attribution through the adapters' counters: which known endpoint was the call tried on?
			for _, a := range cl.SP.VerifAdapters() {
				if a.SendCount+a.FailCount != before[a.Key] {
					for i, e := range eps {
						if a.Key == e.key {
							target = i
						}
					}
				}
			}
			if target < 0 && !anyActive() {
				run.Violation("P6-calls-fail-outright", "all-blocked:not-attempted", fmt.Sprintf("every endpoint is blocked and call %s (routing kind %d) failed with %q without having been tried on any of the registry's endpoints", tok, callN%4, err), wit(nil))
				return false
			}
		}
		if class == "no-adapter" || strings.HasPrefix(class, "other:no adapter") {
			run.Violation("P6-calls-fail-outright", "all-blocked", fmt.Sprintf("call %s failed with %q without being attempted on any endpoint (every endpoint blocked: %v)", tok, err, !anyActive()), wit(nil))
			return false
		}
		if target >= 0 && models[target].away {
			return true
		}
		if target >= 0 {
			m := models[target]
			if m.blocked && !anyActive() {
				// every endpoint is blocked: calls go to some endpoint anyway (P6); such a call may also
				// be the pending probe of this endpoint, in which case a success reinstates it
				if err == nil && waitFor(func() bool { return activeSet()[eps[target].key] }, 300*time.Millisecond) {
					m.blocked = false
					m.failSince, m.streak = 0, 0
					m.lastProbe = now()
					run.Add("reinstatements_observed", 1)
				}
				return true
			}
			if m.blocked && anyActive() {
				// a call reaching a blocked endpoint while others are active must be a probe
				t := now()
				if t-m.lastProbe < 27 {
					run.Violation("P4-blocked-endpoint-receives-calls", "probe-interval", fmt.Sprintf("blocked endpoint %d received call %s %d s (virtual) after its previous probe; probes are allowed every 30 s", target, tok, t-m.lastProbe), wit(map[string]interface{}{"endpoint": target}))
					return false
				}
				m.lastProbe = t
				m.probes++
				run.Add("probes_observed", 1)
				if err == nil {
					// successful probe: back in rotation as soon as it succeeded (reinstatement is asynchronous)
					ok := waitFor(func() bool { return activeSet()[eps[target].key] }, 2*time.Second)
					if !ok {
						run.Violation("P5-not-reinstated-after-successful-probe", "reinstatement", fmt.Sprintf("endpoint %d answered its probe call %s but is still out of rotation 2 s later", target, tok), wit(map[string]interface{}{"endpoint": target}))
						return false
					}
					m.blocked = false
					m.failSince, m.streak = 0, 0
					run.Add("reinstatements_observed", 1)
				} else if activeSet()[eps[target].key] {
					run.Violation("P5-reinstated-after-failed-probe", "reinstatement", fmt.Sprintf("endpoint %d failed its probe call %s but is back in rotation", target, tok), wit(map[string]interface{}{"endpoint": target}))
					return false
				}
				return true
			}
			if err == nil {
				m.streak = 0
			} else {
				if m.streak == 0 {
					m.streakStart = now()
				}
				m.streak++
				m.failSince++
			}
		}
		return true
	}
	check := func() bool {
		cl.SP.VerifCheckStatus()
		if debug {
			fmt.Printf("t=%d CHECK active=%v adapters=%+v\n", now(), cl.SP.VerifActiveEndpoints(), cl.SP.VerifAdapters())
		}
		act := activeSet()
		for i, e := range eps {
			m := models[i]
			in := act[e.key]
			if !in && !m.blocked {
				// transition to blocked
				if m.failSince == 0 {
					run.Violation("P1-healthy-endpoint-removed", "rotation", fmt.Sprintf("endpoint %d was taken out of rotation although no call to it failed since it was (re)instated", i), wit(map[string]interface{}{"endpoint": i}))
					return false
				}
				if m.failSince < 2 {
					run.Violation("P2-removed-with-fewer-than-two-failures", "rotation", fmt.Sprintf("endpoint %d was taken out of rotation with %d failed call since it was (re)instated", i, m.failSince), wit(map[string]interface{}{"endpoint": i}))
					return false
				}
				m.blocked = true
				m.lastProbe = now() // blocking starts the 30 s retry clock
				run.Add("blockings_observed", 1)
			}
			if in && m.blocked {
				run.Violation("P5-reinstated-without-probe", "reinstatement", fmt.Sprintf("endpoint %d is back in rotation without a successful probe call", i), wit(map[string]interface{}{"endpoint": i}))
				return false
			}
			if in && !m.blocked && m.streak >= 5 && now()-m.streakStart >= 8 {
				others := false
				for j, o := range models {
					if j != i && !o.blocked {
						others = true
					}
				}
				if others {
					run.Violation("P3-failing-endpoint-stays-in-rotation", "rotation", fmt.Sprintf("endpoint %d failed %d calls in a row over %d s (virtual) and is still in rotation after a status check although another endpoint is active", i, m.streak, now()-m.streakStart), wit(map[string]interface{}{"endpoint": i}))
					return false
				}
			}
		}
		return true
	}
	// warm up: every endpoint answers once (creates the adapters)
	for i := 0; i < 2*nEp; i++ {
		if !doCall() {
			return
		}
	}
	if id%3 == 0 {
		// boundary prologue: exactly one failed call on endpoint 0 (connection refused), 6 s pass, a
		// status check: one failure must not take it out of rotation
		trace = append(trace, step{Op: "mode", Ep: 0, Mode: "refuse"})
		eps[0].setMode("refuse")
		for k := 0; k < 3*nEp && models[0].failSince == 0; k++ {
			trace = append(trace, step{Op: "calls", N: 1})
			if !doCall() {
				return
			}
		}
		trace = append(trace, step{Op: "advance", Delta: 6})
		cl.SP.VerifShiftHealthClock(6)
		shifted += 6
		trace = append(trace, step{Op: "check"})
		if !check() {
			return
		}
		trace = append(trace, step{Op: "mode", Ep: 0, Mode: "ok"})
		eps[0].setMode("ok")
		run.Add("single_failure_prologues", 1)
	}
	if id%3 == 1 && nEp >= 2 {
		// probe-window prologue: endpoint 0 fails until it is blocked; 35 s later a status check
		// hands out its probe; nobody calls; the registry's answer changes in a non-identity field
		// and is refreshed; 35 s later another status check; then calls resume: the blocked endpoint gets ONE
		// probe call, not one per status check that happened while nobody called
		trace = append(trace, step{Op: "mode", Ep: 0, Mode: "silent"}) // it still accepts connections: a probe can be handed out
		eps[0].setMode("silent")
		for round := 0; round < 3 && !models[0].blocked; round++ {
			trace = append(trace, step{Op: "calls", N: 6 * nEp})
			for k := 0; k < 6*nEp; k++ {
				if !doCall() {
					return
				}
			}
			trace = append(trace, step{Op: "advance", Delta: 6}, step{Op: "check"})
			cl.SP.VerifShiftHealthClock(6)
			shifted += 6
			if !check() {
				return
			}
		}
		if models[0].blocked {
			trace = append(trace, step{Op: "advance", Delta: 35}, step{Op: "check"})
			cl.SP.VerifShiftHealthClock(35)
			shifted += 35
			if !check() {
				return
			}
			reg.mu.Lock()
			changed := append([]registry.Endpoint(nil), reg.active...)
			changed[len(changed)-1].Grid++
			reg.active = changed
			reg.mu.Unlock()
			trace = append(trace, step{Op: "registry-changes-grid-or-qos", Ep: len(changed) - 1})
			_ = cl.SP.VerifRefresh()
			trace = append(trace, step{Op: "advance", Delta: 35}, step{Op: "check"}, step{Op: "calls", N: 4})
			cl.SP.VerifShiftHealthClock(35)
			shifted += 35
			if !check() {
				return
			}
			for k := 0; k < 4; k++ {
				if !doCall() {
					return
				}
			}
			run.Add("probe_window_prologues", 1)
		}
		trace = append(trace, step{Op: "mode", Ep: 0, Mode: "ok"})
		eps[0].setMode("ok")
	}
	for s := 0; s < nSteps; s++ {
		switch c := r.Intn(10); {
		case c < 4:
			n := 3 + r.Intn(10)
			if r.Intn(3) == 0 {
				n = 1 + r.Intn(2) // a single call (one failure, then a status check) is a boundary of its own
			}
			trace = append(trace, step{Op: "calls", N: n})
			for k := 0; k < n; k++ {
				if !doCall() {
					return
				}
			}
		case c < 6:
			ep := r.Intn(nEp)
			mode := []string{"ok", "ok", "silent", "silent", "refuse", "late"}[r.Intn(6)]
			trace = append(trace, step{Op: "mode", Ep: ep, Mode: mode})
			if debug {
				fmt.Printf("t=%d MODE ep%d %s\n", now(), ep, mode)
			}
			eps[ep].setMode(mode)
		case c == 6 && r.Intn(2) == 0 && nEp >= 3:
			// the registry moves one endpoint to its inactive list and, two calls later, back: it
			// returns as a fresh member of the rotation, under the health rules like any other
			j := r.Intn(nEp)
			// only an endpoint in good standing (nothing to carry over), and only while another one
			// stays in rotation (so that the all-blocked rules do not come into play)
			eps[j].mu.Lock()
			jmode := eps[j].mode
			eps[j].mu.Unlock()
			others := 0
			for k2, m2 := range models {
				if k2 != j && !m2.blocked {
					others++
				}
			}
			if jmode != "ok" || models[j].blocked || models[j].failSince != 0 || models[j].streak != 0 || others == 0 {
				continue
			}
			trace = append(trace, step{Op: "registry-away-and-back", Ep: j})
			all := append([]registry.Endpoint(nil), reg.active...)
			var rest, gone []registry.Endpoint
			for _, f := range all {
				if f.Host == eps[j].host {
					gone = append(gone, f)
				} else {
					rest = append(rest, f)
				}
			}
			reg.mu.Lock()
			reg.active, reg.inactive = rest, gone
			reg.mu.Unlock()
			models[j].away = true
			_ = cl.SP.VerifRefresh()
			for k := 0; k < 2; k++ {
				if !doCall() {
					return
				}
			}
			reg.mu.Lock()
			reg.active, reg.inactive = all, nil
			reg.mu.Unlock()
			_ = cl.SP.VerifRefresh()
			if !activeSet()[eps[j].key] {
				run.Inconclusive(fmt.Sprintf("script %d: an endpoint the registry lists as active again is not in the active list after the refresh", id))
				return
			}
			models[j].away = false
			run.Add("registry_away_and_back_steps", 1)
		case c == 6:
			// the registry's answer changes in a field that is no part of an endpoint's identity
			// (grid, qos): the refresh takes the changed-list path; whom the list names and what
			// is known about their health stay as they are
			j := r.Intn(nEp)
			reg.mu.Lock()
			changed := append([]registry.Endpoint(nil), reg.active...)
			for k := range changed {
				if changed[k].Host == eps[j].host {
					if r.Intn(2) == 0 {
						changed[k].Grid++
					} else {
						changed[k].Qos++
					}
				}
			}
			reg.active = changed
			reg.mu.Unlock()
			trace = append(trace, step{Op: "registry-changes-grid-or-qos", Ep: j})
			_ = cl.SP.VerifRefresh()
			run.Add("registry_field_change_steps", 1)
			if !check() {
				return
			}
		case c < 8:
			d := []int64{1, 2, 9, 10, 12, 34, 35, 40, 70}[r.Intn(9)]
			trace = append(trace, step{Op: "advance", Delta: d})
			if debug {
				fmt.Printf("t=%d ADVANCE %d\n", now(), d)
			}
			cl.SP.VerifShiftHealthClock(d)
			shifted += d
		default:
			trace = append(trace, step{Op: "check"})
			if !check() {
				return
			}
		}
	}
	// closing sequence: heal everything, let 35 s pass, check, call: every endpoint must be back
	for _, e := range eps {
		e.setMode("ok")
	}
	for round := 0; round < 4; round++ {
		cl.SP.VerifShiftHealthClock(35)
		shifted += 35
		trace = append(trace, step{Op: "advance", Delta: 35}, step{Op: "check"})
		if !check() {
			return
		}
		for k := 0; k < 3*nEp; k++ {
			if !doCall() {
				return
			}
		}
	}
	act := activeSet()
	for i, e := range eps {
		if !act[e.key] {
			run.Violation("P5-healed-endpoint-never-returns", "reinstatement", fmt.Sprintf("endpoint %d answers again but is still out of rotation after four 35 s probe rounds", i), wit(map[string]interface{}{"endpoint": i}))
			return
		}
	}
	run.Eval(1)
	run.Add("calls_observed", int64(callN))
	var sb strings.Builder
	for _, m := range models {
		fmt.Fprintf(&sb, "%d/", m.probes)
	}
	run.Distinct(fmt.Sprintf("script|%d|%d|%s|%d", id, nEp, sb.String(), callN))
	if id == 2 {
		run.Sample(map[string]interface{}{"script": id, "endpoints": nEp, "steps": trace[:min(len(trace), 25)]})
	}
}

func waitFor(cond func() bool, d time.Duration) bool {
	dl := time.Now().Add(d)
	for !cond() {
		if time.Now().After(dl) {
			return false
		}
		time.Sleep(time.Millisecond)
	}
	return true
}

var sharedApp *tars.VerifApp
var debug = os.Getenv("C15_DEBUG") != ""

func main() {
	if os.Getenv("C15_BURST") != "" {
		burstChild()
		return
	}
	run = vlib.Start("C15")
	rogger.SetLevel(rogger.OFF)
	run.SetRule("seeded scripts of 20..80 steps over 2..4 registry endpoints (distinct loopback hosts; stated timeouts 3000, 0 and 60000 ms): batches of real calls (60 ms timeout), behaviour changes per endpoint {answer, silent, refuse}, virtual time advances {1,2,9,10,12,34,35,40,70 s}, status checks; a healing tail (35 s x 4 rounds). Trace assertions: P1 no removal without failures, P2 no removal with <2 failures, P3 >=5 consecutive failures over >=8 s (margin) => removed at the next check while another endpoint is active, P4 a blocked endpoint sees at most one probe per 27 s (margin), P5 reinstated iff the probe succeeded, P6 calls are attempted somewhere when all are blocked. A case is one script; distinct by (script, endpoints, probes per endpoint, calls).")
	run.Assume("virtual time = shifts of the adapters' health timestamps (every comparison in the health check has the form now - stamp >= K) plus the real seconds elapsed; margins of 3 s around the 5 s / 30 s thresholds absorb second granularity")
	// the process-wide endpoint manager takes its ticker intervals from the first application:
	// put the automatic status check and registry refresh out of the way
	sharedApp = tars.VerifNewApp()
	sharedApp.ClientConfig().CheckStatusInterval = 3600 * 1000
	sharedApp.ClientConfig().RefreshEndpointInterval = 3600 * 1000
	n := run.Pick(60, 1500)
	sem := make(chan struct{}, 16)
	var wg sync.WaitGroup
	// the first script initialises the global manager before the others start
	runScript(0, run.Rand("c15-0"), 20)
	for i := 1; i < n; i++ {
		if o := os.Getenv("C15_ONLY"); o != "" && o != fmt.Sprint(i) {
			continue
		}
		wg.Add(1)
		sem <- struct{}{}
		go func(i int) {
			defer wg.Done()
			defer func() { <-sem }()
			runScript(i, run.Rand(fmt.Sprintf("c15-%d", i)), 20+i%60)
		}(i)
	}
	wg.Wait()
	burstPhase()
	run.Finish()
}
