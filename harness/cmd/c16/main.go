// C16 — tars2go: valid IDL yields compiling, conformant code; the tool always terminates; the
// checked-in bindings are what the generator produces.
//
// Monitor (child-process pipeline, everything built from the working tree):
//  1. probe programs, one per language construct, plus seeded random programs from a grammar of
//     the IDL language are written out;
//  2. the tree's tars2go runs on each under a watchdog on consumed CPU time (exit status, output
//     and CPU time are the events);
//  3. every emitted package is compiled with `go build` against the framework;
//  4. the compiled corpus is driven by the codec engine (cmd/c16engine: round trip, reference
//     decoder, canonical form, unknown-field skipping) built with the corpus through an overlay;
//  5. malformed input — every token-boundary truncation, single-token deletion / duplication /
//     swap, random bytes, degenerate megabyte inputs — must make the tool exit on its own, with a
//     diagnostic and a non-zero status for truncations inside a definition;
//  6. the Makefile command of tars/protocol/res is re-run on copies of the framework's own IDL
//     files and compared with the checked-in bindings after dropping the version banner and
//     normalising both with gofmt.
package main

import (
	"bytes"
	"encoding/json"
	"fmt"
	"go/format"
	"math/rand"
	"os"
	"os/exec"
	"path/filepath"
	"sort"
	"strings"
	"sync"
	"time"

	"verif/vlib"
)

var run *vlib.Run
var buildDir string
var t2g string

type program struct {
	Name      string // module name == file base name
	Src       string
	Construct string   // probe: the construct it isolates; random: "random"
	Includes  []string // module names it includes
	Modules   []string // modules the file defines (nil: just Name)
}

func (p program) modules() []string {
	if len(p.Modules) > 0 {
		return p.Modules
	}
	return []string{p.Name}
}

// ---------- probe programs ----------

func probe(name, construct, body string, includes ...string) program {
	var sb strings.Builder
	for _, inc := range includes {
		fmt.Fprintf(&sb, "#include \"%s.tars\"\n", inc)
	}
	fmt.Fprintf(&sb, "module %s\n{\n%s\n};\n", name, body)
	return program{Name: name, Src: sb.String(), Construct: construct, Includes: includes}
}

func probes() []program {
	var ps []program
	n := 0
	add := func(construct, body string, includes ...string) {
		n++
		ps = append(ps, probe(fmt.Sprintf("Pb%d", n), construct, body, includes...))
	}
	// a base module other probes include
	ps = append(ps, probe("PbBase", "base-module", `
    enum BaseColor { BRED, BGREEN = 7, BBLUE };
    struct BasePoint { 0 require int x; 1 optional int y = 2; };
    const int BASE_MAX = 8;`))
	scalars := []string{"bool", "byte", "unsigned byte", "short", "unsigned short", "int", "unsigned int", "long", "float", "double", "string"}
	for _, t := range scalars {
		add("require-"+t, fmt.Sprintf("    struct S { 0 require %s v; };", t))
		add("optional-no-default-"+t, fmt.Sprintf("    struct S { 0 optional %s v; 1 require int tail; };", t))
		add("vector-of-"+t, fmt.Sprintf("    struct S { 0 require vector<%s> v; 1 optional vector<%s> w; };", t, t))
		add("array-of-"+t, fmt.Sprintf("    struct S { 0 require %s v[3]; };", t))
	}
	defaults := map[string]string{"bool": "true", "byte": "-7", "unsigned byte": "200", "short": "-300", "unsigned short": "60000", "int": "-100000", "unsigned int": "4000000000",
		"long": "5000000000", "float": "1.5", "double": "-2.25", "string": `"a b"`}
	for _, t := range scalars {
		add("optional-default-"+t, fmt.Sprintf("    struct S { 0 optional %s v = %s; 1 require int tail; };", t, defaults[t]))
		add("require-default-"+t, fmt.Sprintf("    struct S { 0 require %s v = %s; };", t, defaults[t]))
	}
	add("enum-implicit-explicit", "    enum E { A, B = 5, C, D = -3, F };\n    struct S { 0 require E e; 1 optional E f = B; };")
	add("array-of-enum", "    enum E { A, B };\n    struct S { 0 require E v[2]; };")
	add("vector-of-enum", "    enum E { A, B };\n    struct S { 0 require vector<E> v; 1 require map<E, E> m; };")
	add("array-of-struct", "    struct I { 0 require int a; };\n    struct S { 0 require I v[2]; 1 optional I w[2]; };")
	add("array-of-vector", "    struct S { 0 require vector<int> v[2]; };")
	add("nested-struct", "    struct I { 0 require int a; 1 optional string s = \"d\"; };\n    struct S { 0 require I i; 1 optional I j; 2 require vector<I> k; 3 require map<string, I> m; };")
	add("deep-containers", "    struct I { 0 require int a; };\n    struct S { 0 require vector<vector<vector<int>>> a; 1 require map<string, map<int, vector<I>>> b; 2 require vector<map<long, string>> c; };")
	add("map-key-kinds", "    struct S { 0 require map<bool, int> a; 1 require map<byte, int> b; 2 require map<long, int> c; 3 require map<string, int> d; 4 require map<unsigned int, int> e; 5 require map<short, string> f; };")
	add("tags-unordered-and-extended", "    struct S { 200 require int d; 0 require int a; 15 optional string c; 14 require short b; 255 optional long e = 1; };")
	add("empty-struct", "    struct E { };\n    struct S { 0 require E e; 1 optional vector<E> v; };")
	add("consts", "    const int CI = -5;\n    const long CL = 5000000000;\n    const string CS = \"text\";\n    const bool CB = true;\n    const float CF = 1.5;\n    const double CD = 2.5;\n    const short CSH = 7;\n    const byte CBY = 3;\n    const unsigned int CU = 4000000000;\n    struct S { 0 require int a; };")
	add("key-declaration", "    struct S { 0 require string host; 1 require int port; };\n    key[S, host, port];")
	add("cross-module-struct", "    struct S { 0 require PbBase::BasePoint p; 1 optional vector<PbBase::BasePoint> v; 2 require map<int, PbBase::BasePoint> m; };", "PbBase")
	add("cross-module-enum-default", "    struct S { 0 require PbBase::BaseColor c; 1 optional PbBase::BaseColor d = PbBase::BGREEN; };", "PbBase")
	// includes two levels deep: Top includes Mid, Mid includes Base, Top names Base types directly
	ps = append(ps, probe("PbMid", "include-level-1", "    struct MidBox { 0 require PbBase::BasePoint p; 1 optional PbBase::BaseColor c = PbBase::BBLUE; };", "PbBase"))
	ps = append(ps, probe("PbTop", "include-two-levels-deep", "    struct TopS { 0 require PbMid::MidBox b; 1 require PbBase::BasePoint direct; 2 optional vector<PbBase::BaseColor> cs; };\n    interface TopI { PbBase::BasePoint f(PbMid::MidBox b, out PbBase::BaseColor c); };", "PbMid"))
	// several modules in one file, later ones naming earlier ones; with and without an include
	ps = append(ps, program{Name: "PbMulti", Construct: "two-modules-in-one-file", Modules: []string{"PbMultiA", "PbMultiB"},
		Src: "module PbMultiA\n{\n    struct A { 0 require int x; };\n};\nmodule PbMultiB\n{\n    struct B { 0 require PbMultiA::A a; 1 optional vector<PbMultiA::A> v; };\n};\n"})
	ps = append(ps, program{Name: "PbM2", Construct: "three-modules-in-one-file-with-include", Modules: []string{"PbM2A", "PbM2B", "PbM2C"}, Includes: []string{"PbBase"},
		Src: "#include \"PbBase.tars\"\nmodule PbM2A\n{\n    struct A { 0 require PbBase::BasePoint p; };\n};\nmodule PbM2B\n{\n    struct B { 0 require int y; };\n};\nmodule PbM2C\n{\n    struct C { 0 require PbBase::BaseColor c; 1 require PbM2A::A a; 2 optional PbBase::BasePoint q; };\n};\n"})
	add("interface-basic", "    struct I { 0 require int a; };\n    interface F { int f(int a, string b, out long c); void g(); I h(I i, out I o, vector<I> v, out map<string, I> m); };")
	add("interface-out-first", "    interface F { long f(out string o, string i, int x); bool g(out int a, out int b); };")
	add("interface-all-scalars", "    interface F { int f(bool a, byte b, short c, int d, long e, float f1, double g, string h, unsigned byte i, unsigned short j, unsigned int k, out bool oa, out byte ob, out short oc, out int od, out long oe, out float of1, out double og, out string oh, out unsigned byte oi, out unsigned short oj, out unsigned int ok); };")
	add("interface-containers", "    enum E { A, B };\n    interface F { vector<byte> f(vector<byte> a, out vector<byte> b); map<string, vector<int>> g(map<string, vector<int>> a, vector<E> e, out E o); };")
	add("interface-cross-module", "    interface F { PbBase::BasePoint f(PbBase::BasePoint p, PbBase::BaseColor c, out PbBase::BaseColor o); };", "PbBase")
	add("member-named-like-go-keyword", "    struct S { 0 require int type; 1 require string func; 2 optional int range = 1; 3 require int select; 4 require string chan; 5 require int go; 6 require int defer; 7 require int var; 8 require int package; 9 require int import; };")
	add("member-named-like-builtin", "    struct S { 0 require int len; 1 require string cap; 2 require int error; 3 require int buf; 4 require int st; 5 require int err; 6 require int length; 7 require int have; 8 require int ty; 9 require int readBuf; 10 require vector<int> make; 11 require map<string, int> append; };")
	add("lowercase-struct-and-enum-names", "    enum color { red, green };\n    struct point { 0 require int x; 1 optional color c = green; };\n    struct S { 0 require point p; 1 require vector<point> v; };")
	add("comments-everywhere", "    // line comment\n    /* block\n       comment */ struct S /* c */ { 0 require /* c */ int a; // trailing\n    };\n    // comment before the end")
	add("unsigned-in-containers", "    struct S { 0 require vector<unsigned int> a; 1 require map<unsigned short, unsigned byte> b; 2 optional vector<unsigned byte> c; };")
	add("optional-containers-and-structs", "    struct I { 0 require int a; };\n    struct S { 0 optional vector<int> a; 1 optional map<string, string> b; 2 optional I c; 3 optional vector<byte> d; 4 require int e; };")
	return ps
}

// ---------- random programs ----------

type rgen struct {
	r       *rand.Rand
	structs []string
	enums   map[string][]string
	enumOrd []string
}

var scalarTypes = []string{"bool", "byte", "short", "int", "long", "float", "double", "string", "unsigned byte", "unsigned short", "unsigned int"}

func (g *rgen) typ(depth int) string {
	switch c := g.r.Intn(12); {
	case c < 5 || depth > 2:
		return scalarTypes[g.r.Intn(len(scalarTypes))]
	case c < 7:
		return "vector<" + g.typ(depth+1) + ">"
	case c < 8:
		k := []string{"string", "int", "long", "short", "byte", "bool"}[g.r.Intn(6)]
		return "map<" + k + ", " + g.typ(depth+1) + ">"
	case c < 10 && len(g.structs) > 0:
		return g.structs[g.r.Intn(len(g.structs))]
	case c < 11 && len(g.enumOrd) > 0:
		return g.enumOrd[g.r.Intn(len(g.enumOrd))]
	}
	return scalarTypes[g.r.Intn(len(scalarTypes))]
}

func (g *rgen) def(t string) string {
	switch t {
	case "bool":
		return []string{"true", "false"}[g.r.Intn(2)]
	case "byte":
		return fmt.Sprint(g.r.Intn(256) - 128)
	case "short":
		return fmt.Sprint(g.r.Intn(65536) - 32768)
	case "int":
		return fmt.Sprint(int32(g.r.Uint32()))
	case "long":
		return fmt.Sprint(int64(g.r.Uint64()) >> uint(g.r.Intn(40)))
	case "unsigned byte":
		return fmt.Sprint(g.r.Intn(256))
	case "unsigned short":
		return fmt.Sprint(g.r.Intn(65536))
	case "unsigned int":
		return fmt.Sprint(g.r.Uint32())
	case "float", "double":
		return fmt.Sprintf("%d.%d", g.r.Intn(1000)-500, g.r.Intn(100))
	case "string":
		return fmt.Sprintf("\"s%d\"", g.r.Intn(1000))
	}
	if ms, ok := g.enums[t]; ok {
		return ms[g.r.Intn(len(ms))]
	}
	return ""
}

func randomProgram(r *rand.Rand, idx int) program {
	g := &rgen{r: r, enums: map[string][]string{}}
	name := fmt.Sprintf("Rnd%d", idx)
	var sb strings.Builder
	ne := r.Intn(3)
	for e := 0; e < ne; e++ {
		en := fmt.Sprintf("E%d", e)
		var ms []string
		fmt.Fprintf(&sb, "    enum %s {", en)
		for m := 0; m < 1+r.Intn(4); m++ {
			mn := fmt.Sprintf("%s_M%d", strings.ToUpper(en), m)
			if m > 0 {
				sb.WriteString(",")
			}
			if r.Intn(3) == 0 {
				fmt.Fprintf(&sb, " %s = %d", mn, r.Intn(200)-50+m*300)
			} else {
				fmt.Fprintf(&sb, " %s", mn)
			}
			ms = append(ms, mn)
		}
		sb.WriteString(" };\n")
		g.enums[en] = ms
		g.enumOrd = append(g.enumOrd, en)
	}
	ns := 1 + r.Intn(4)
	for s := 0; s < ns; s++ {
		sn := fmt.Sprintf("St%d", s)
		fmt.Fprintf(&sb, "    struct %s\n    {\n", sn)
		nm := r.Intn(8)
		tags := r.Perm(40)[:nm]
		if r.Intn(2) == 0 {
			sort.Ints(tags)
		}
		for mi, tag := range tags {
			if r.Intn(10) == 0 {
				tag += 200
			}
			t := g.typ(0)
			req := r.Intn(2) == 0
			line := fmt.Sprintf("        %d %s %s m%d", tag, map[bool]string{true: "require", false: "optional"}[req], t, mi)
			isScalar := false
			for _, s := range scalarTypes {
				if s == t {
					isScalar = true
				}
			}
			_, isEnum := g.enums[t]
			switch {
			case (isScalar || isEnum) && (r.Intn(2) == 0 || (!req && t == "byte")):
				line += " = " + g.def(t)
			case !isScalar && !isEnum && r.Intn(8) == 0 && !strings.HasPrefix(t, "map") && req:
				line += fmt.Sprintf("[%d]", 1+r.Intn(3))
			}
			sb.WriteString(line + ";\n")
		}
		sb.WriteString("    };\n")
		g.structs = append(g.structs, sn)
	}
	if r.Intn(2) == 0 {
		fmt.Fprintf(&sb, "    interface If%d\n    {\n", idx)
		for f := 0; f < 1+r.Intn(3); f++ {
			ret := "void"
			if r.Intn(4) != 0 {
				ret = g.typ(1)
			}
			var ps []string
			for p := 0; p < r.Intn(5); p++ {
				out := ""
				if r.Intn(3) == 0 {
					out = "out "
				}
				ps = append(ps, fmt.Sprintf("%s%s p%d", out, g.typ(1), p))
			}
			fmt.Fprintf(&sb, "        %s fn%d(%s);\n", ret, f, strings.Join(ps, ", "))
		}
		sb.WriteString("    };\n")
	}
	return probe(name, "random", sb.String())
}

// ---------- running the tool ----------

type toolResult struct {
	exit     int
	out      string
	cpu      time.Duration
	timedOut bool
	elapsed  time.Duration
}

const cpuBound = 10 * time.Second

func runTool(dir, outdir, file string) toolResult {
	res := vlib.RunCmdDir(t2g, []string{"-outdir", outdir, "-module", "verif", "-add-servant=false", "-without-trace=true", file}, dir, nil, nil, cpuBound+5*time.Second)
	return toolResult{exit: res.Exit, out: res.Stdout + res.Stderr, cpu: res.UserCPU + res.SysCPU, timedOut: res.TimedOut, elapsed: res.Elapsed}
}

func goBuildPkg(overlay, pkg string) (bool, string) {
	cmd := exec.Command("go", "build", "-overlay="+overlay, pkg)
	cmd.Dir = filepath.Join(vlib.Root(), "harness")
	out, err := cmd.CombinedOutput()
	return err == nil, string(out)
}

func writeOverlay(genDir string, registry string) string {
	m := map[string]string{}
	harness := filepath.Join(vlib.Root(), "harness")
	filepath.Walk(genDir, func(p string, info os.FileInfo, err error) error {
		if err == nil && !info.IsDir() && strings.HasSuffix(p, ".go") {
			rel, _ := filepath.Rel(genDir, p)
			m[filepath.Join(harness, "gen2", rel)] = p
		}
		return nil
	})
	if registry != "" {
		m[filepath.Join(harness, "resreg", "registry_gen.go")] = registry
	}
	b, _ := json.Marshal(map[string]interface{}{"Replace": m})
	p := filepath.Join(buildDir, "overlay2.json")
	os.WriteFile(p, b, 0o644)
	return p
}

func parallel(n int, workers int, f func(i int)) {
	var wg sync.WaitGroup
	ch := make(chan int)
	for w := 0; w < workers; w++ {
		wg.Add(1)
		go func() {
			defer wg.Done()
			for i := range ch {
				f(i)
			}
		}()
	}
	for i := 0; i < n; i++ {
		ch <- i
	}
	close(ch)
	wg.Wait()
}

func clip(s string, n int) string {
	if len(s) > n {
		return s[:n] + "…"
	}
	return s
}

func main() {
	run = vlib.Start("C16")
	run.SetRule("(1-4) one probe program per IDL construct (every scalar type as require/optional/default/vector/array, enums, consts, nested and cross-module structs and enums incl. defaults, key declarations, interfaces with in/out parameters of every kind, keyword-like names, comments) plus seeded random programs from a grammar: tars2go must exit 0 within the CPU bound, every emitted package must compile, and the compiled corpus must pass the codec engine (round trip, reference decoder, canonical form, unknown-field skipping); (5) malformed input: every token-boundary truncation, sampled single-token deletions / duplications / swaps, random bytes and degenerate 1 MiB inputs must terminate (CPU watchdog), truncations inside a definition with a diagnostic and non-zero status; (6) regeneration of tars/protocol/res with the Makefile flags compared with the checked-in bindings (banner dropped, gofmt-normalised). A case is one program / one malformed input / one binding file; distinct by content.")
	run.Assume("the codec oracles for generated structs are those of C03/C04 (harness/refcodec); call transparency of generated interfaces is decided on the hand-written interface in C01, here interfaces are compiled only")
	buildDir = os.Getenv("VERIF_BUILD")
	if buildDir == "" {
		buildDir, _ = os.MkdirTemp("", "c16")
	}
	t2g = filepath.Join(buildDir, "tars2go")
	if out, err := exec.Command("sh", "-c", "cd "+vlib.Repo()+"/tars/tools/tars2go && GOFLAGS=-mod=mod go build -o "+t2g+" .").CombinedOutput(); err != nil {
		fmt.Println("cannot build tars2go:", string(out))
		os.Exit(3)
	}
	r := run.Rand("c16")
	progs := probes()
	nRandom := run.Pick(40, 600)
	for i := 0; i < nRandom; i++ {
		progs = append(progs, randomProgram(r, i))
	}
	idlDir := filepath.Join(buildDir, "idl2")
	genDir := filepath.Join(idlDir, "gen2")
	os.MkdirAll(genDir, 0o755)
	for _, p := range progs {
		os.WriteFile(filepath.Join(idlDir, p.Name+".tars"), []byte(p.Src), 0o644)
	}
	// ---- (2) run the tool on every valid program ----
	okTool := make([]bool, len(progs))
	var mu sync.Mutex
	parallel(len(progs), 16, func(i int) {
		p := progs[i]
		res := runTool(idlDir, "gen2", p.Name+".tars")
		run.Eval(1)
		mu.Lock()
		defer mu.Unlock()
		run.Distinct("prog|" + p.Src)
		switch {
		case res.timedOut && res.cpu >= cpuBound-time.Second:
			run.Violation("hang-on-valid-idl", p.Construct, fmt.Sprintf("tars2go did not terminate on a valid program (%v CPU); construct %s", res.cpu, p.Construct), map[string]interface{}{"program": p.Src, "construct": p.Construct})
		case res.timedOut:
			run.Inconclusive("wall-clock timeout without CPU burn on " + p.Name)
		case res.exit != 0:
			run.Violation("valid-idl-rejected", p.Construct, fmt.Sprintf("tars2go exits %d on a valid program isolating the construct %q: %s", res.exit, p.Construct, clip(lastLine(res.out), 200)), map[string]interface{}{"program": p.Src, "construct": p.Construct, "output": clip(res.out, 1500)})
		default:
			okTool[i] = true
		}
	})
	// ---- (3) compile every emitted package ----
	overlay := writeOverlay(genDir, "")
	compiled := make([]bool, len(progs))
	parallel(len(progs), 8, func(i int) {
		if !okTool[i] {
			return
		}
		p := progs[i]
		for _, m := range p.modules() {
			if _, err := os.Stat(filepath.Join(genDir, m)); err != nil {
				mu.Lock()
				run.Violation("no-output", p.Construct, "tars2go exited 0 but emitted no package for module "+m, map[string]interface{}{"program": p.Src})
				mu.Unlock()
				return
			}
		}
		ok, out := true, ""
		for _, m := range p.modules() {
			if ok1, out1 := goBuildPkg(overlay, "verif/gen2/"+m); !ok1 {
				ok, out = false, out1
				break
			}
		}
		mu.Lock()
		defer mu.Unlock()
		run.Eval(1)
		if !ok {
			run.Violation("generated-code-does-not-compile", p.Construct, fmt.Sprintf("go build rejects the code generated for construct %q: %s", p.Construct, clip(firstErrorLine(out), 220)), map[string]interface{}{"program": p.Src, "construct": p.Construct, "go_build_output": clip(out, 2500)})
			return
		}
		compiled[i] = true
	})
	nCompiled := 0
	for _, c := range compiled {
		if c {
			nCompiled++
		}
	}
	run.Set("programs", len(progs))
	run.Set("programs_compiled", nCompiled)
	// ---- (4) codec engine over the compiled corpus ----
	engineOverCorpus(progs, compiled, idlDir, genDir)
	// ---- (5) malformed input ----
	malformed(r, progs, idlDir)
	// ---- (6) regeneration of the checked-in bindings ----
	regenerate()
	run.Sample(map[string]interface{}{"probe": progs[7].Construct, "program": progs[7].Src})
	for _, p := range progs {
		if p.Construct == "random" {
			run.Sample(map[string]interface{}{"random_program": p.Src})
			break
		}
	}
	run.Finish()
}

func lastLine(s string) string {
	ls := strings.Split(strings.TrimSpace(s), "\n")
	return ls[len(ls)-1]
}

func firstErrorLine(s string) string {
	for _, l := range strings.Split(s, "\n") {
		if strings.Contains(l, ".go:") {
			return l
		}
	}
	return lastLine(s)
}

func engineOverCorpus(progs []program, compiled []bool, idlDir, genDir string) {
	// registry for the compiled packages (includes must be compiled too)
	byName := map[string]int{}
	for i, p := range progs {
		byName[p.Name] = i
	}
	var args []string
	var tars []string
	for i, p := range progs {
		ok := compiled[i]
		for _, inc := range p.Includes {
			if j, has := byName[inc]; !has || !compiled[j] {
				ok = false
			}
		}
		if ok {
			for _, m := range p.modules() {
				args = append(args, filepath.Join(genDir, m)+"=verif/gen2/"+m)
			}
			tars = append(tars, filepath.Join(idlDir, p.Name+".tars"))
		}
	}
	if len(args) == 0 {
		run.Inconclusive("no generated package compiled: the codec engine has nothing to drive")
		return
	}
	args[0] += "," + strings.Join(tars, ",")
	reg := filepath.Join(buildDir, "registry2_gen.go")
	cmd := exec.Command("go", append([]string{"run", "./cmd/genreg", "-stubs", "-out", reg}, args...)...)
	cmd.Dir = filepath.Join(vlib.Root(), "harness")
	if out, err := cmd.CombinedOutput(); err != nil {
		run.Inconclusive("genreg failed: " + clip(string(out), 300))
		return
	}
	// the registry imports verif/gen2/... : rewrite nothing, the overlay maps the files
	overlay := writeOverlay(genDir, reg)
	bin := filepath.Join(buildDir, "c16engine")
	cmd = exec.Command("go", "build", "-tags", "verif", "-overlay="+overlay, "-o", bin, "./cmd/c16engine")
	cmd.Dir = filepath.Join(vlib.Root(), "harness")
	if out, err := cmd.CombinedOutput(); err != nil {
		run.Violation("generated-code-does-not-compile", "corpus-together", "the corpus compiles package by package but not together with its registry: "+clip(firstErrorLine(string(out)), 200), map[string]interface{}{"go_build_output": clip(string(out), 2500)})
		return
	}
	res := vlib.RunCmd(bin, nil, nil, nil, 20*time.Minute)
	used := run.Absorb(res.Stdout)
	run.Set("engine_protocol_lines", used)
	if res.TimedOut || res.Exit != 0 {
		run.Violation("engine-died", "c16engine", fmt.Sprintf("the codec engine over the generated corpus ended abnormally (exit %d): %s", res.Exit, clip(res.Stderr, 300)), map[string]interface{}{"stderr": clip(res.Stderr, 3000)})
	}
}

// ---------- malformed input ----------

func tokens(src string) []int {
	// token START offsets (identifiers, numbers, strings, punctuation), comments skipped
	var offs []int
	i := 0
	for i < len(src) {
		c := src[i]
		switch {
		case c == ' ' || c == '\n' || c == '\t' || c == '\r':
			i++
		case c == '/' && i+1 < len(src) && src[i+1] == '/':
			for i < len(src) && src[i] != '\n' {
				i++
			}
		case c == '/' && i+1 < len(src) && src[i+1] == '*':
			j := strings.Index(src[i+2:], "*/")
			if j < 0 {
				i = len(src)
			} else {
				i += j + 4
			}
		case c == '"':
			offs = append(offs, i)
			i++
			for i < len(src) && src[i] != '"' {
				if src[i] == '\\' {
					i++
				}
				i++
			}
			i++
		case (c >= 'a' && c <= 'z') || (c >= 'A' && c <= 'Z') || c == '_' || (c >= '0' && c <= '9') || c == '#':
			offs = append(offs, i)
			for i < len(src) && ((src[i] >= 'a' && src[i] <= 'z') || (src[i] >= 'A' && src[i] <= 'Z') || src[i] == '_' || (src[i] >= '0' && src[i] <= '9') || src[i] == '#' || src[i] == '.') {
				i++
			}
		default:
			offs = append(offs, i)
			i++
		}
	}
	return offs
}

type badInput struct {
	kind    string
	src     string
	mustErr bool
	base    string
}

// braceDepth counts the braces still open at the end of src, outside comments and string literals.
func braceDepth(src string) int {
	d := 0
	for i := 0; i < len(src); i++ {
		switch {
		case strings.HasPrefix(src[i:], "//"):
			for i < len(src) && src[i] != '\n' {
				i++
			}
		case strings.HasPrefix(src[i:], "/*"):
			j := strings.Index(src[i+2:], "*/")
			if j < 0 {
				return d
			}
			i += j + 3
		case src[i] == '"':
			i++
			for i < len(src) && src[i] != '"' {
				if src[i] == '\\' {
					i++
				}
				i++
			}
		case src[i] == '{':
			d++
		case src[i] == '}':
			d--
		}
	}
	return d
}

func malformed(r *rand.Rand, progs []program, idlDir string) {
	var inputs []badInput
	bases := []program{}
	for _, p := range progs {
		if len(p.Includes) == 0 && (p.Construct != "random" || len(bases) < 60) {
			bases = append(bases, p)
		}
	}
	maxBases := run.Pick(25, len(bases))
	for bi, p := range bases {
		if bi >= maxBases {
			break
		}
		offs := tokens(p.Src)
		// every token-boundary truncation; those strictly inside the module definition are invalid programs
		bodyStart := strings.Index(p.Src, "{")
		lastClose := strings.LastIndex(p.Src, "}")
		for _, o := range offs {
			if o == 0 {
				continue
			}
			// (a file with several modules cut between two of them is a complete program)
			inputs = append(inputs, badInput{kind: "truncate-at-token", src: p.Src[:o], mustErr: o > bodyStart && o <= lastClose && braceDepth(p.Src[:o]) > 0, base: p.Name})
		}
		for k := 0; k < 12 && len(offs) > 3; k++ {
			i := 1 + r.Intn(len(offs)-2)
			end := offs[i+1]
			tok := p.Src[offs[i]:end]
			switch k % 3 {
			case 0:
				inputs = append(inputs, badInput{kind: "delete-token", src: p.Src[:offs[i]] + p.Src[end:], base: p.Name})
			case 1:
				inputs = append(inputs, badInput{kind: "duplicate-token", src: p.Src[:end] + " " + tok + " " + p.Src[end:], base: p.Name})
			default:
				j := 1 + r.Intn(len(offs)-2)
				if j != i {
					a, b := min(i, j), max(i, j)
					ta, tb := p.Src[offs[a]:offs[a+1]], p.Src[offs[b]:offs[b+1]]
					inputs = append(inputs, badInput{kind: "swap-tokens", src: p.Src[:offs[a]] + tb + p.Src[offs[a+1]:offs[b]] + ta + p.Src[offs[b+1]:], base: p.Name})
				}
			}
		}
	}
	for i := 0; i < run.Pick(200, 5000); i++ {
		b := make([]byte, r.Intn(200))
		r.Read(b)
		inputs = append(inputs, badInput{kind: "random-bytes", src: string(b)})
	}
	frag := []string{"module", "struct", "enum", "interface", "{", "}", ";", ",", "<", ">", "vector", "map", "require", "optional", "int", "string", "0", "1", "=", "(", ")", "out", "key", "[", "]", "const", "#include", "\"", "A", "b", "::", "/*", "*/", "//", "\n", "unsigned"}
	for i := 0; i < run.Pick(600, 20000); i++ {
		var sb strings.Builder
		for k := r.Intn(40); k >= 0; k-- {
			sb.WriteString(frag[r.Intn(len(frag))])
			sb.WriteString(" ")
		}
		inputs = append(inputs, badInput{kind: "token-soup", src: sb.String()})
	}
	inputs = append(inputs,
		badInput{kind: "degenerate-long-identifier", src: "module " + strings.Repeat("a", 1<<20)},
		badInput{kind: "degenerate-unclosed-nested-vector", src: "module A { struct S { 0 require " + strings.Repeat("vector<", 100000) + "int v; }; };"},
		badInput{kind: "degenerate-only-comments", src: strings.Repeat("// c\n/* d */\n", 60000)},
		badInput{kind: "degenerate-unterminated-comment", src: "module A { /* " + strings.Repeat("x", 1<<20)},
		badInput{kind: "degenerate-unterminated-string", src: "module A { const string S = \"" + strings.Repeat("x", 1<<20)},
		badInput{kind: "degenerate-many-members", src: "module A { struct S { " + strings.Repeat("0 require int a; ", 50000) + "}; };"},
		badInput{kind: "empty-file", src: ""},
	)
	badDir := filepath.Join(buildDir, "bad")
	os.MkdirAll(badDir, 0o755)
	var mu sync.Mutex
	counts := map[string]int{}
	parallel(len(inputs), 16, func(i int) {
		in := inputs[i]
		d := filepath.Join(badDir, fmt.Sprint(i))
		os.MkdirAll(d, 0o755)
		os.WriteFile(filepath.Join(d, "In.tars"), []byte(in.src), 0o644)
		res := runTool(d, "out", "In.tars")
		os.RemoveAll(d)
		mu.Lock()
		defer mu.Unlock()
		run.Eval(1)
		run.Distinct("bad|" + in.src[:min(len(in.src), 4096)] + fmt.Sprint(len(in.src)))
		counts[in.kind]++
		wit := map[string]interface{}{"kind": in.kind, "input": clip(in.src, 1500), "input_len": len(in.src), "derived_from": in.base, "cpu_s": res.cpu.Seconds(), "exit": res.exit, "output": clip(res.out, 400)}
		switch {
		case res.timedOut && res.cpu >= cpuBound-time.Second:
			run.Violation("hang-on-malformed-input", hangLocus(in), fmt.Sprintf("tars2go did not terminate on %s input (%v CPU consumed): %q", in.kind, res.cpu, clip(tail(in.src, 60), 80)), wit)
		case res.timedOut:
			run.Inconclusive("wall-clock timeout without CPU burn on a malformed input")
		case in.mustErr && (res.exit == 0 || strings.TrimSpace(stripLog(res.out)) == ""):
			run.Violation("truncated-definition-accepted", "truncate-at-token", fmt.Sprintf("an IDL file cut inside a definition is accepted without a diagnostic (exit %d): …%q", res.exit, clip(tail(in.src, 50), 60)), wit)
		}
	})
	run.Set("malformed_inputs_by_kind", counts)
}

func hangLocus(in badInput) string {
	// the construct being parsed when the input ends
	s := in.src
	last := ""
	for _, kw := range []string{"enum", "struct", "interface", "const", "key", "module"} {
		if i := strings.LastIndex(s, kw); i >= 0 {
			if last == "" || i > strings.LastIndex(s, last) {
				last = kw
			}
		}
	}
	if last == "" {
		last = "none"
	}
	return in.kind + ":in-" + last
}

func tail(s string, n int) string {
	if len(s) > n {
		return s[len(s)-n:]
	}
	return s
}

// stripLog removes the tool's own log line (timestamp + file list).
func stripLog(s string) string {
	var out []string
	for _, l := range strings.Split(s, "\n") {
		if len(l) > 20 && l[4] == '/' && l[7] == '/' && strings.Contains(l, ".tars") {
			continue
		}
		out = append(out, l)
	}
	return strings.Join(out, "\n")
}

// ---------- regeneration ----------

func normalise(b []byte) string {
	var keep [][]byte
	for _, l := range bytes.Split(b, []byte("\n")) {
		if bytes.HasPrefix(l, []byte("// Code generated by tars2go")) {
			continue
		}
		keep = append(keep, l)
	}
	src := bytes.Join(keep, []byte("\n"))
	if f, err := format.Source(src); err == nil {
		return string(f)
	}
	return string(src)
}

func regenerate() {
	resDir := filepath.Join(vlib.Repo(), "tars", "protocol", "res")
	work := filepath.Join(buildDir, "regen")
	os.MkdirAll(work, 0o755)
	files, _ := filepath.Glob(filepath.Join(resDir, "*.tars"))
	var names []string
	for _, f := range files {
		b, _ := os.ReadFile(f)
		os.WriteFile(filepath.Join(work, filepath.Base(f)), b, 0o644)
		names = append(names, filepath.Base(f))
	}
	args := append([]string{"-without-trace=true", "-add-servant=false", "-tarsPath", "github.com/TarsCloud/TarsGo/tars", "-module", "github.com/TarsCloud/TarsGo/tars/protocol/res"}, names...)
	res := vlib.RunCmdDir(t2g, args, work, nil, nil, time.Minute)
	if res.Exit != 0 || res.TimedOut {
		run.Violation("framework-idl-rejected", "tars/protocol/res", "tars2go fails on the framework's own IDL files: "+clip(res.Stdout+res.Stderr, 300), nil)
		return
	}
	produced := map[string]string{}
	filepath.Walk(work, func(p string, info os.FileInfo, err error) error {
		if err == nil && !info.IsDir() && strings.HasSuffix(p, ".go") {
			rel, _ := filepath.Rel(work, p)
			b, _ := os.ReadFile(p)
			produced[rel] = normalise(b)
		}
		return nil
	})
	checked := map[string]string{}
	filepath.Walk(resDir, func(p string, info os.FileInfo, err error) error {
		if err == nil && !info.IsDir() && strings.HasSuffix(p, ".go") {
			b, _ := os.ReadFile(p)
			if bytes.Contains(b[:min(len(b), 200)], []byte("Code generated by tars2go")) {
				rel, _ := filepath.Rel(resDir, p)
				checked[rel] = normalise(b)
			}
		}
		return nil
	})
	for rel, want := range checked {
		run.Eval(1)
		run.Distinct("binding|" + rel)
		got, ok := produced[rel]
		if !ok {
			run.Violation("checked-in-binding-without-source", rel, "the checked-in generated file "+rel+" is not produced from the framework's IDL files", nil)
			continue
		}
		if got != want {
			run.Violation("checked-in-binding-differs", rel, "regenerating "+rel+" from the framework's IDL gives different code: "+firstDiff(want, got), map[string]interface{}{"file": rel, "first_difference": firstDiff(want, got)})
		}
	}
	for rel := range produced {
		if _, ok := checked[rel]; !ok {
			run.Violation("generated-binding-not-checked-in", rel, "the generator produces "+rel+" from the framework's IDL but no such file is checked in", nil)
		}
	}
	run.Set("bindings_compared", len(checked))
}

func firstDiff(a, b string) string {
	la, lb := strings.Split(a, "\n"), strings.Split(b, "\n")
	for i := 0; i < len(la) && i < len(lb); i++ {
		if la[i] != lb[i] {
			return fmt.Sprintf("line %d: checked-in %q, regenerated %q", i+1, clip(la[i], 100), clip(lb[i], 100))
		}
	}
	return fmt.Sprintf("length differs: %d vs %d lines", len(la), len(lb))
}
