package main

import (
	"context"
	"encoding/json"
	"fmt"
	"reflect"
	"runtime/debug"
	"strings"

	"github.com/TarsCloud/TarsGo/tars/model"
	"github.com/TarsCloud/TarsGo/tars/protocol/res/requestf"
	"github.com/TarsCloud/TarsGo/tars/util/current"
	"github.com/TarsCloud/TarsGo/tars/util/endpoint"
	"github.com/TarsCloud/TarsGo/tars/util/tools"

	rc "verif/refcodec"
	"verif/resreg"
	"verif/sch"
	"verif/vlib"
)

// Call transparency for every generated interface of the corpus: the generated proxy is given a
// servant that hands each request straight to the generated dispatcher of the same interface,
// which calls a recording implementation (stub written by genreg next to the generated code).
// Proxy encoding -> dispatcher decoding -> implementation -> dispatcher encoding -> proxy decoding,
// without a network: the implementation must receive exactly the arguments the caller passed and
// the caller must get back exactly the return value and out parameters the implementation set.

type dispatcher interface {
	Dispatch(ctx context.Context, val interface{}, req *requestf.RequestPacket, resp *requestf.ResponsePacket, withContext bool) error
}

type loopServant struct {
	disp    dispatcher
	stub    interface{}
	id      int32
	version int16                  // protocol version the request is handed to the dispatcher in: 1 TARS, 3 TUP, 5 JSON
	funcs   map[string]*sch.IfFunc // by IDL name
	jsonIns map[string]interface{} // JSON version: the Go values of the in parameters of the call being made
	skip    string                 // set when the call cannot be expressed in the chosen version
}

func (l *loopServant) Name() string { return "Verif.C16.LoopObj" }
func (l *loopServant) TarsInvoke(ctx context.Context, cType byte, fn string, buf []byte, status map[string]string, rctx map[string]string, resp *requestf.ResponsePacket) error {
	l.id++
	req := requestf.RequestPacket{IVersion: l.version, CPacketType: int8(cType), IRequestId: l.id, SServantName: l.Name(), SFuncName: fn,
		SBuffer: tools.ByteToInt8(buf), ITimeout: 3000, Context: rctx, Status: status}
	f := l.funcs[fn]
	switch l.version {
	case 3:
		// the same arguments as named attributes, each encoded under tag 0
		nodes, err := rc.ParseFields(buf)
		if err != nil || f == nil {
			l.skip = "proxy buffer unreadable"
			return fmt.Errorf("loop: %s", l.skip)
		}
		var b []byte
		cnt := 0
		var body []byte
		for i, p := range f.Params {
			if p.Out {
				continue
			}
			var n *rc.Node
			for _, x := range nodes {
				if x.Tag == i+1 {
					n = x
				}
			}
			if n == nil {
				l.skip = "proxy buffer lacks parameter " + p.Name
				return fmt.Errorf("loop: %s", l.skip)
			}
			body = rc.AppendString(body, []byte(p.Name), 0)
			body = rc.AppendSimpleList(body, rc.Reencode(nil, n, 0), 1)
			cnt++
		}
		b = rc.AppendHead(b, rc.TMap, 0)
		b = rc.AppendInt(b, int64(cnt), 0)
		req.SBuffer = tools.ByteToInt8(append(b, body...))
	case 5:
		doc, err := json.Marshal(l.jsonIns)
		if err != nil {
			l.skip = "arguments not expressible in JSON"
			return fmt.Errorf("loop: %s", l.skip)
		}
		req.SBuffer = tools.ByteToInt8(doc)
	}
	if err := l.disp.Dispatch(current.ContextWithTarsCurrent(context.Background()), l.stub, &req, resp, true); err != nil {
		return err
	}
	// hand the answer to the proxy in the form it reads (TARS version: return value under tag 0,
	// out parameters under their positions)
	switch l.version {
	case 3:
		nodes, err := rc.ParseFields(tools.Int8ToByte(resp.SBuffer))
		if err != nil || len(nodes) != 1 || nodes[0].Type != rc.TMap {
			return fmt.Errorf("loop: the TUP response is not one attribute map (%v)", err)
		}
		attr := map[string][]byte{}
		for i, k := range nodes[0].Keys {
			attr[string(k.Bytes)] = nodes[0].Vals[i].Bytes
		}
		var out []byte
		put := func(key string, tag int) error {
			raw, ok := attr[key]
			if !ok {
				return fmt.Errorf("loop: the TUP response lacks attribute %q", key)
			}
			n, err := rc.ParseOne(raw)
			if err != nil {
				return fmt.Errorf("loop: attribute %q of the TUP response is not one well-formed field: %v", key, err)
			}
			out = rc.Reencode(out, n, tag)
			return nil
		}
		if f.RetT != nil {
			if err := put("", 0); err != nil {
				return err
			}
		}
		for i, p := range f.Params {
			if p.Out {
				if err := put(p.Name, i+1); err != nil {
					return err
				}
			}
		}
		resp.SBuffer = tools.ByteToInt8(out)
	case 5:
		var doc map[string]json.RawMessage
		if err := json.Unmarshal(tools.Int8ToByte(resp.SBuffer), &doc); err != nil {
			return fmt.Errorf("loop: the JSON response is not a document: %v", err)
		}
		var out []byte
		put := func(key string, gt reflect.Type, t *rc.Type, tag int) error {
			raw, ok := doc[key]
			if !ok {
				return fmt.Errorf("loop: the JSON response lacks member %q", key)
			}
			v := reflect.New(gt)
			if err := json.Unmarshal(raw, v.Interface()); err != nil {
				return fmt.Errorf("loop: member %q of the JSON response does not fit its type: %v", key, err)
			}
			out = rc.EncodeValue(out, t, sch.FromGo(t, v.Elem()), tag, rc.EncOpt{})
			return nil
		}
		if f.RetT != nil {
			if err := put("tars_ret", f.RetGoT, f.RetT, 0); err != nil {
				return err
			}
		}
		for i, p := range f.Params {
			if p.Out {
				if err := put(p.Name, p.GoT, p.T, i+1); err != nil {
					return err
				}
			}
		}
		resp.SBuffer = tools.ByteToInt8(out)
	}
	return nil
}
func (l *loopServant) TarsSetTimeout(t int)                  {}
func (l *loopServant) TarsSetProtocol(model.Protocol)        {}
func (l *loopServant) Endpoints() []*endpoint.Endpoint       { return nil }
func (l *loopServant) SetPushCallback(callback func([]byte)) {}

// throughJSON returns what encoding/json makes of v (type t / Go type gt) on a round trip, or false
// when JSON cannot carry it (NaN, maps keyed by structs, ...).
func throughJSON(t *rc.Type, gt reflect.Type, v *rc.Value) (*rc.Value, bool) {
	gv := reflect.New(gt)
	sch.ToGo(t, v, gv.Elem())
	raw, err := json.Marshal(gv.Interface())
	if err != nil {
		return nil, false
	}
	back := reflect.New(gt)
	if resetter, ok := back.Interface().(interface{ ResetDefault() }); ok {
		resetter.ResetDefault()
	}
	if json.Unmarshal(raw, back.Interface()) != nil {
		return nil, false
	}
	return sch.FromGo(t, back.Elem()), true
}

type directive struct {
	fn       *sch.IfFunc
	outs     []*rc.Value // per out parameter, in order
	ret      *rc.Value
	received [][]*rc.Value // per execution: the in parameters as the implementation saw them
}

func interfacesPhase(u *sch.Universe, n int) {
	driven, calls := 0, 0
	for _, e := range resreg.Ifaces {
		mod, goName := e.Name[:strings.LastIndex(e.Name, ".")], e.Name[strings.LastIndex(e.Name, ".")+1:]
		proxy := e.NewProxy()
		funcs, err := sch.LoadIface(u, mod, goName, proxy)
		if err != nil {
			em.Violation("generated-proxy-disagrees-with-idl", e.Name, err.Error(), nil)
			continue
		}
		disp, ok := e.NewProxy().(dispatcher)
		ss, ok2 := proxy.(interface{ SetServant(model.Servant) })
		if !ok || !ok2 {
			em.Violation("generated-proxy-disagrees-with-idl", e.Name, "the generated type has no Dispatch / SetServant method of the usual form", nil)
			continue
		}
		var cur *directive
		stub := e.NewStub(func(fn string, args []interface{}, ret interface{}) error {
			d := cur
			if d == nil || d.fn.GoName != fn || len(args) != len(d.fn.Params) {
				return fmt.Errorf("stub: unexpected call of %s with %d arguments", fn, len(args))
			}
			var got []*rc.Value
			oi := 0
			for i, p := range d.fn.Params {
				av := reflect.ValueOf(args[i])
				if p.Out {
					sch.ToGo(p.T, d.outs[oi], av.Elem())
					oi++
					continue
				}
				if av.Kind() == reflect.Ptr {
					av = av.Elem()
				}
				got = append(got, sch.FromGo(p.T, av))
			}
			if d.fn.RetT != nil && ret != nil {
				sch.ToGo(d.fn.RetT, d.ret, reflect.ValueOf(ret).Elem())
			}
			d.received = append(d.received, got)
			return nil
		})
		loop := &loopServant{disp: disp, stub: stub, version: 1, funcs: map[string]*sch.IfFunc{}}
		ss.SetServant(loop)
		driven++
		g := sch.NewGen(vlib.SeedRand(1, "c16if-"+e.Name))
		g.MaxDepth = 3
		pv := reflect.ValueOf(proxy)
		for _, fn := range funcs {
			loop.funcs[fn.Name] = fn
		}
		for _, fn := range funcs {
			m := pv.MethodByName(fn.GoName + "WithContext")
			for k := 0; k < 2*n; k++ {
				mode := k % sch.NumModes
				// every call in the TARS version; the second half also as TUP attribute sets and as
				// JSON documents (the dispatcher's other two decoding branches)
				loop.version, loop.skip, loop.jsonIns = 1, "", nil
				if k >= n {
					loop.version = []int16{3, 5}[k%2]
				}
				vname := map[int16]string{1: "tars", 3: "tup", 5: "json"}[loop.version]
				g.Budget = 150
				d := &directive{fn: fn}
				args := []reflect.Value{reflect.ValueOf(context.Background())}
				var sent, wantOuts []*rc.Value
				var wantRet *rc.Value
				var outPtrs []reflect.Value
				for _, p := range fn.Params {
					ptr := reflect.New(p.GoT)
					if p.Out {
						ov := g.Value(p.T, mode, 1, false, nil)
						d.outs = append(d.outs, ov)
						if loop.version == 5 {
							jv, ok := throughJSON(p.T, p.GoT, ov)
							if !ok {
								loop.skip = "result not expressible in JSON"
							}
							ov = jv
						}
						wantOuts = append(wantOuts, ov)
						if k%3 == 2 {
							sch.ToGo(p.T, g.Value(p.T, sch.ModeNonZero, 1, false, nil), ptr.Elem()) // an out variable in use
						}
						outPtrs = append(outPtrs, ptr)
						args = append(args, ptr)
						continue
					}
					v := g.Value(p.T, mode, 1, false, nil)
					sch.ToGo(p.T, v, ptr.Elem())
					if loop.version == 5 {
						// JSON carries what encoding/json makes of the value: judge against that
						if loop.jsonIns == nil {
							loop.jsonIns = map[string]interface{}{}
						}
						loop.jsonIns[p.Name] = ptr.Elem().Interface()
						if raw, err := json.Marshal(ptr.Elem().Interface()); err == nil {
							back := reflect.New(p.GoT)
							if resetter, ok := back.Interface().(interface{ ResetDefault() }); ok {
								resetter.ResetDefault()
							}
							if json.Unmarshal(raw, back.Interface()) == nil {
								v = sch.FromGo(p.T, back.Elem())
							}
						}
					}
					sent = append(sent, v)
					if p.Ptr {
						args = append(args, ptr)
					} else {
						args = append(args, ptr.Elem())
					}
				}
				if fn.RetT != nil {
					d.ret = g.Value(fn.RetT, mode, 1, false, nil)
					wantRet = d.ret
					if loop.version == 5 {
						jv, ok := throughJSON(fn.RetT, fn.RetGoT, d.ret)
						if !ok {
							loop.skip = "result not expressible in JSON"
						}
						wantRet = jv
					}
				}
				if loop.skip != "" {
					em.Add("generated_interface_calls_not_expressible_in_"+vname, 1)
					continue
				}
				cur = d
				locus := e.Name + "." + fn.Name
				if loop.version != 1 {
					locus += ":" + vname
				}
				wit := map[string]interface{}{"interface": e.Name, "function": fn.Name, "value_mode": mode, "protocol_version": vname}
				var rets []reflect.Value
				pan := func() (p string) {
					defer func() {
						if r := recover(); r != nil {
							p = fmt.Sprintf("%v\n%s", r, debug.Stack())
						}
					}()
					rets = m.Call(args)
					return ""
				}()
				cur = nil
				em.Eval(1)
				calls++
				if pan != "" {
					wit["panic"] = pan
					em.Violation("generated-call-panics", locus, "a call through the generated proxy and dispatcher panicked: "+strings.SplitN(pan, "\n", 2)[0], wit)
					break
				}
				if loop.skip != "" {
					em.Add("generated_interface_calls_not_expressible_in_"+vname, 1)
					continue
				}
				if e := rets[len(rets)-1]; !e.IsNil() {
					em.Violation("generated-call-fails", locus, fmt.Sprintf("a call through the generated proxy and dispatcher of %s failed: %v", locus, e.Interface()), wit)
					break
				}
				if len(d.received) != 1 {
					em.Violation("generated-call-not-executed-once", locus, fmt.Sprintf("the implementation ran %d times for one call", len(d.received)), wit)
					break
				}
				bad := false
				ii := 0
				for _, p := range fn.Params {
					if p.Out {
						continue
					}
					if diff := rc.Diff(p.T, d.received[0][ii], sent[ii], p.Name); diff != "" {
						wit["difference"] = diff
						em.Violation("generated-call-argument-changed", locus, fmt.Sprintf("the implementation received another value than the caller passed for %q: %s", p.Name, diff), wit)
						bad = true
						break
					}
					ii++
				}
				if bad {
					break
				}
				oi := 0
				for _, p := range fn.Params {
					if !p.Out {
						continue
					}
					if diff := rc.Diff(p.T, sch.FromGo(p.T, outPtrs[oi].Elem()), wantOuts[oi], p.Name); diff != "" {
						wit["difference"] = diff
						wit["out_variable_in_use_before_the_call"] = k%3 == 2
						em.Violation("generated-call-result-changed", locus, fmt.Sprintf("the caller got another value than the implementation produced for out parameter %q: %s", p.Name, diff), wit)
						bad = true
						break
					}
					oi++
				}
				if bad {
					break
				}
				if fn.RetT != nil {
					if diff := rc.Diff(fn.RetT, sch.FromGo(fn.RetT, rets[0]), wantRet, "return"); diff != "" {
						wit["difference"] = diff
						em.Violation("generated-call-result-changed", locus, "the caller got another return value than the implementation produced: "+diff, wit)
						break
					}
				}
			}
		}
	}
	em.Add("generated_interfaces_driven", int64(driven))
	em.Add("generated_interface_calls", int64(calls))
}
