package main

import (
	"context"
	"fmt"
	"reflect"
	"runtime/debug"
	"strings"

	"github.com/TarsCloud/TarsGo/tars/model"
	"github.com/TarsCloud/TarsGo/tars/protocol/res/requestf"
	"github.com/TarsCloud/TarsGo/tars/util/current"
	"github.com/TarsCloud/TarsGo/tars/util/endpoint"
	"github.com/TarsCloud/TarsGo/tars/util/tools"

	rc "verif/refcodec"
	"verif/resreg"
	"verif/sch"
	"verif/vlib"
)

// Call transparency for every generated interface of the corpus: the generated proxy is given a
// servant that hands each request straight to the generated dispatcher of the same interface,
// which calls a recording implementation (stub written by genreg next to the generated code).
// Proxy encoding -> dispatcher decoding -> implementation -> dispatcher encoding -> proxy decoding,
// without a network: the implementation must receive exactly the arguments the caller passed and
// the caller must get back exactly the return value and out parameters the implementation set.

type dispatcher interface {
	Dispatch(ctx context.Context, val interface{}, req *requestf.RequestPacket, resp *requestf.ResponsePacket, withContext bool) error
}

type loopServant struct {
	disp dispatcher
	stub interface{}
	id   int32
}

func (l *loopServant) Name() string { return "Verif.C16.LoopObj" }
func (l *loopServant) TarsInvoke(ctx context.Context, cType byte, fn string, buf []byte, status map[string]string, rctx map[string]string, resp *requestf.ResponsePacket) error {
	l.id++
	req := requestf.RequestPacket{IVersion: 1, CPacketType: int8(cType), IRequestId: l.id, SServantName: l.Name(), SFuncName: fn,
		SBuffer: tools.ByteToInt8(buf), ITimeout: 3000, Context: rctx, Status: status}
	return l.disp.Dispatch(current.ContextWithTarsCurrent(context.Background()), l.stub, &req, resp, true)
}
func (l *loopServant) TarsSetTimeout(t int)                  {}
func (l *loopServant) TarsSetProtocol(model.Protocol)        {}
func (l *loopServant) Endpoints() []*endpoint.Endpoint       { return nil }
func (l *loopServant) SetPushCallback(callback func([]byte)) {}

type directive struct {
	fn       *sch.IfFunc
	outs     []*rc.Value // per out parameter, in order
	ret      *rc.Value
	received [][]*rc.Value // per execution: the in parameters as the implementation saw them
}

func interfacesPhase(u *sch.Universe, n int) {
	driven, calls := 0, 0
	for _, e := range resreg.Ifaces {
		mod, goName := e.Name[:strings.LastIndex(e.Name, ".")], e.Name[strings.LastIndex(e.Name, ".")+1:]
		proxy := e.NewProxy()
		funcs, err := sch.LoadIface(u, mod, goName, proxy)
		if err != nil {
			em.Violation("generated-proxy-disagrees-with-idl", e.Name, err.Error(), nil)
			continue
		}
		disp, ok := e.NewProxy().(dispatcher)
		ss, ok2 := proxy.(interface{ SetServant(model.Servant) })
		if !ok || !ok2 {
			em.Violation("generated-proxy-disagrees-with-idl", e.Name, "the generated type has no Dispatch / SetServant method of the usual form", nil)
			continue
		}
		var cur *directive
		stub := e.NewStub(func(fn string, args []interface{}, ret interface{}) error {
			d := cur
			if d == nil || d.fn.GoName != fn || len(args) != len(d.fn.Params) {
				return fmt.Errorf("stub: unexpected call of %s with %d arguments", fn, len(args))
			}
			var got []*rc.Value
			oi := 0
			for i, p := range d.fn.Params {
				av := reflect.ValueOf(args[i])
				if p.Out {
					sch.ToGo(p.T, d.outs[oi], av.Elem())
					oi++
					continue
				}
				if av.Kind() == reflect.Ptr {
					av = av.Elem()
				}
				got = append(got, sch.FromGo(p.T, av))
			}
			if d.fn.RetT != nil && ret != nil {
				sch.ToGo(d.fn.RetT, d.ret, reflect.ValueOf(ret).Elem())
			}
			d.received = append(d.received, got)
			return nil
		})
		ss.SetServant(&loopServant{disp: disp, stub: stub})
		driven++
		g := sch.NewGen(vlib.SeedRand(1, "c16if-"+e.Name))
		g.MaxDepth = 3
		pv := reflect.ValueOf(proxy)
		for _, fn := range funcs {
			m := pv.MethodByName(fn.GoName + "WithContext")
			for k := 0; k < n; k++ {
				mode := k % sch.NumModes
				g.Budget = 150
				d := &directive{fn: fn}
				args := []reflect.Value{reflect.ValueOf(context.Background())}
				var sent []*rc.Value
				var outPtrs []reflect.Value
				for _, p := range fn.Params {
					ptr := reflect.New(p.GoT)
					if p.Out {
						d.outs = append(d.outs, g.Value(p.T, mode, 1, false, nil))
						if k%3 == 2 {
							sch.ToGo(p.T, g.Value(p.T, sch.ModeNonZero, 1, false, nil), ptr.Elem()) // an out variable in use
						}
						outPtrs = append(outPtrs, ptr)
						args = append(args, ptr)
						continue
					}
					v := g.Value(p.T, mode, 1, false, nil)
					sent = append(sent, v)
					sch.ToGo(p.T, v, ptr.Elem())
					if p.Ptr {
						args = append(args, ptr)
					} else {
						args = append(args, ptr.Elem())
					}
				}
				if fn.RetT != nil {
					d.ret = g.Value(fn.RetT, mode, 1, false, nil)
				}
				cur = d
				locus := e.Name + "." + fn.Name
				wit := map[string]interface{}{"interface": e.Name, "function": fn.Name, "value_mode": mode}
				var rets []reflect.Value
				pan := func() (p string) {
					defer func() {
						if r := recover(); r != nil {
							p = fmt.Sprintf("%v\n%s", r, debug.Stack())
						}
					}()
					rets = m.Call(args)
					return ""
				}()
				cur = nil
				em.Eval(1)
				calls++
				if pan != "" {
					wit["panic"] = pan
					em.Violation("generated-call-panics", locus, "a call through the generated proxy and dispatcher panicked: "+strings.SplitN(pan, "\n", 2)[0], wit)
					break
				}
				if e := rets[len(rets)-1]; !e.IsNil() {
					em.Violation("generated-call-fails", locus, fmt.Sprintf("a call through the generated proxy and dispatcher of %s failed: %v", locus, e.Interface()), wit)
					break
				}
				if len(d.received) != 1 {
					em.Violation("generated-call-not-executed-once", locus, fmt.Sprintf("the implementation ran %d times for one call", len(d.received)), wit)
					break
				}
				bad := false
				ii := 0
				for _, p := range fn.Params {
					if p.Out {
						continue
					}
					if diff := rc.Diff(p.T, d.received[0][ii], sent[ii], p.Name); diff != "" {
						wit["difference"] = diff
						em.Violation("generated-call-argument-changed", locus, fmt.Sprintf("the implementation received another value than the caller passed for %q: %s", p.Name, diff), wit)
						bad = true
						break
					}
					ii++
				}
				if bad {
					break
				}
				oi := 0
				for _, p := range fn.Params {
					if !p.Out {
						continue
					}
					if diff := rc.Diff(p.T, sch.FromGo(p.T, outPtrs[oi].Elem()), d.outs[oi], p.Name); diff != "" {
						wit["difference"] = diff
						wit["out_variable_in_use_before_the_call"] = k%3 == 2
						em.Violation("generated-call-result-changed", locus, fmt.Sprintf("the caller got another value than the implementation produced for out parameter %q: %s", p.Name, diff), wit)
						bad = true
						break
					}
					oi++
				}
				if bad {
					break
				}
				if fn.RetT != nil {
					if diff := rc.Diff(fn.RetT, sch.FromGo(fn.RetT, rets[0]), d.ret, "return"); diff != "" {
						wit["difference"] = diff
						em.Violation("generated-call-result-changed", locus, "the caller got another return value than the implementation produced: "+diff, wit)
						break
					}
				}
			}
		}
	}
	em.Add("generated_interfaces_driven", int64(driven))
	em.Add("generated_interface_calls", int64(calls))
}
