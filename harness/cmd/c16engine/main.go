// c16engine drives every generated struct type of a tars2go-generated corpus (registry injected
// through the build overlay) through the codec oracles of C03 (round trip, reference decoder,
// canonical form) and C04 (unknown fields skipped, absent optionals default, reuse) and reports
// to the C16 orchestrator over the child protocol.
package main

import (
	"fmt"
	"os"
	"reflect"
	"runtime/debug"

	"github.com/TarsCloud/TarsGo/tars/protocol/codec"

	rc "verif/refcodec"
	"verif/resreg"
	"verif/sch"
	"verif/vlib"
)

type tinfo struct {
	e  resreg.Entry
	s  *rc.Struct
	st *rc.Type
}

var em *vlib.Emitter

func hexClip(b []byte) string {
	if len(b) > 160 {
		return fmt.Sprintf("%x…(%d bytes)", b[:160], len(b))
	}
	return fmt.Sprintf("%x", b)
}

func roundTrip(ti *tinfo, v *rc.Value, blockTag int) {
	defer func() {
		if r := recover(); r != nil {
			em.Violation("generated-codec-panics", ti.e.Name, fmt.Sprint(r), map[string]interface{}{"type": ti.e.Name, "value": rc.Render(ti.st, v), "stack": vlib.Tail(string(debug.Stack()), 1500)})
		}
	}()
	obj := ti.e.New()
	sch.ToGo(ti.st, v, reflect.ValueOf(obj).Elem())
	buf := codec.NewBuffer()
	var err error
	if blockTag >= 0 {
		err = obj.WriteBlock(buf, byte(blockTag))
	} else {
		err = obj.WriteTo(buf)
	}
	wit := map[string]interface{}{"type": ti.e.Name, "value": rc.Render(ti.st, v), "block_tag": blockTag, "bytes": hexClip(buf.ToBytes())}
	if err != nil {
		em.Violation("generated-codec-encode-error", ti.e.Name, err.Error(), wit)
		return
	}
	enc := append([]byte(nil), buf.ToBytes()...)
	obj2 := ti.e.New()
	if blockTag >= 0 {
		err = obj2.ReadBlock(codec.NewReader(enc), byte(blockTag), true)
	} else {
		err = obj2.ReadFrom(codec.NewReader(enc))
	}
	if err != nil {
		em.Violation("generated-codec-decode-error", ti.e.Name, err.Error(), wit)
		return
	}
	if d := rc.Diff(ti.st, v, sch.FromGo(ti.st, reflect.ValueOf(obj2).Elem()), ""); d != "" {
		wit["difference"] = d
		em.Violation("generated-codec-roundtrip-mismatch", ti.e.Name, d, wit)
		return
	}
	var nodes []*rc.Node
	if blockTag >= 0 {
		n, perr := rc.ParseOne(enc)
		if perr != nil || n.End != len(enc) || n.Type != rc.TStructBegin {
			em.Violation("generated-codec-malformed-encoding", ti.e.Name, fmt.Sprint(perr), wit)
			return
		}
		nodes = n.Sub
	} else {
		var perr error
		if nodes, perr = rc.ParseFields(enc); perr != nil {
			em.Violation("generated-codec-malformed-encoding", ti.e.Name, perr.Error(), wit)
			return
		}
	}
	v3, derr := rc.DecodeNodes(ti.s, nodes)
	if derr != nil {
		em.Violation("generated-codec-reference-decode-error", ti.e.Name, derr.Error(), wit)
		return
	}
	if d := rc.Diff(ti.st, v, v3, ""); d != "" {
		wit["difference"] = d
		em.Violation("generated-codec-reference-mismatch", ti.e.Name, d, wit)
		return
	}
	if cerr := rc.CheckCanonical(ti.s, nodes); cerr != nil {
		em.Violation("generated-codec-non-canonical", ti.e.Name, cerr.Error(), wit)
		return
	}
	em.Distinct(ti.e.Name + "|" + string(enc))
}

func evolution(ti *tinfo, v *rc.Value, k int) {
	defer func() {
		if r := recover(); r != nil {
			em.Violation("generated-codec-panics", ti.e.Name, fmt.Sprint(r), map[string]interface{}{"type": ti.e.Name, "stack": vlib.Tail(string(debug.Stack()), 1500)})
		}
	}()
	base := rc.EncodeStruct(nil, ti.s, v, rc.EncOpt{OmitDefaults: k%2 == 0})
	nodes, _ := rc.ParseFields(base)
	// an unknown field of a rotating kind after the last known field and, when a tag is free, before the first
	inSchema := map[int]bool{}
	last := -1
	for _, f := range ti.s.Fields {
		inSchema[f.Tag] = true
		if f.Tag > last {
			last = f.Tag
		}
	}
	r := vlib.SeedRand(int64(k), ti.e.Name)
	kind := rc.ExtraKinds[k%len(rc.ExtraKinds)]
	if last < 255 {
		spliced := append(append([]byte(nil), base...), rc.ExtraField(kind, last+1, r)...)
		obj := ti.e.New()
		if err := obj.ReadFrom(codec.NewReader(spliced)); err != nil {
			em.Violation("generated-codec-unknown-field-breaks-decoding", kind, ti.e.Name+": "+err.Error(), map[string]interface{}{"type": ti.e.Name, "encoding": hexClip(spliced)})
			return
		}
		if d := rc.Diff(ti.st, v, sch.FromGo(ti.st, reflect.ValueOf(obj).Elem()), ""); d != "" {
			em.Violation("generated-codec-unknown-field-changes-value", kind, ti.e.Name+": "+d, map[string]interface{}{"type": ti.e.Name})
			return
		}
	}
	// absent optionals -> defaults, into a reused target
	var enc []byte
	want := &rc.Value{Fs: map[int]*rc.Value{}}
	full, _ := rc.ParseFields(rc.EncodeStruct(nil, ti.s, v, rc.EncOpt{}))
	for _, f := range ti.s.Fields {
		want.Fs[f.Tag] = v.Fs[f.Tag]
		if !f.Require {
			want.Fs[f.Tag] = rc.DefaultOf(f)
		}
	}
	for _, n := range full {
		if f := ti.s.Field(n.Tag); f != nil && f.Require {
			enc = rc.Reencode(enc, n, n.Tag)
		}
	}
	obj := ti.e.New()
	g := sch.NewGen(r)
	sch.ToGo(ti.st, g.Struct(ti.s, sch.ModeNonZero), reflect.ValueOf(obj).Elem())
	if err := obj.ReadFrom(codec.NewReader(enc)); err != nil {
		em.Violation("generated-codec-absent-optional-rejected", ti.e.Name, err.Error(), map[string]interface{}{"type": ti.e.Name, "encoding": hexClip(enc)})
		return
	}
	if d := rc.Diff(ti.st, want, sch.FromGo(ti.st, reflect.ValueOf(obj).Elem()), ""); d != "" {
		em.Violation("generated-codec-absent-optional-not-default", ti.e.Name, d, map[string]interface{}{"type": ti.e.Name, "encoding": hexClip(enc), "difference": d})
	}
	_ = nodes
}

func main() {
	em = vlib.NewEmitter()
	u, err := sch.LoadUniverse(resreg.TarsFiles)
	if err != nil {
		em.Violation("idl-unreadable", "c16engine", err.Error(), nil)
		os.Exit(0)
	}
	n := 60
	if os.Getenv("VERIF_TIER") == "thorough" {
		n = 600
	}
	types := 0
	for _, e := range resreg.Types {
		s, err := u.SchemaOf(e.New())
		if err != nil {
			em.Violation("schema-unreadable", e.Name, err.Error(), nil)
			continue
		}
		ti := &tinfo{e: e, s: s, st: &rc.Type{Kind: rc.KStruct, St: s}}
		if d := u.CompareWithIDL(e.New(), s); d != "" && d != "?" {
			em.Violation("generated-struct-tags-disagree-with-idl", e.Name, d, nil)
		}
		types++
		g := sch.NewGen(vlib.SeedRand(1, "c16-"+e.Name))
		for k := 0; k < n; k++ {
			v := g.Struct(s, k%sch.NumModes)
			roundTrip(ti, v, -1)
			roundTrip(ti, v, []int{0, 15, 255}[k%3])
			evolution(ti, v, k)
			em.Eval(3)
		}
	}
	em.Add("generated_struct_types_driven", int64(types))
	interfacesPhase(u, n/3)
}
