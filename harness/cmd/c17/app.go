package main

import (
	"encoding/json"
	"fmt"

	"verif/appchild"
)

// appConfScenario: the configuration as the application hands it to user code (tars.GetConf()).
// A server configuration file with a syntax error further down must not be available in part:
// GetConf() is nil, exactly as for any other unreadable file.  Control: the same file without the
// error is available with its values.
func appConfScenario() {
	good := "<tars>\n  <application>\n    <server>\n      app=DemoApp\n      server=S\n    </server>\n    <client>\n      sample-rate=1000\n      verif-probe=x and y\n    </client>\n  </application>\n</tars>\n"
	bad := "<tars>\n  <application>\n    <server>\n      app=DemoApp\n      server=S\n    </server>\n    <client>\n      sample-rate=1000\n      verif-probe=x & y\n    </client>\n  </application>\n</tars>\n"
	for _, tc := range []struct {
		name, text string
		wantNil    bool
	}{{"control", good, false}, {"syntax-error-in-client-section", bad, true}} {
		a, err := appchild.Start(appchild.Config{Raw: tc.text, ConfOnly: true})
		if err != nil {
			if a != nil {
				a.Kill()
			}
			run.Inconclusive("application child: " + err.Error())
			continue
		}
		l, ok := a.Line("CONF ")
		a.Kill()
		if !ok {
			run.Inconclusive("application child printed no CONF line")
			continue
		}
		var st struct {
			ConfNil     bool   `json:"conf_nil"`
			ServerApp   string `json:"server_app"`
			ClientProbe string `json:"client_probe"`
		}
		_ = json.Unmarshal([]byte(l), &st)
		run.Eval(1)
		if tc.wantNil && !st.ConfNil {
			run.Violation("silent-partial", "application:GetConf", fmt.Sprintf("the server configuration file has a syntax error in its client section; tars.GetConf() is not nil: server<app>=%q is readable, client<verif-probe> reads %q", st.ServerApp, st.ClientProbe),
				map[string]interface{}{"document": tc.text, "child": l})
			continue
		}
		if !tc.wantNil && (st.ConfNil || st.ServerApp != "DemoApp" || st.ClientProbe != "x and y") {
			run.Violation("model-mismatch", "application:GetConf", fmt.Sprintf("a valid server configuration file is not available through tars.GetConf(): %s", l), map[string]interface{}{"document": tc.text, "child": l})
			continue
		}
		run.Distinct("app-conf|" + tc.name)
	}
}

// adapterQueueCapScenario: values that the application takes from the configuration per adapter
// reach that adapter and no other.  A server with five adapters of which some state `queuecap` and
// the others do not: each adapter that states one has it, each of the others has the server-wide
// value — whatever the order in which the application walks the adapter sections (a map: the
// order changes from process to process, so several processes are started).
func adapterQueueCapScenario(procs int) {
	type ad struct {
		name, obj string
		cap       int // 0: not stated
	}
	ads := []ad{{"A.S.AlphaAdapter", "A.S.AlphaObj", 0}, {"A.S.BetaAdapter", "A.S.BetaObj", 77}, {"A.S.GammaAdapter", "A.S.GammaObj", 0}, {"A.S.DeltaAdapter", "A.S.DeltaObj", 123456}, {"A.S.EpsAdapter", "A.S.EpsObj", 0}}
	for _, serverWide := range []int{0, 5000} {
		text := "<tars>\n  <application>\n    <server>\n      app=A\n      server=S\n"
		if serverWide > 0 {
			text += fmt.Sprintf("      queuecap=%d\n", serverWide)
		}
		for i, a := range ads {
			text += fmt.Sprintf("      <%s>\n        endpoint=tcp -h 127.0.0.1 -p %d -t 60000\n        protocol=tars\n        servant=%s\n        threads=2\n", a.name, 20000+i, a.obj)
			if a.cap > 0 {
				text += fmt.Sprintf("        queuecap=%d\n", a.cap)
			}
			text += fmt.Sprintf("      </%s>\n", a.name)
		}
		text += "    </server>\n  </application>\n</tars>\n"
		for p := 0; p < procs; p++ {
			a, err := appchild.Start(appchild.Config{Raw: text, ConfOnly: true})
			if err != nil {
				if a != nil {
					a.Kill()
				}
				run.Inconclusive("application child: " + err.Error())
				continue
			}
			l, ok := a.Line("CONF ")
			a.Kill()
			if !ok {
				run.Inconclusive("application child printed no CONF line")
				continue
			}
			var st struct {
				ConfNil   bool           `json:"conf_nil"`
				Caps      map[string]int `json:"queue_caps"`
				ServerCap int            `json:"server_queue_cap"`
			}
			_ = json.Unmarshal([]byte(l), &st)
			if st.ConfNil || len(st.Caps) == 0 {
				run.Inconclusive("application child: configuration not available")
				continue
			}
			if serverWide > 0 && st.ServerCap != serverWide {
				run.Violation("value-not-exact", "application:server-queuecap", fmt.Sprintf("server-wide queuecap=%d in the file, the application holds %d", serverWide, st.ServerCap), map[string]interface{}{"config": text})
				return
			}
			for _, ad := range ads {
				want := ad.cap
				if want == 0 {
					want = st.ServerCap // the server-wide value (the file's, or the framework's default)
				}
				got, ok := st.Caps[ad.obj]
				if !ok {
					run.Inconclusive("application child: adapter " + ad.name + " not configured")
					continue
				}
				if got != want {
					stated := "does not state queuecap (server-wide value " + fmt.Sprint(st.ServerCap) + ")"
					if ad.cap > 0 {
						stated = fmt.Sprintf("states queuecap=%d", ad.cap)
					}
					run.Violation("value-of-another-section", "application:adapter-queuecap", fmt.Sprintf("adapter %s %s and ended up with %d", ad.name, stated, got),
						map[string]interface{}{"config": text, "queue_caps_held_by_the_application": st.Caps, "server_wide": st.ServerCap, "process": p})
					return
				}
				run.Add("adapter_values_compared", 1)
			}
			run.Eval(1)
			run.Distinct(fmt.Sprintf("adapter-queuecap|server=%d|proc=%d", serverWide, p))
		}
	}
}
