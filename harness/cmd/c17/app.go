package main

import (
	"encoding/json"
	"fmt"

	"verif/appchild"
)

// appConfScenario: the configuration as the application hands it to user code (tars.GetConf()).
// A server configuration file with a syntax error further down must not be available in part:
// GetConf() is nil, exactly as for any other unreadable file.  Control: the same file without the
// error is available with its values.
func appConfScenario() {
	good := "<tars>\n  <application>\n    <server>\n      app=DemoApp\n      server=S\n    </server>\n    <client>\n      sample-rate=1000\n      verif-probe=x and y\n    </client>\n  </application>\n</tars>\n"
	bad := "<tars>\n  <application>\n    <server>\n      app=DemoApp\n      server=S\n    </server>\n    <client>\n      sample-rate=1000\n      verif-probe=x & y\n    </client>\n  </application>\n</tars>\n"
	for _, tc := range []struct {
		name, text string
		wantNil    bool
	}{{"control", good, false}, {"syntax-error-in-client-section", bad, true}} {
		a, err := appchild.Start(appchild.Config{Raw: tc.text, ConfOnly: true})
		if err != nil {
			if a != nil {
				a.Kill()
			}
			run.Inconclusive("application child: " + err.Error())
			continue
		}
		l, ok := a.Line("CONF ")
		a.Kill()
		if !ok {
			run.Inconclusive("application child printed no CONF line")
			continue
		}
		var st struct {
			ConfNil     bool   `json:"conf_nil"`
			ServerApp   string `json:"server_app"`
			ClientProbe string `json:"client_probe"`
		}
		_ = json.Unmarshal([]byte(l), &st)
		run.Eval(1)
		if tc.wantNil && !st.ConfNil {
			run.Violation("silent-partial", "application:GetConf", fmt.Sprintf("the server configuration file has a syntax error in its client section; tars.GetConf() is not nil: server<app>=%q is readable, client<verif-probe> reads %q", st.ServerApp, st.ClientProbe),
				map[string]interface{}{"document": tc.text, "child": l})
			continue
		}
		if !tc.wantNil && (st.ConfNil || st.ServerApp != "DemoApp" || st.ClientProbe != "x and y") {
			run.Violation("model-mismatch", "application:GetConf", fmt.Sprintf("a valid server configuration file is not available through tars.GetConf(): %s", l), map[string]interface{}{"document": tc.text, "child": l})
			continue
		}
		run.Distinct("app-conf|" + tc.name)
	}
}
