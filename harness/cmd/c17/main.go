// C17 — config parser: complete and exact, or an error, never silently partial.
//
// Monitor: documents are generated from the config grammar together with a model (per domain
// path: key->value with later duplicates winning, line list, sub-domain set); the real
// conf.Conf parses the rendered text and every getter is compared with the model.  Fault
// injection damages valid documents; the oracle then accepts an error, or success with every
// model entry outside the faulty line retrievable exactly.  Hostile bytes run under recover().
package main

import (
	"fmt"
	"math"
	"math/rand"
	"os"
	"runtime/debug"
	"sort"
	"strconv"
	"strings"
	"verif/appchild"

	"github.com/TarsCloud/TarsGo/tars/util/conf"

	"verif/vlib"
)

var run *vlib.Run

// ---------- model ----------

type domain struct {
	name  string
	path  string
	kv    map[string]string
	lines []string
	subs  map[string]*domain
	order []string // sub names in first-open order
}

func newDomain(name, path string) *domain {
	return &domain{name: name, path: path, kv: map[string]string{}, subs: map[string]*domain{}}
}

func (d *domain) sub(name string) *domain {
	if s, ok := d.subs[name]; ok {
		return s
	}
	s := newDomain(name, d.path+"/"+name)
	d.subs[name] = s
	d.order = append(d.order, name)
	return s
}

func (d *domain) all(out *[]*domain) {
	*out = append(*out, d)
	for _, n := range d.order {
		d.subs[n].all(out)
	}
}

// docLine is one physical line of the rendered document.
type docLine struct {
	text   string
	kind   int // 0 blank/comment, 1 entry, 2 open, 3 close
	dom    *domain
	name   string // open/close: domain name
	key    string
	hasKey bool
	glue   bool // no line break after this line (an open tag followed by an entry, an entry followed by a close tag)
}

type doc struct {
	root  *domain
	lines []docLine
	eol   string
}

func (d *doc) text() string {
	var sb strings.Builder
	for i, l := range d.lines {
		sb.WriteString(l.text)
		if l.glue && i+1 < len(d.lines) && ((l.kind == 2 && d.lines[i+1].kind == 1) || (l.kind == 1 && d.lines[i+1].kind == 3)) {
			continue // "<a>k=v" / "k=v</a>": tags delimit text runs, a line break is not needed
		}
		sb.WriteString(d.eol)
	}
	return sb.String()
}

const ws = " \n\t"

// applyEntry applies the grammar's meaning of one entry line to the model.
func applyEntry(d *domain, raw string) (key string, has bool) {
	line := strings.Trim(raw, ws)
	if line == "" || line[0] == '#' {
		return "", false
	}
	d.lines = append(d.lines, line)
	k := line
	v := ""
	if i := strings.Index(line, "="); i >= 0 {
		k, v = line[:i], line[i+1:]
	}
	k = strings.Trim(k, ws)
	v = strings.Trim(v, ws)
	if k == "" {
		return "", false
	}
	d.kv[k] = v
	return k, true
}

// ---------- generator ----------

var nameAlpha = "abcdefghijklmnopqrstuvwxyzABCDEFGHIJKLMNOPQRSTUVWXYZ0123456789_.-"

func genName(r *rand.Rand, first string) string {
	n := 1 + r.Intn(8)
	b := []byte{first[r.Intn(len(first))]}
	for i := 1; i < n; i++ {
		b = append(b, nameAlpha[r.Intn(len(nameAlpha))])
	}
	return string(b)
}

var valuePieces = []string{"a", "b", "1", "0", " ", "  ", "=", "==", "#", "/", ":", "http://x.y/z?a=1", "tcp -h 127.0.0.1 -p 10015 -t 60000", "'", "\"", ">", "]", "é", "日本", "\\", ";", ",", "@", "%", "-", "+", "true", "3.14", "|", "(", ")", "{", "}", "$HOME", "${name}", "pa$$w0rd", "US$5", "$", "?", "!", "*", "~", "`",
	// white space that is not a blank: part of the value also at its edges
	"\u00a0", "\u3000", "\u0085", "\u00a0x\u00a0"}

func genValue(r *rand.Rand) string {
	switch r.Intn(12) {
	case 0:
		return ""
	case 1:
		return strconv.Itoa(r.Intn(100000) - 50000)
	case 2:
		return genName(r, nameAlpha)
	}
	var sb strings.Builder
	for k := 1 + r.Intn(5); k > 0; k-- {
		sb.WriteString(valuePieces[r.Intn(len(valuePieces))])
	}
	// "]]>" is reserved by the container syntax
	return strings.ReplaceAll(sb.String(), "]]>", "]] >")
}

type typedEntry struct {
	path string
	text string
}

func padding(r *rand.Rand) string {
	return []string{"", " ", "  ", "\t", " \t ", "    "}[r.Intn(6)]
}

// genDoc builds a document and its model.
func genDoc(r *rand.Rand, maxEntries int) (*doc, []typedEntry) {
	d := &doc{root: newDomain("", ""), eol: "\n"}
	if r.Intn(4) == 0 {
		d.eol = "\r\n"
	}
	var typed []typedEntry
	budget := r.Intn(maxEntries + 1)
	letters := "abcdefghijklmnopqrstuvwxyzABCDEFGHIJKLMNOPQRSTUVWXYZ_"
	var gen func(dom *domain, depth int)
	gen = func(dom *domain, depth int) {
		indent := strings.Repeat([]string{"  ", "\t", "", " "}[r.Intn(4)], depth)
		n := r.Intn(8)
		if depth == 0 {
			n = 1 + r.Intn(3)
		}
		usedKeys := map[string]bool{}
		for i := 0; i < n || (depth > 0 && budget > 0 && r.Intn(3) != 0); i++ {
			c := r.Intn(10)
			switch {
			case (depth == 0 && c < 7) || (depth > 0 && c < 3 && depth < 6):
				// sub-domain (possibly re-opening an existing one)
				var name string
				if len(dom.order) > 0 && r.Intn(4) == 0 {
					name = dom.order[r.Intn(len(dom.order))]
				} else {
					name = genName(r, letters)
					for {
						if _, isKey := dom.kv[name]; !isKey && !usedKeys[name] {
							break
						}
						name = genName(r, letters)
					}
				}
				s := dom.sub(name)
				d.lines = append(d.lines, docLine{text: indent + "<" + name + ">" + padding(r), kind: 2, dom: s, name: name, glue: r.Intn(2) == 0})
				gen(s, depth+1)
				d.lines = append(d.lines, docLine{text: indent + "</" + name + ">" + padding(r), kind: 3, dom: s, name: name})
			case c == 3:
				t := []string{"", "   ", "\t", "# comment = 1", "  #k=v", "#"}[r.Intn(6)]
				d.lines = append(d.lines, docLine{text: indent + t, kind: 0, dom: dom})
			default:
				if budget <= 0 && i >= n {
					continue
				}
				budget--
				var key string
				switch r.Intn(10) {
				case 0:
					if len(usedKeys) > 0 { // duplicate key: later wins
						for k := range usedKeys {
							key = k
							break
						}
					} else {
						key = genName(r, nameAlpha)
					}
				case 1:
					key = genName(r, nameAlpha) + " " + genName(r, nameAlpha) // inner blank
				case 2:
					if r.Intn(3) == 0 {
						// a key ending in a no-break space is another key than the one without it
						key = genName(r, nameAlpha)
						if r.Intn(2) == 0 {
							for k := range usedKeys {
								if !strings.ContainsAny(k, " \u00a0") {
									key = k
									break
								}
							}
						}
						key += "\u00a0"
					} else {
						key = genName(r, nameAlpha)
					}
				default:
					key = genName(r, nameAlpha)
				}
				if _, isDom := dom.subs[key]; isDom || key[0] == '#' {
					key = "k" + key
					if _, again := dom.subs[key]; again {
						continue
					}
				}
				var raw string
				switch r.Intn(12) {
				case 0:
					raw = key // key without '='
				case 1:
					raw = padding(r) + "=" + genValue(r) // empty key: listed as line, not as key
				case 2, 3, 4:
					// typed value
					tv := genTyped(r)
					raw = key + padding(r) + "=" + padding(r) + tv
					typed = append(typed, typedEntry{dom.path + "<" + key + ">", tv})
				default:
					raw = key + padding(r) + "=" + padding(r) + genValue(r)
				}
				raw = indent + raw + padding(r)
				k, has := applyEntry(dom, raw)
				if has {
					usedKeys[k] = true
				}
				d.lines = append(d.lines, docLine{text: raw, kind: 1, dom: dom, key: k, hasKey: has, glue: r.Intn(2) == 0})
			}
		}
	}
	gen(d.root, 0)
	// typed entries may have been overwritten by later duplicates: keep only those still current
	var cur []typedEntry
	var doms []*domain
	d.root.all(&doms)
	byPath := map[string]*domain{}
	for _, x := range doms {
		byPath[x.path] = x
	}
	for _, t := range typed {
		i := strings.LastIndex(t.path, "<")
		dp, k := t.path[:i], strings.TrimSuffix(t.path[i+1:], ">")
		if dm := byPath[dp]; dm != nil && dm.kv[k] == strings.Trim(t.text, ws) && !strings.ContainsAny(k, " ") {
			cur = append(cur, t)
		}
	}
	return d, cur
}

func genTyped(r *rand.Rand) string {
	switch r.Intn(14) {
	case 0:
		return strconv.Itoa(r.Intn(2000) - 1000)
	case 1:
		return []string{"2147483647", "-2147483648", "2147483648", "-2147483649", "4294967297", "9223372036854775807", "-9223372036854775808", "9223372036854775808", "0", "-0"}[r.Intn(10)]
	case 2:
		return []string{"true", "false", "1", "0", "TRUE", "False", "t", "F"}[r.Intn(8)]
	case 3:
		return []string{"3.14", "-0.5", "1e10", "1.7976931348623157e308", "0.0", "100"}[r.Intn(6)]
	case 4:
		return []string{"abc", "12x", "x12", "1 2", "--1", "1.2.3", "yes", "on", "0x", "1e", "tru", "nan()"}[r.Intn(12)]
	case 5:
		return strconv.FormatInt(r.Int63()-r.Int63(), 10)
	case 6:
		// zero-padded decimals are decimals; base prefixes and digit separators are not
		return []string{"010", "0100", "08", "-019", "00060000", "007", "00", "-010", "0x10", "0X1F", "0b101", "0o17", "1_000", "-0x8"}[r.Intn(14)]
	}
	return strconv.Itoa(r.Intn(100000))
}

// ---------- oracle ----------

func sortedCopy(s []string) []string {
	c := append([]string(nil), s...)
	sort.Strings(c)
	return c
}

func eqStrs(a, b []string) bool {
	if len(a) != len(b) {
		return false
	}
	for i := range a {
		if a[i] != b[i] {
			return false
		}
	}
	return true
}

type result struct {
	err   error
	pan   interface{}
	stack string
	c     *conf.Conf
}

func parse(text string) (res result) {
	defer func() {
		if r := recover(); r != nil {
			res.pan = r
			res.stack = string(debug.Stack())
		}
	}()
	c := conf.New()
	res.c = c
	res.err = c.InitFromString(text)
	return
}

// checkComplete compares every getter with the model; skipKeys/skipLine exclude the entry of a
// faulty line.  Returns "" or the first difference.
func checkComplete(c *conf.Conf, root *domain, skipDom *domain, skipKey, skipLine string) string {
	var doms []*domain
	root.all(&doms)
	for _, d := range doms {
		p := d.path // "" for the root: "<k>" and "/<k>" address top-level keys, "" and "/" list the top level
		if d == root && skipDom == nil {
			if gd := sortedCopy(c.GetDomain("/")); !eqStrs(gd, sortedCopy(d.order)) {
				return fmt.Sprintf("GetDomain(%q) = %q, document has %q", "/", gd, sortedCopy(d.order))
			}
			if gl := sortedCopy(c.GetDomainLine("/")); !eqStrs(gl, sortedCopy(d.lines)) {
				return fmt.Sprintf("GetDomainLine(%q) = %q, document has %q", "/", gl, sortedCopy(d.lines))
			}
		}
		gm := c.GetMap(p)
		for k, v := range d.kv {
			if d == skipDom && k == skipKey {
				continue
			}
			if gv, ok := gm[k]; !ok || gv != v {
				return fmt.Sprintf("GetMap(%q)[%q] = %q (present=%v), document says %q", p, k, gv, ok, v)
			}
			if !strings.ContainsAny(k, "/<>") {
				for _, path := range []string{p + "<" + k + ">", p + "/<" + k + ">"} {
					if gs := c.GetString(path); gs != v {
						return fmt.Sprintf("GetString(%q) = %q, document says %q", path, gs, v)
					}
					if gs := c.GetStringWithDef(path, "\x00def"); gs != v {
						return fmt.Sprintf("GetStringWithDef(%q) = %q, document says %q", path, gs, v)
					}
				}
			}
		}
		if skipDom == nil {
			if len(gm) != len(d.kv) {
				return fmt.Sprintf("GetMap(%q) has %d keys, document has %d", p, len(gm), len(d.kv))
			}
			keys := make([]string, 0, len(d.kv))
			for k := range d.kv {
				keys = append(keys, k)
			}
			if gk := sortedCopy(c.GetDomainKey(p)); !eqStrs(gk, sortedCopy(keys)) {
				return fmt.Sprintf("GetDomainKey(%q) = %q, document has %q", p, gk, sortedCopy(keys))
			}
			if gl := sortedCopy(c.GetDomainLine(p)); !eqStrs(gl, sortedCopy(d.lines)) {
				return fmt.Sprintf("GetDomainLine(%q) = %q, document has %q", p, gl, sortedCopy(d.lines))
			}
			if gd := sortedCopy(c.GetDomain(p)); !eqStrs(gd, sortedCopy(d.order)) {
				return fmt.Sprintf("GetDomain(%q) = %q, document has %q", p, gd, sortedCopy(d.order))
			}
			if gs := c.GetStringWithDef(p+"<\x01absent>", "dflt"); gs != "dflt" {
				return fmt.Sprintf("absent key in %q returned %q instead of the default", p, gs)
			}
			// a sub-domain is not a key: asked for as one, the key is absent
			for _, sub := range d.order {
				if _, isKey := d.kv[sub]; isKey || strings.ContainsAny(sub, "/<>") {
					continue
				}
				if gs := c.GetStringWithDef(p+"<"+sub+">", "dflt"); gs != "dflt" {
					return fmt.Sprintf("GetStringWithDef(%q) = %q: %q is a sub-domain, there is no such key, the default is due", p+"<"+sub+">", gs, sub)
				}
				if gi := c.GetIntWithDef(p+"<"+sub+">", 7777); gi != 7777 {
					return fmt.Sprintf("GetIntWithDef(%q) = %d: %q is a sub-domain, there is no such key, the default is due", p+"<"+sub+">", gi, sub)
				}
			}
		} else {
			// listings must at least contain every undamaged entry
			have := map[string]int{}
			for _, l := range c.GetDomainLine(p) {
				have[l]++
			}
			want := map[string]int{}
			for _, l := range d.lines {
				want[l]++
			}
			if d == skipDom {
				want[skipLine]--
			}
			for l, n := range want {
				if have[l] < n {
					return fmt.Sprintf("GetDomainLine(%q) lacks line %q", p, l)
				}
			}
			hd := map[string]bool{}
			for _, s := range c.GetDomain(p) {
				hd[s] = true
			}
			for _, s := range d.order {
				if !hd[s] {
					return fmt.Sprintf("GetDomain(%q) lacks sub-domain %q", p, s)
				}
			}
		}
	}
	return ""
}

// scribble does to every listing what callers do to slices and maps they own: overwrite, reorder, extend.
func scribble(c *conf.Conf, root *domain) {
	var doms []*domain
	root.all(&doms)
	edit := func(l []string) {
		for i := range l {
			l[i] = "~edited by the caller~"
		}
		l = append(l, "~appended by the caller~")
		_ = l
	}
	for _, d := range doms {
		for _, p := range []string{d.path, d.path + "/"} {
			edit(c.GetDomainLine(p))
			edit(c.GetDomainKey(p))
			edit(c.GetDomain(p))
			m := c.GetMap(p)
			for k := range m {
				m[k] = "~edited by the caller~"
			}
			if m != nil {
				m["~added by the caller~"] = "x"
			}
		}
	}
}

func checkTyped(c *conf.Conf, typed []typedEntry) string {
	for _, t := range typed {
		txt := strings.Trim(t.text, ws)
		// int
		wantI, okI := 7777, false
		if v, err := strconv.ParseInt(txt, 10, 64); err == nil && canonicalInt(txt) {
			wantI, okI = int(v), true
		}
		malformed := clearlyMalformed(txt)
		malformedInt := malformed || notADecimal(txt)
		if okI || malformedInt || outOfRange(txt, 64) {
			if g := c.GetIntWithDef(t.path, 7777); g != wantI {
				return fmt.Sprintf("GetIntWithDef(%q, 7777) = %d for text %q, want %d", t.path, g, txt, wantI)
			}
		}
		want32, ok32 := int32(7777), false
		if v, err := strconv.ParseInt(txt, 10, 64); err == nil && canonicalInt(txt) && v >= math.MinInt32 && v <= math.MaxInt32 {
			want32, ok32 = int32(v), true
		}
		if ok32 || malformedInt || outOfRange(txt, 32) {
			if g := c.GetInt32WithDef(t.path, 7777); g != want32 {
				return fmt.Sprintf("GetInt32WithDef(%q, 7777) = %d for text %q, want %d", t.path, g, txt, want32)
			}
		}
		switch txt {
		case "true", "false", "1", "0":
			w := txt == "true" || txt == "1"
			if g := c.GetBoolWithDef(t.path, !w); g != w {
				return fmt.Sprintf("GetBoolWithDef(%q) = %v for text %q", t.path, g, txt)
			}
		default:
			if malformed && txt != "t" && txt != "F" {
				if c.GetBoolWithDef(t.path, true) != true || c.GetBoolWithDef(t.path, false) != false {
					return fmt.Sprintf("GetBoolWithDef(%q) does not return the default for malformed text %q", t.path, txt)
				}
			}
		}
		if f, err := strconv.ParseFloat(txt, 64); err == nil && canonicalFloat(txt) {
			if g := c.GetFloatWithDef(t.path, -1.25); g != f {
				return fmt.Sprintf("GetFloatWithDef(%q) = %v for text %q", t.path, g, txt)
			}
		} else if malformed {
			if g := c.GetFloatWithDef(t.path, -1.25); g != -1.25 {
				return fmt.Sprintf("GetFloatWithDef(%q) = %v for malformed text %q, want the default", t.path, g, txt)
			}
		}
	}
	return ""
}

func canonicalInt(s string) bool {
	if s == "" {
		return false
	}
	t := s
	if t[0] == '-' {
		t = t[1:]
	}
	if t == "" {
		return false
	}
	for _, c := range t {
		if c < '0' || c > '9' {
			return false
		}
	}
	return true
}

func canonicalFloat(s string) bool {
	if canonicalInt(s) {
		return true
	}
	switch s {
	case "3.14", "-0.5", "1e10", "1.7976931348623157e308", "0.0":
		return true
	}
	return false
}

func outOfRange(s string, bits int) bool {
	if !canonicalInt(s) {
		return false
	}
	_, err := strconv.ParseInt(s, 10, bits)
	return err != nil
}

// notADecimal: texts that are integers only under another base or digit-separator convention; the
// integer getters read decimal.
func notADecimal(s string) bool {
	switch s {
	case "0x10", "0X1F", "0b101", "0o17", "1_000", "-0x8", "0x":
		return true
	}
	return false
}

func clearlyMalformed(s string) bool {
	switch s {
	case "abc", "12x", "x12", "1 2", "--1", "1.2.3", "yes", "on", "0x", "1e", "tru", "nan()", "":
		return true
	}
	return false
}

func panicLocus(stack string) string {
	for _, l := range strings.Split(stack, "\n") {
		l = strings.TrimSpace(l)
		if strings.Contains(l, "TarsGo/tars/") && strings.Contains(l, "(") && !strings.HasPrefix(l, "/") {
			if i := strings.Index(l, "("); i > 0 {
				l = l[:i]
			}
			if i := strings.LastIndex(l, "/"); i >= 0 {
				l = l[i+1:]
			}
			return l
		}
	}
	return "unknown"
}

// ---------- faults ----------

type fault struct {
	kind string
	text string
	dom  *domain
	key  string
	line string
	root *domain // model to compare against (may be a rebuilt one)
}

// rebuild recomputes the model from document lines (used after structural edits).
func rebuild(lines []docLine) *domain {
	root := newDomain("", "")
	stack := []*domain{root}
	for _, l := range lines {
		cur := stack[len(stack)-1]
		switch l.kind {
		case 1:
			applyEntry(cur, l.text)
		case 2:
			stack = append(stack, cur.sub(l.name))
		case 3:
			if len(stack) > 1 {
				stack = stack[:len(stack)-1]
			}
		}
	}
	return root
}

func entryDomain(lines []docLine, idx int) (path string) {
	var st []string
	for i := 0; i < idx; i++ {
		switch lines[i].kind {
		case 2:
			st = append(st, lines[i].name)
		case 3:
			if len(st) > 0 {
				st = st[:len(st)-1]
			}
		}
	}
	return "/" + strings.Join(st, "/")
}

func findDomain(root *domain, path string) *domain {
	var doms []*domain
	root.all(&doms)
	for _, d := range doms {
		if d.path == path || (path == "/" && d == root) {
			return d
		}
	}
	return nil
}

func injectFaults(r *rand.Rand, d *doc) []fault {
	var out []fault
	join := func(ls []docLine) string {
		var sb strings.Builder
		for _, l := range ls {
			sb.WriteString(l.text)
			sb.WriteString(d.eol)
		}
		return sb.String()
	}
	n := len(d.lines)
	if n < 3 {
		return nil
	}
	// (a)/(b): a line with a character the container format cannot hold, inserted inside a domain
	for _, bad := range []struct{ kind, line string }{
		{"amp-in-value", "url=http://x?a=1&b=2"}, {"amp-in-value", "k=a & b"}, {"lt-in-value", "cmp=a<1"}, {"lt-in-value", "cmp=a < b"},
		{"amp-in-key", "a&b=1"}, {"lt-alone", "<"},
	} {
		pos := 1 + r.Intn(n-1) // after the first open tag
		nl := append(append(append([]docLine(nil), d.lines[:pos]...), docLine{text: "  " + bad.line, kind: 0}), d.lines[pos:]...)
		out = append(out, fault{kind: bad.kind, text: join(nl), root: rebuild(nl), dom: nil, line: bad.line})
	}
	// (c) unclosed domain: drop one closing tag
	var closes, opens []int
	for i, l := range d.lines {
		if l.kind == 3 {
			closes = append(closes, i)
		}
		if l.kind == 2 {
			opens = append(opens, i)
		}
	}
	if len(closes) > 0 {
		i := closes[len(closes)-1] // the outermost last close: structure of everything else unchanged
		nl := append(append([]docLine(nil), d.lines[:i]...), d.lines[i+1:]...)
		out = append(out, fault{kind: "unclosed-domain", text: join(nl), root: rebuild(d.lines)})
		// (d) mismatched end tag
		j := closes[r.Intn(len(closes))]
		nl = append([]docLine(nil), d.lines...)
		nl[j].text = "</" + d.lines[j].name + "X>"
		out = append(out, fault{kind: "mismatched-end-tag", text: join(nl), root: rebuild(d.lines)})
		// (e) stray end tag inserted somewhere
		pos := 1 + r.Intn(n-1)
		nl = append(append(append([]docLine(nil), d.lines[:pos]...), docLine{text: "</zzStray>", kind: 0}), d.lines[pos:]...)
		out = append(out, fault{kind: "stray-end-tag", text: join(nl), root: rebuild(d.lines)})
	}
	// (f) truncation at a line boundary
	for k := 0; k < 3; k++ {
		cut := 1 + r.Intn(n-1)
		out = append(out, fault{kind: "truncated", text: join(d.lines[:cut]), root: rebuild(d.lines[:cut])})
	}
	// (g) a line longer than the line scanner's default token limit
	if len(opens) > 0 {
		pos := opens[r.Intn(len(opens))] + 1
		n := 70000
		if r.Intn(40) == 0 {
			n = []int{1<<20 - 8, 1 << 20, 1<<20 + 1, 3 << 20, 65528, 65536}[r.Intn(6)] // "longkey=" is 8 bytes
		}
		long := "longkey=" + strings.Repeat("x", n)
		nl := append(append(append([]docLine(nil), d.lines[:pos]...), docLine{text: long, kind: 1}), d.lines[pos:]...)
		out = append(out, fault{kind: "very-long-line", text: join(nl), root: rebuild(nl)})
	}
	// (i) an XML declaration in front of the document that names another encoding or XML version:
	// the container parser refuses those (not with a syntax error) — an error, or the whole document
	for _, decl := range []string{`<?xml version="1.0" encoding="GBK"?>`, `<?xml version="1.0" encoding="ISO-8859-1"?>`, `<?xml version="1.1"?>`, `<?xml version="1.0" encoding="UTF-8"?>`, `<?xml version="1.0" encoding="utf-16"?>`} {
		if r.Intn(10) != 0 {
			continue
		}
		nl := append([]docLine{{text: decl, kind: 0}}, d.lines...)
		out = append(out, fault{kind: "xml-declaration", text: join(nl), root: rebuild(d.lines)})
	}
	// (h) a domain name that is not a valid element name
	if len(opens) > 0 {
		pos := opens[r.Intn(len(opens))] + 1
		nl := append(append(append([]docLine(nil), d.lines[:pos]...), docLine{text: "<1bad>", kind: 0}, docLine{text: "x=1", kind: 0}, docLine{text: "</1bad>", kind: 0}), d.lines[pos:]...)
		out = append(out, fault{kind: "invalid-domain-name", text: join(nl), root: rebuild(d.lines)})
	}
	return out
}

func main() {
	appchild.MaybeChild()
	run = vlib.Start("C17")
	run.SetRule("documents generated from the config grammar (nesting 1..6, re-opened domains, names from [A-Za-z0-9_.-], values with inner blanks/'='/'#'/quotes/unicode, paddings, CRLF, comments, blank lines, keys without '=', empty keys, duplicate keys, typed values); every getter compared with the generating model. Faults: '&'/'<' inside a line, unclosed domain, mismatched/stray end tag, truncation at a line, over-long line, invalid domain name. Hostile: seeded random bytes and mutated documents under recover(). A case is one distinct document text.")
	run.Assume("a key and a sub-domain of the same name in one domain, keys containing '/', '<', '>' and XML entities are outside the judged grammar")
	r := run.Rand("docs")
	nDocs := run.Pick(4000, 150000)
	maxE := 60
	var entries int64
	for i := 0; i < nDocs; i++ {
		me := maxE
		if i%50 == 0 {
			me = 500
		}
		d, typed := genDoc(r, me)
		text := d.text()
		run.Eval(1)
		run.Distinct(text)
		res := parse(text)
		if res.pan != nil {
			run.Violation("panic", panicLocus(res.stack), fmt.Sprintf("panic %v", res.pan), map[string]interface{}{"document": text, "stack": res.stack})
			continue
		}
		if res.err != nil {
			run.Violation("valid-document-rejected", "InitFromString", res.err.Error(), map[string]interface{}{"document": text})
			continue
		}
		if diff := checkComplete(res.c, d.root, nil, "", ""); diff != "" {
			run.Violation("model-mismatch", classify(diff), diff, map[string]interface{}{"document": text, "difference": diff})
			continue
		}
		if diff := checkTyped(res.c, typed); diff != "" {
			run.Violation("typed-getter", classify(diff), diff, map[string]interface{}{"document": text, "difference": diff})
		}
		// what a getter hands out belongs to the caller: a caller that sorts, edits or extends a
		// listing does not rewrite the configuration — every later query still answers from the document
		if i%2 == 1 {
			scribble(res.c, d.root)
			run.Eval(1)
			if diff := checkComplete(res.c, d.root, nil, "", ""); diff != "" {
				run.Violation("model-mismatch", "after-caller-edited-a-listing:"+classify(diff), "after a caller modified the listings it had been handed: "+diff, map[string]interface{}{"document": text, "difference": diff})
				continue
			}
			run.Add("documents_requeried_after_caller_edited_listings", 1)
		}
		// the same document through the file entry point (every 8th): what is on disk is what is parsed
		if i%8 == 3 {
			dir := os.Getenv("VERIF_BUILD")
			if dir == "" {
				dir = os.TempDir()
			}
			path := fmt.Sprintf("%s/c17doc-%d.conf", dir, i%64)
			if err := os.WriteFile(path, []byte(text), 0o644); err == nil {
				run.Eval(1)
				fc, ferr := conf.NewConf(path)
				os.Remove(path)
				if ferr != nil {
					run.Violation("valid-document-rejected", "NewConf(file)", ferr.Error(), map[string]interface{}{"document": text})
					continue
				}
				if diff := checkComplete(fc, d.root, nil, "", ""); diff != "" {
					run.Violation("model-mismatch", "file:"+classify(diff), "through the file entry point: "+diff, map[string]interface{}{"document": text, "difference": diff})
					continue
				}
				run.Add("documents_also_parsed_from_file", 1)
			}
		}
		var doms []*domain
		d.root.all(&doms)
		for _, x := range doms {
			entries += int64(len(x.lines))
		}
		if i < 2 {
			run.Sample(map[string]interface{}{"document": text})
		}
		// ---- faults ----
		if i%2 == 0 {
			for _, f := range injectFaults(r, d) {
				run.Eval(1)
				run.Distinct(f.text)
				run.Add("fault_cases_"+f.kind, 1)
				fr := parse(f.text)
				if fr.pan != nil {
					run.Violation("panic", panicLocus(fr.stack), fmt.Sprintf("panic %v", fr.pan), map[string]interface{}{"document": f.text, "stack": fr.stack})
					continue
				}
				if fr.err != nil {
					run.Add("faults_rejected_with_error", 1)
					continue
				}
				skipDom := &domain{} // lenient listing comparison; no key skipped
				if diff := checkComplete(fr.c, f.root, skipDom, "", ""); diff != "" {
					run.Violation("silent-partial", f.kind, "InitFromString returned nil but "+diff, map[string]interface{}{"document": f.text, "fault": f.kind, "difference": diff})
				} else {
					run.Add("faults_accepted_complete", 1)
				}
			}
		}
	}
	run.Set("model_entries_checked", entries)

	// ---- hostile ----
	hr := run.Rand("hostile")
	nh := run.Pick(20000, 1000000)
	frags := []string{"<a>", "</a>", "<b>", "</b>", "k=v\n", "<", ">", "&", "&amp;", "&#x0;", "<!--", "-->", "<![CDATA[", "]]>", "<?xml", "?>", "<a b='c'>", "<a:b>", "</", "/>", "=", "#", "\n", "\x00", "\xff", "<a", "''", "\"", "<a>\n<b>\nk=v\n</b>\n</a>\n",
		// a key and a domain of one name
		"a\n", "a=1\n", "b\n", "k\n", "<k>", "</k>", "a<a>a</a>"}
	for i := 0; i < nh; i++ {
		var sb strings.Builder
		if hr.Intn(3) == 0 {
			b := make([]byte, hr.Intn(64))
			hr.Read(b)
			sb.Write(b)
		} else {
			for k := hr.Intn(12); k >= 0; k-- {
				sb.WriteString(frags[hr.Intn(len(frags))])
			}
		}
		s := sb.String()
		run.Eval(1)
		run.Distinct(s)
		res := parse(s)
		if res.pan != nil {
			run.Violation("panic", panicLocus(res.stack), fmt.Sprintf("panic %v on %q", res.pan, s), map[string]interface{}{"document": s, "stack": res.stack})
			continue
		}
		// getters on whatever was parsed must not panic either
		func() {
			defer func() {
				if rr := recover(); rr != nil {
					st := string(debug.Stack())
					run.Violation("panic", "getter:"+panicLocus(st), fmt.Sprintf("getter panic %v after parsing %q", rr, s), map[string]interface{}{"document": s, "stack": st})
				}
			}()
			for _, p := range []string{"/a", "/a/b", "/a/b<k>", "/", "", "<", "/a<", "//", "/a/b/c/d<k>"} {
				res.c.GetString(p)
				res.c.GetMap(p)
				res.c.GetDomain(p)
				res.c.GetDomainKey(p)
				res.c.GetDomainLine(p)
				res.c.GetIntWithDef(p, 1)
			}
		}()
	}
	run.Set("hostile_documents", nh)
	appConfScenario()
	adapterQueueCapScenario(run.Pick(4, 12))
	run.Finish()
}

func classify(diff string) string {
	if i := strings.Index(diff, "("); i > 0 {
		return diff[:i]
	}
	return "getter"
}
