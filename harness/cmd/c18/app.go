package main

import (
	"encoding/json"
	"fmt"

	"verif/appchild"
)

// appBindScenario: an adapter endpoint with "-h <advertised> -b <bind>" in the server's
// configuration file: the real application must hold exactly the endpoint the string describes
// (host = the advertised one, bind kept apart, key = the direct-string key) while listening on the
// bind address.
func appBindScenario() {
	a, err := appchild.Start(appchild.Config{BindHost: "127.0.0.1", AdvertisedHost: "127.0.0.9"})
	if err != nil {
		if a != nil {
			a.Kill()
		}
		run.Inconclusive("application child: " + err.Error())
		return
	}
	defer a.Kill()
	var st struct {
		Adapters []struct {
			Name, Host, Bind, Key, String, Proto string
			Port, Timeout                        int32
		} `json:"adapters"`
	}
	for i := 0; i < 100; i++ {
		if l, ok := a.Line("STATE "); ok {
			_ = json.Unmarshal([]byte(l), &st)
			break
		}
		sleepMs(20)
	}
	run.Eval(1)
	for _, ad := range st.Adapters {
		if ad.Name != a.TCPObj+"Adapter" {
			continue
		}
		want := fmt.Sprintf("tcp -h 127.0.0.9 -p %d -t 60000", ad.Port)
		if ad.Host != "127.0.0.9" || ad.Bind != "127.0.0.1" || ad.Key != want || ad.String != want {
			run.Violation("field-mismatch", "application:adapter-endpoint-with-bind", fmt.Sprintf("configuration says 'tcp -h 127.0.0.9 -b 127.0.0.1 -p %d -t 60000'; the application holds host=%q bind=%q key=%q string=%q", ad.Port, ad.Host, ad.Bind, ad.Key, ad.String),
				map[string]interface{}{"adapter": ad})
			return
		}
		run.Distinct("app-bind|ok")
		return
	}
	run.Inconclusive("application child printed no adapter state")
}
