// C18 — endpoint strings parse to the endpoint they describe.
//
// Monitor: endpoints are drawn from a model, rendered in every option order / spacing / flag form,
// parsed by the real endpoint.Parse and compared field by field with the model (defaults and
// weight normalisation computed independently); the registry route (Endpoint2tars/Tars2endpoint)
// is compared with the model and with the direct route's cache key; address lists go through the
// real ServantProxy constructor; hostile strings are parsed under recover().
package main

import (
	"fmt"
	"os"
	"runtime/debug"
	"strings"
	"time"
	"verif/appchild"

	"github.com/TarsCloud/TarsGo/tars"
	"github.com/TarsCloud/TarsGo/tars/protocol/res/endpointf"
	"github.com/TarsCloud/TarsGo/tars/util/endpoint"

	"verif/vlib"
)

var run *vlib.Run

type opt struct {
	flag string
	val  string
}

type model struct {
	Proto string
	Opts  []opt // in rendering order
}

type expect struct {
	Host, Proto, Bind                                             string
	Port, Timeout, Istcp, Grid, Qos, Weight, WeightType, AuthType int32
	Key                                                           string
}

func expected(m model) expect {
	e := expect{Timeout: 3000, Weight: -1}
	for _, o := range m.Opts { // later duplicates win
		var n int64
		fmt.Sscanf(o.val, "%d", &n)
		switch o.flag {
		case "h":
			e.Host = o.val
		case "b":
			e.Bind = o.val
		case "p":
			e.Port = int32(n)
		case "t":
			e.Timeout = int32(n)
		case "g":
			e.Grid = int32(n)
		case "q":
			e.Qos = int32(n)
		case "w":
			e.Weight = int32(n)
		case "v":
			e.WeightType = int32(n)
		case "e":
			e.AuthType = int32(n)
		}
	}
	switch m.Proto {
	case "tcp":
		e.Proto, e.Istcp = "tcp", 1
	case "ssl":
		e.Proto, e.Istcp = "tcp", 2
	default:
		e.Proto, e.Istcp = "udp", 0
	}
	if e.WeightType != 0 && (e.Weight == -1 || e.Weight > 100) {
		e.Weight = 100
	}
	e.Key = fmt.Sprintf("%s -h %s -p %d -t %d", e.Proto, e.Host, e.Port, e.Timeout)
	return e
}

func render(m model, style int) string {
	sep := " "
	switch style % 4 {
	case 1:
		sep = "  "
	case 2:
		sep = "\t"
	case 3:
		sep = " \t  "
	}
	var sb strings.Builder
	if (style/48)%2 == 1 {
		sb.WriteString(sep) // spacing in front of the protocol too (as after the ':' of an address list)
	}
	sb.WriteString(m.Proto)
	for i, o := range m.Opts {
		sb.WriteString(sep)
		dash := "-"
		if (style/4)%3 == 1 && i%2 == 0 {
			dash = "--"
		}
		if (style/12)%2 == 1 {
			sb.WriteString(dash + o.flag + "=" + o.val)
		} else {
			sb.WriteString(dash + o.flag + sep + o.val)
		}
	}
	if (style/24)%2 == 1 {
		sb.WriteString(sep)
	}
	return sb.String()
}

func safeParse(s string) (e endpoint.Endpoint, pan interface{}, stack string) {
	defer func() {
		if r := recover(); r != nil {
			pan = r
			stack = string(debug.Stack())
		}
	}()
	e = endpoint.Parse(s)
	return
}

func panicLocus(stack string) string {
	// first frame inside the repository
	for _, l := range strings.Split(stack, "\n") {
		l = strings.TrimSpace(l)
		if strings.Contains(l, "TarsGo/tars/") && strings.Contains(l, "(") && !strings.HasPrefix(l, "/") {
			if i := strings.Index(l, "("); i > 0 {
				l = l[:i]
			}
			if i := strings.LastIndex(l, "/"); i >= 0 {
				l = l[i+1:]
			}
			return l
		}
	}
	return "unknown"
}

func compare(s string, got endpoint.Endpoint, w expect, route string) {
	g := expect{got.Host, got.Proto, got.Bind, got.Port, got.Timeout, got.Istcp, got.Grid, got.Qos, got.Weight, got.WeightType, got.AuthType, got.Key}
	if route == "registry" {
		g.Bind, w.Bind = "", ""
	}
	if g != w {
		field := "?"
		switch {
		case g.Host != w.Host:
			field = "host"
		case g.Proto != w.Proto:
			field = "proto"
		case g.Istcp != w.Istcp:
			field = "istcp"
		case g.Port != w.Port:
			field = "port"
		case g.Timeout != w.Timeout:
			field = "timeout"
		case g.Grid != w.Grid:
			field = "grid"
		case g.Qos != w.Qos:
			field = "qos"
		case g.Weight != w.Weight:
			field = "weight"
		case g.WeightType != w.WeightType:
			field = "weightType"
		case g.AuthType != w.AuthType:
			field = "authType"
		case g.Bind != w.Bind:
			field = "bind"
		case g.Key != w.Key:
			field = "key"
		}
		run.Violation("field-mismatch", route+":"+field, fmt.Sprintf("input %q: got %+v want %+v", s, g, w),
			map[string]interface{}{"input": s, "got": g, "want": w, "route": route})
	}
}

var hosts = []string{"127.0.0.1", "10.219.139.142", "0.0.0.0", "255.255.255.255", "::1", "fe80::1%eth0", "2001:db8::8a2e:370:7334",
	"localhost", "tars-registry.example.com", "a", "host_name-1.x", "[::1]", "1", "tcp", "h"}

func drawModel(rng interface{ Intn(int) int }) model {
	m := model{Proto: []string{"tcp", "udp", "ssl"}[rng.Intn(3)]}
	ints := func(cands ...int) string { return fmt.Sprint(cands[rng.Intn(len(cands))]) }
	var o []opt
	if rng.Intn(20) != 0 {
		o = append(o, opt{"h", hosts[rng.Intn(len(hosts))]})
	}
	if rng.Intn(20) != 0 {
		o = append(o, opt{"p", ints(0, 1, 80, 10015, 19386, 65535, rng.Intn(65536))})
	}
	if rng.Intn(4) != 0 {
		o = append(o, opt{"t", ints(0, 1, 3000, 60000, -1, 2147483647, rng.Intn(100000))})
	}
	if rng.Intn(2) == 0 {
		o = append(o, opt{"g", ints(0, 1, 2, -1, rng.Intn(1000))})
	}
	if rng.Intn(2) == 0 {
		o = append(o, opt{"q", ints(0, 1, 46, rng.Intn(256))})
	}
	if rng.Intn(2) == 0 {
		o = append(o, opt{"w", ints(-1, 0, 1, 50, 99, 100, 101, 150, 1000, -2, rng.Intn(300)-50)})
	}
	if rng.Intn(2) == 0 {
		o = append(o, opt{"v", ints(0, 1, 2, -1)})
	}
	if rng.Intn(3) == 0 {
		o = append(o, opt{"e", ints(0, 1, 2)})
	}
	if rng.Intn(3) == 0 {
		o = append(o, opt{"b", hosts[rng.Intn(len(hosts))]})
	}
	m.Opts = o
	return m
}

func permutations(n int, limit int, rng interface{ Perm(int) []int }) [][]int {
	if n <= 5 {
		var out [][]int
		var rec func(cur []int, used int)
		rec = func(cur []int, used int) {
			if len(cur) == n {
				out = append(out, append([]int(nil), cur...))
				return
			}
			for i := 0; i < n; i++ {
				if used&(1<<uint(i)) == 0 {
					rec(append(cur, i), used|1<<uint(i))
				}
			}
		}
		rec(nil, 0)
		return out
	}
	out := [][]int{}
	id := make([]int, n)
	rev := make([]int, n)
	for i := range id {
		id[i] = i
		rev[i] = n - 1 - i
	}
	out = append(out, id, rev)
	for len(out) < limit {
		out = append(out, rng.Perm(n))
	}
	return out
}

func main() {
	appchild.MaybeChild()
	run = vlib.Start("C18")
	// the flag package prints a usage text to os.Stderr for every malformed option list
	if dn, err := os.OpenFile(os.DevNull, os.O_WRONLY, 0); err == nil {
		os.Stderr = dn
	}
	run.SetRule("endpoints drawn from a model (proto x hosts x ports x timeouts x every subset of the optional options with boundary weights), rendered in all option permutations (<=5 options; sampled beyond) x 96 spacing/flag-form styles (separators blank / blanks / tab / mixed, also in front of the protocol and at the end; -x v, --x v, -x=v); each distinct rendered string is a case. Registry route on every model endpoint. Address lists through the real ServantProxy constructor. Hostile: every string of length 0..4 over a 9-symbol alphabet plus seeded random strings, under recover().")
	run.Assume("flag syntax forms -x v, --x v, -x=v are all 'the textual form'; numeric values are rendered as plain decimals")
	rng := run.Rand("model")
	nModels := run.Pick(1500, 60000)

	// ---- positive: model -> string -> Parse ----
	for i := 0; i < nModels; i++ {
		m := drawModel(rng)
		perms := permutations(len(m.Opts), 12, rng)
		for pi, p := range perms {
			pm := model{Proto: m.Proto}
			for _, j := range p {
				pm.Opts = append(pm.Opts, m.Opts[j])
			}
			w := expected(pm)
			style := (i + pi) % 96
			if pi == 0 {
				style = 0
			}
			s := render(pm, style)
			got, pan, st := safeParse(s)
			run.Eval(1)
			run.Distinct(s)
			if pan != nil {
				run.Violation("panic", panicLocus(st), fmt.Sprintf("Parse(%q) panicked: %v", s, pan), map[string]interface{}{"input": s, "panic": fmt.Sprint(pan), "stack": st})
				continue
			}
			compare(s, got, w, "parse")
			if i < 3 && pi == 1 {
				run.Sample(map[string]interface{}{"input": s, "parsed_key": got.Key, "weight": got.Weight})
			}
			// ---- registry route ----
			if pi == 0 {
				f := endpointf.EndpointF{Host: w.Host, Port: w.Port, Timeout: w.Timeout, Istcp: w.Istcp, Grid: w.Grid, Qos: w.Qos,
					Weight: w.Weight, WeightType: w.WeightType, AuthType: w.AuthType, SetId: []string{"", "a.b.c", "sz.1.*"}[i%3]}
				e := endpoint.Tars2endpoint(f)
				run.Eval(1)
				compare(fmt.Sprintf("%+v", f), e, w, "registry")
				if e.SetId != f.SetId {
					run.Violation("field-mismatch", "registry:setId", fmt.Sprintf("%+v -> setId %q", f, e.SetId), f)
				}
				if e.Key != got.Key {
					run.Violation("key-mismatch", "parse-vs-registry", fmt.Sprintf("Parse(%q).Key=%q, Tars2endpoint(%+v).Key=%q", s, got.Key, f, e.Key),
						map[string]interface{}{"input": s, "registry": f})
				}
				back := endpoint.Endpoint2tars(e)
				if back.Host != f.Host || back.Port != f.Port || back.Timeout != f.Timeout || back.Istcp != f.Istcp || back.Grid != f.Grid || back.Qos != f.Qos ||
					back.Weight != f.Weight || back.WeightType != f.WeightType || back.AuthType != f.AuthType || back.SetId != f.SetId {
					run.Violation("field-mismatch", "registry:roundtrip", fmt.Sprintf("%+v -> %+v", f, back), map[string]interface{}{"in": f, "out": back})
				}
				// and from a parsed endpoint through the registry structure and back
				e2 := endpoint.Tars2endpoint(endpoint.Endpoint2tars(got))
				if e2.Key != got.Key || e2.Host != got.Host || e2.Port != got.Port || e2.Timeout != got.Timeout || e2.Istcp != got.Istcp || e2.Proto != got.Proto ||
					e2.Grid != got.Grid || e2.Qos != got.Qos || e2.Weight != got.Weight || e2.WeightType != got.WeightType || e2.AuthType != got.AuthType {
					run.Violation("field-mismatch", "parse-registry-roundtrip", fmt.Sprintf("%q: %+v -> %+v", s, got, e2), map[string]interface{}{"input": s})
				}
			}
		}
	}

	// ---- address lists through the real proxy constructor ----
	nLists := run.Pick(120, 1500)
	comm := tars.NewCommunicator()
	for i := 0; i < nLists; i++ {
		k := 1 + rng.Intn(4)
		var parts []string
		var wants []expect
		for j := 0; j < k; j++ {
			m := drawModel(rng)
			// ':' separates list entries, so IPv6 literals cannot appear in a list
			for oi := range m.Opts {
				if strings.Contains(m.Opts[oi].val, ":") {
					m.Opts[oi].val = "10.0.0." + fmt.Sprint(j+1)
				}
			}
			parts = append(parts, render(m, 0))
			wants = append(wants, expected(m))
		}
		list := strings.Join(parts, ":")
		trailing := i%3 == 2
		if trailing {
			list += ":" // trailing separator, as written in real configs
		}
		obj := fmt.Sprintf("Verif.C18.Obj%d@%s", i, list)
		func() {
			defer func() {
				if r := recover(); r != nil {
					st := string(debug.Stack())
					run.Violation("panic", "addresslist:"+panicLocus(st), fmt.Sprintf("proxy for %q panicked: %v", obj, r), map[string]interface{}{"servant": obj, "panic": fmt.Sprint(r), "stack": st})
				}
			}()
			run.Eval(1)
			run.Distinct(obj)
			sp := tars.NewServantProxy(comm, obj)
			eps := sp.Endpoints()
			keys := map[string]bool{}
			for _, e := range eps {
				keys[e.Key] = true
			}
			for j, w := range wants {
				if !keys[w.Key] {
					run.Violation("field-mismatch", "addresslist:key", fmt.Sprintf("%q: endpoint %d (%q) not among proxy endpoints %v", obj, j, w.Key, keys), map[string]interface{}{"servant": obj})
				}
			}
			if i < 2 {
				run.Sample(map[string]interface{}{"servant": obj, "endpoints": len(eps)})
			}
		}()
	}

	// ---- a second description of the same server for the same object: a later proxy built from a
	// string that differs from an earlier one only in the transport kind (tcp / ssl) or in the
	// options beyond host, port and timeout describes its own endpoint, field by field ----
	nTwice := run.Pick(80, 800)
	for i := 0; i < nTwice; i++ {
		m1 := drawModel(rng)
		for oi := range m1.Opts {
			if strings.Contains(m1.Opts[oi].val, ":") {
				m1.Opts[oi].val = "10.0.1." + fmt.Sprint(1+i%250)
			}
		}
		m2 := model{Proto: m1.Proto}
		if m1.Proto != "udp" && rng.Intn(2) == 0 {
			m2.Proto = map[string]string{"tcp": "ssl", "ssl": "tcp"}[m1.Proto]
		}
		for _, o := range m1.Opts {
			if o.flag == "h" || o.flag == "p" || o.flag == "t" {
				m2.Opts = append(m2.Opts, o)
			}
		}
		for _, o := range drawModel(rng).Opts {
			if o.flag != "h" && o.flag != "p" && o.flag != "t" && !strings.Contains(o.val, ":") {
				m2.Opts = append(m2.Opts, o)
			}
		}
		for n, m := range []model{m1, m2} {
			obj := fmt.Sprintf("Verif.C18.Twice%d@%s", i, render(m, 0))
			func() {
				defer func() {
					if r := recover(); r != nil {
						st := string(debug.Stack())
						run.Violation("panic", "addresslist:"+panicLocus(st), fmt.Sprintf("proxy for %q panicked: %v", obj, r), map[string]interface{}{"servant": obj, "panic": fmt.Sprint(r), "stack": st})
					}
				}()
				run.Eval(1)
				run.Distinct(obj)
				eps := tars.NewServantProxy(comm, obj).Endpoints()
				if len(eps) != 1 {
					run.Violation("field-mismatch", "addresslist-second-description:count", fmt.Sprintf("%q (description %d of this object): %d endpoints, the string describes 1", obj, n+1, len(eps)), map[string]interface{}{"servant": obj})
					return
				}
				compare(obj, *eps[0], expected(m), "addresslist-second-description")
				run.Add("second_descriptions_compared", 1)
			}()
		}
	}

	// ---- hostile strings ----
	alpha := []string{"t", "c", "p", " ", "-", "h", "\t", "1", "="}
	var gen func(prefix string, n int)
	hostile := 0
	tryHostile := func(s string) {
		hostile++
		run.Eval(1)
		run.Distinct(s)
		_, pan, st := safeParse(s)
		if pan != nil {
			run.Violation("panic", panicLocus(st), fmt.Sprintf("Parse(%q) panicked: %v", s, pan), map[string]interface{}{"input": s, "panic": fmt.Sprint(pan), "stack": st})
		}
	}
	gen = func(prefix string, n int) {
		tryHostile(prefix)
		if n == 0 {
			return
		}
		for _, a := range alpha {
			gen(prefix+a, n-1)
		}
	}
	gen("", 4)
	for _, s := range []string{"tcp", "udp", "ssl", "tcp ", "tcp -h", "tcp -p", "tcp -p x", "tcp -zz 1", "tcp -h a -p 99999999999999999999", "tcp\x00-h a", "tcp -h -p 1",
		"tcp -", "tcp --", "tcp -=", "tcp -h=", "tcp  -h  a  -p", "tcpx-h a", "ssl-h a -p 1", "\xff\xfe\xfd", "日本語", "tcp -help", "tcp -h a -p 1 trailing words -t 5"} {
		tryHostile(s)
	}
	hr := run.Rand("hostile")
	nh := run.Pick(50000, 2000000)
	pieces := []string{"tcp", "udp", "ssl", " ", "  ", "\t", "-h", "-p", "-t", "-g", "-q", "-w", "-v", "-e", "-b", "-x", "--", "-", "=", "127.0.0.1", "1", "-1", "abc", "99999999999", "\x00", "é", ":", "0x10", "1e3"}
	for i := 0; i < nh; i++ {
		var sb strings.Builder
		if hr.Intn(3) == 0 {
			n := hr.Intn(12)
			b := make([]byte, n)
			hr.Read(b)
			sb.Write(b)
		} else {
			for k := hr.Intn(8); k >= 0; k-- {
				sb.WriteString(pieces[hr.Intn(len(pieces))])
			}
		}
		tryHostile(sb.String())
	}
	run.Set("hostile_strings", hostile)
	run.Sample(map[string]interface{}{"hostile": []string{"", "   ", "tc", "tcp -h"}})
	managerRoute(rng)
	appBindScenario()
	run.Finish()
}

func sleepMs(n int) { time.Sleep(time.Duration(n) * time.Millisecond) }
