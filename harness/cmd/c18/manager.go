package main

import (
	"context"
	"fmt"
	"github.com/TarsCloud/TarsGo/tars/protocol/res/requestf"
	"github.com/TarsCloud/TarsGo/tars/util/rogger"
	"sort"
	"sync"
	"time"

	"github.com/TarsCloud/TarsGo/tars"
	"github.com/TarsCloud/TarsGo/tars/registry"
	"github.com/TarsCloud/TarsGo/tars/util/endpoint"
)

// Registry route through the real endpoint manager: what the registrar describes is what the
// proxy holds — every field of every endpoint, under the key its direct-string form would have —
// after the first resolution and after every later answer, also when only fields that are not
// part of the routing identity (timeout, grid, qos, auth type) change; and the adapters the
// manager creates stay filed under those keys (hosts that need bracketing for dialing included).

type c18reg struct {
	mu     sync.Mutex
	active []registry.Endpoint
}

func (f *c18reg) Registry(ctx context.Context, s *registry.ServantInstance) error   { return nil }
func (f *c18reg) Deregister(ctx context.Context, s *registry.ServantInstance) error { return nil }
func (f *c18reg) QueryServant(ctx context.Context, id string) ([]registry.Endpoint, []registry.Endpoint, error) {
	f.mu.Lock()
	defer f.mu.Unlock()
	return append([]registry.Endpoint(nil), f.active...), nil, nil
}
func (f *c18reg) QueryServantBySet(ctx context.Context, id, set string) ([]registry.Endpoint, []registry.Endpoint, error) {
	return f.QueryServant(ctx, id)
}

func keyOf(f registry.Endpoint) string {
	proto := "tcp"
	if f.Istcp == 0 {
		proto = "udp"
	}
	return fmt.Sprintf("%s -h %s -p %d -t %d", proto, f.Host, f.Port, f.Timeout)
}

func managerRoute(rng interface{ Intn(int) int }) {
	rogger.SetLevel(rogger.OFF)
	app := tars.VerifNewApp()
	app.ClientConfig().ClientDialTimeout = 20 * time.Millisecond
	rounds := run.Pick(40, 600)
	for round := 0; round < rounds; round++ {
		n := 1 + rng.Intn(4)
		var eps []registry.Endpoint
		for i := 0; i < n; i++ {
			host := fmt.Sprintf("10.%d.%d.%d", round%250, i, 1+rng.Intn(250))
			if rng.Intn(6) == 0 || (round%4 == 0 && i == 0) {
				host = fmt.Sprintf("fd00::%x:%x", round%4096, i+1) // reaches the manager through the registry only
			}
			eps = append(eps, registry.Endpoint{Host: host, Port: int32(1024 + rng.Intn(60000)), Timeout: int32([]int{3000, 1, 60000, 250}[rng.Intn(4)]), Istcp: int32([]int{1, 1, 2, 0}[rng.Intn(4)]),
				Grid: int32(rng.Intn(3)), Qos: int32(rng.Intn(3)), Weight: int32(rng.Intn(101)), WeightType: int32(rng.Intn(2)), AuthType: int32(rng.Intn(2))})
		}
		reg := &c18reg{active: eps}
		comm := app.NewCommunicator(tars.Registrar(reg))
		sp := tars.NewServantProxy(comm, fmt.Sprintf("Verif.C18.Reg%d", round))
		check := func(step string, want []registry.Endpoint, activeToo bool) bool {
			run.Eval(1)
			var wk []string
			for _, f := range want {
				wk = append(wk, keyOf(f))
			}
			sort.Strings(wk)
			got := append([]string(nil), sp.VerifActiveEndpoints()...)
			sort.Strings(got)
			if activeToo && fmt.Sprint(got) != fmt.Sprint(wk) {
				run.Violation("key-mismatch", "manager:"+step, fmt.Sprintf("after %s the proxy's active endpoints are %v, the registrar describes %v", step, got, wk), map[string]interface{}{"registry_answer": want, "step": step})
				return false
			}
			// adapters are created when an endpoint is first selected: every adapter that exists must
			// describe one of the registrar's endpoints, under that endpoint's key
			wantKey := map[string]bool{}
			for _, k := range wk {
				wantKey[k] = true
			}
			for _, a := range sp.VerifAdapters() {
				if !wantKey[a.Key] {
					run.Violation("key-mismatch", "manager:adapter", fmt.Sprintf("after %s an adapter describes its endpoint as %q, the registrar's endpoints are %v", step, a.Key, wk), map[string]interface{}{"registry_answer": want, "step": step})
					return false
				}
			}
			// field preservation: what the proxy reports for each endpoint is what the registrar said
			for _, e := range sp.Endpoints() {
				for _, f := range want {
					if e.Key == keyOf(f) {
						b := endpoint.Endpoint2tars(*e)
						if b.Host != f.Host || b.Port != f.Port || b.Timeout != f.Timeout || b.Istcp != f.Istcp || b.Grid != f.Grid || b.Qos != f.Qos || b.Weight != f.Weight || b.WeightType != f.WeightType || b.AuthType != f.AuthType {
							run.Violation("field-mismatch", "manager:"+step, fmt.Sprintf("after %s the proxy holds %+v for the endpoint the registrar describes as %+v", step, b, f), map[string]interface{}{"step": step})
							return false
						}
					}
				}
			}
			return true
		}
		if !check("the first resolution", eps, true) {
			continue
		}
		if round%4 == 0 {
			// a few calls (they fail: nobody listens there) make the manager create adapters
			for k := 0; k < 2*n; k++ {
				ctx, cancel := context.WithTimeout(context.Background(), 30*time.Millisecond)
				_ = sp.TarsInvoke(ctx, 0, "f", nil, nil, nil, &requestf.ResponsePacket{})
				cancel()
			}
			run.Add("manager_rounds_with_adapters", 1)
			// failing endpoints may legitimately leave the active list: adapters only
			if !check("the first calls", eps, false) {
				continue
			}
		}
		// a later answer that changes only non-identity fields of one endpoint
		eps2 := append([]registry.Endpoint(nil), eps...)
		j := rng.Intn(n)
		what := []string{"timeout", "grid", "qos", "auth type"}[round%4]
		switch what {
		case "timeout":
			eps2[j].Timeout += 1000
		case "grid":
			eps2[j].Grid += 5
		case "qos":
			eps2[j].Qos += 5
		default:
			eps2[j].AuthType = 1 - eps2[j].AuthType
		}
		reg.mu.Lock()
		reg.active = eps2
		reg.mu.Unlock()
		if err := sp.VerifRefresh(); err != nil {
			run.Inconclusive("c18 manager route: refresh failed: " + err.Error())
			continue
		}
		if !check("a refresh that changed only the "+what+" of one endpoint", eps2, round%4 != 0) {
			continue
		}
		run.Distinct(fmt.Sprintf("manager|n%d|%s|%v", n, what, keyOf(eps2[j])))
	}
}
