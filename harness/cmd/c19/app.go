package main

import (
	"fmt"
	"strings"
	"sync"
	"time"

	"verif/appchild"
)

// appPoolScenario: "at most the configured number of jobs run at the same time", with the number
// configured the way deployed servers configure it: maxroutine=N in the server configuration file.
// Eight clients send one 400 ms request each to the real application; the child prints a line when
// a handler starts and when it ends, so the order of those lines gives the number running at once.
func appPoolScenario(n int) {
	a, err := appchild.Start(appchild.Config{MaxRoutine: n})
	if err != nil {
		if a != nil {
			a.Kill()
		}
		run.Inconclusive("application child: " + err.Error())
		return
	}
	defer a.Kill()
	const clients = 8
	var wg sync.WaitGroup
	answered := make([]bool, clients)
	for i := 0; i < clients; i++ {
		wg.Add(1)
		go func(i int) {
			defer wg.Done()
			rsp, err := a.Call(a.TCPAddr, "tcp", a.TCPObj, "sleep", int32(100+i), []byte("400"), 15*time.Second)
			answered[i] = err == nil && rsp.RequestID == int32(100+i)
		}(i)
	}
	wg.Wait()
	running, high, execs := 0, 0, 0
	for _, l := range a.Lines() {
		switch {
		case strings.HasPrefix(l, "EXEC ") && strings.HasSuffix(l, " sleep"):
			running++
			execs++
			if running > high {
				high = running
			}
		case strings.HasPrefix(l, "DONE "):
			if running > 0 {
				running--
			}
		}
	}
	run.Eval(1)
	run.Max("max_parallelism_seen_application", int64(high))
	st, _ := a.Line("STATE ")
	wit := map[string]interface{}{"scenario": "application-configured-pool", "maxroutine_in_config_file": n, "clients": clients, "handlers_running_at_once": high, "handlers_started": execs, "application_state": st}
	for i, ok := range answered {
		if !ok {
			run.Violation("job-lost", "application-configured-pool", fmt.Sprintf("request %d of %d sent to the application (maxroutine=%d) was not answered", i, clients, n), wit)
			return
		}
	}
	if execs != clients {
		run.Violation("job-executed-not-once", "application-configured-pool", fmt.Sprintf("%d requests, %d handler starts", clients, execs), wit)
		return
	}
	if high > n {
		run.Violation("parallelism-exceeded", "application-configured-pool", fmt.Sprintf("the application is configured with maxroutine=%d; %d handlers were running at the same time", n, high), wit)
		return
	}
	run.Distinct(fmt.Sprintf("app-pool|%d|hw%d", n, high))
}
