// C19 — worker pool runs every job exactly once with bounded parallelism.
//
// Monitor: jobs on the real gpool.Pool stamp their start and end on a process-wide logical clock
// and maintain a running gauge; gates (channels opened by the monitor) stand for job duration.
// Oracles: per-job execution counter, gauge <= workers at every start stamp, stamp order of
// Release vs. running jobs, nothing starting after Release returned, blocking steps guarded by a
// generous watchdog.  Built with -race; race reports whose accessing frames lie in gpool are
// violations.
package main

import (
	"context"
	"encoding/binary"
	"fmt"
	"net"
	"runtime"
	"sync"
	"sync/atomic"
	"time"
	"verif/appchild"

	"github.com/TarsCloud/TarsGo/tars/protocol"
	"github.com/TarsCloud/TarsGo/tars/util/gpool"
	"github.com/TarsCloud/TarsGo/tars/util/rogger"

	"verif/netlab"
	"verif/vlib"
)

var run *vlib.Run
var clock atomic.Int64

func tick() int64 { return clock.Add(1) }

const watchdog = 30 * time.Second

type job struct {
	id     int
	count  atomic.Int32
	start  atomic.Int64
	end    atomic.Int64
	gate   chan struct{} // nil: no gate
	submit atomic.Int64  // stamp when submit returned
}

type world struct {
	workers, queue int
	pool           *gpool.Pool
	running        atomic.Int32
	highWater      atomic.Int32
	overLimit      atomic.Int32
	jobs           []*job
	spin           int
}

func (w *world) body(j *job) gpool.Job {
	return func() {
		r := w.running.Add(1)
		for {
			h := w.highWater.Load()
			if r <= h || w.highWater.CompareAndSwap(h, r) {
				break
			}
		}
		if int(r) > w.workers {
			w.overLimit.Add(1)
		}
		j.count.Add(1)
		j.start.CompareAndSwap(0, tick())
		if j.gate != nil {
			<-j.gate
		} else {
			for i := 0; i < w.spin; i++ {
				runtime.Gosched()
			}
		}
		j.end.Store(tick())
		w.running.Add(-1)
	}
}

type cfg struct{ Workers, Queue, Submitters int }

func (c cfg) String() string {
	return fmt.Sprintf("workers=%d queue=%d submitters=%d", c.Workers, c.Queue, c.Submitters)
}

// waitUntil polls cond with a watchdog; returns false when the watchdog fires.
func waitUntil(cond func() bool, d time.Duration) bool {
	deadline := time.Now().Add(d)
	for i := 0; !cond(); i++ {
		if time.Now().After(deadline) {
			return false
		}
		if i < 200 {
			runtime.Gosched()
		} else {
			time.Sleep(200 * time.Microsecond)
		}
	}
	return true
}

func releaseWithWatchdog(p *gpool.Pool) (returned bool, callStamp, retStamp int64) {
	done := make(chan int64, 1)
	callStamp = tick()
	go func() {
		p.Release()
		done <- tick()
	}()
	select {
	case retStamp = <-done:
		return true, callStamp, retStamp
	case <-time.After(watchdog):
		return false, callStamp, 0
	}
}

func goroutineBaseline() int {
	runtime.GC()
	return runtime.NumGoroutine()
}

// scenario A: throughput with S submitters, then release of the idle pool.
func scenarioThroughput(c cfg, njobs int, spin int, trial int) {
	base := goroutineBaseline()
	w := &world{workers: c.Workers, queue: c.Queue, spin: spin}
	w.pool = gpool.NewPool(c.Workers, c.Queue)
	w.jobs = make([]*job, njobs)
	for i := range w.jobs {
		w.jobs[i] = &job{id: i}
	}
	var wg sync.WaitGroup
	per := (njobs + c.Submitters - 1) / c.Submitters
	submitted := make(chan struct{})
	go func() {
		for s := 0; s < c.Submitters; s++ {
			wg.Add(1)
			go func(s int) {
				defer wg.Done()
				for i := s * per; i < (s+1)*per && i < njobs; i++ {
					w.pool.JobQueue <- w.body(w.jobs[i])
					w.jobs[i].submit.Store(tick())
				}
			}(s)
		}
		wg.Wait()
		close(submitted)
	}()
	wit := map[string]interface{}{"scenario": "throughput", "config": c.String(), "jobs": njobs, "spin": spin, "trial": trial}
	select {
	case <-submitted:
	case <-time.After(watchdog):
		run.Violation("submit-blocked", "throughput", "submitters did not finish within the watchdog although workers are free to drain the queue", wit)
		return
	}
	ok := waitUntil(func() bool {
		for _, j := range w.jobs {
			if j.end.Load() == 0 {
				return false
			}
		}
		return true
	}, watchdog)
	if !ok {
		missing := 0
		for _, j := range w.jobs {
			if j.count.Load() == 0 {
				missing++
			}
		}
		wit["never_executed"] = missing
		run.Violation("job-lost", "throughput", fmt.Sprintf("%d of %d submitted jobs never executed on an unreleased pool (%s)", missing, njobs, c), wit)
		return
	}
	for _, j := range w.jobs {
		if n := j.count.Load(); n != 1 {
			wit["job"] = j.id
			wit["executions"] = n
			run.Violation("job-executed-not-once", "throughput", fmt.Sprintf("job %d executed %d times (%s)", j.id, n, c), wit)
			break
		}
	}
	checkGauge(w, c, wit)
	ret, _, _ := releaseWithWatchdog(w.pool)
	if !ret {
		run.Violation("release-hangs", "idle-pool", fmt.Sprintf("Release of an idle pool did not return within %v (%s)", watchdog, c), wit)
		return
	}
	checkLeak(base, c, wit)
	run.Eval(1)
	run.Add("jobs_observed", int64(njobs))
	run.Distinct(fmt.Sprintf("A|%s|%d|%d|hw%d", c, njobs, spin, w.highWater.Load()))
}

func checkGauge(w *world, c cfg, wit map[string]interface{}) {
	if w.overLimit.Load() > 0 {
		wit["high_water"] = w.highWater.Load()
		run.Violation("parallelism-exceeded", "gauge", fmt.Sprintf("%d jobs were running at once on a pool of %d workers", w.highWater.Load(), c.Workers), wit)
	}
	run.Max("max_parallelism_seen", int64(w.highWater.Load()))
}

var leakFailures int

func checkLeak(base int, c cfg, wit map[string]interface{}) {
	d := 5 * time.Second
	if leakFailures > 0 {
		d = 200 * time.Millisecond // already reported once: do not spend the budget waiting again
	}
	ok := waitUntil(func() bool { return runtime.NumGoroutine() <= base }, d)
	if !ok {
		leakFailures++
		wit["goroutines_before"] = base
		wit["goroutines_after"] = runtime.NumGoroutine()
		run.Violation("workers-not-stopped", "release", fmt.Sprintf("goroutines before pool creation %d, after Release %d: Release did not stop all workers (%s)", base, runtime.NumGoroutine(), c), wit)
	}
}

// scenario B: capacity.  All workers gated; workers + 1 (dispatcher) + queue submissions must
// complete without any gate opening; at most `workers` of them may be running.
func scenarioCapacity(c cfg, trial int) {
	base := goroutineBaseline()
	w := &world{workers: c.Workers, queue: c.Queue}
	w.pool = gpool.NewPool(c.Workers, c.Queue)
	n := c.Workers + 1 + c.Queue
	w.jobs = make([]*job, n)
	for i := range w.jobs {
		w.jobs[i] = &job{id: i, gate: make(chan struct{})}
	}
	wit := map[string]interface{}{"scenario": "capacity", "config": c.String(), "submissions": n, "trial": trial}
	done := make(chan struct{})
	go func() {
		for _, j := range w.jobs {
			w.pool.JobQueue <- w.body(j)
			j.submit.Store(tick())
		}
		close(done)
	}()
	select {
	case <-done:
	case <-time.After(watchdog):
		sub := 0
		for _, j := range w.jobs {
			if j.submit.Load() != 0 {
				sub++
			}
		}
		wit["submitted"] = sub
		run.Violation("submit-blocked", "queue-has-room", fmt.Sprintf("submission %d of %d (workers + dispatcher slot + queue capacity) blocked although the queue was not full (%s)", sub+1, n, c), wit)
		for _, j := range w.jobs {
			close(j.gate)
		}
		return
	}
	// all workers must become busy, and never more than workers
	waitUntil(func() bool { return int(w.running.Load()) >= c.Workers }, 5*time.Second)
	// give an over-provisioned pool the chance to show itself: poll briefly for a further start
	waitUntil(func() bool { return int(w.running.Load()) > c.Workers }, 20*time.Millisecond)
	checkGauge(w, c, wit)
	if int(w.running.Load()) < c.Workers {
		run.Inconclusive("capacity: not all workers started within 5s " + c.String())
	}
	// open the gates one by one; every job must run exactly once
	for _, j := range w.jobs {
		close(j.gate)
	}
	ok := waitUntil(func() bool {
		for _, j := range w.jobs {
			if j.end.Load() == 0 {
				return false
			}
		}
		return true
	}, watchdog)
	if !ok {
		run.Violation("job-lost", "capacity", "a submitted job never executed on an unreleased pool ("+c.String()+")", wit)
		return
	}
	for _, j := range w.jobs {
		if k := j.count.Load(); k != 1 {
			wit["job"] = j.id
			run.Violation("job-executed-not-once", "capacity", fmt.Sprintf("job %d executed %d times", j.id, k), wit)
			break
		}
	}
	checkGauge(w, c, wit)
	if ret, _, _ := releaseWithWatchdog(w.pool); !ret {
		run.Violation("release-hangs", "idle-pool", "Release of an idle pool did not return ("+c.String()+")", wit)
		return
	}
	checkLeak(base, c, wit)
	run.Eval(1)
	run.Add("jobs_observed", int64(n))
	run.Distinct(fmt.Sprintf("B|%s|hw%d", c, w.highWater.Load()))
}

// scenario C: release with running (gated) jobs and a backlog.  backlog: 0 = only running jobs,
// 1 = one more (held by the dispatcher), 2 = dispatcher + queued.
func scenarioRelease(c cfg, backlog int, trial int) {
	base := goroutineBaseline()
	w := &world{workers: c.Workers, queue: c.Queue}
	w.pool = gpool.NewPool(c.Workers, c.Queue)
	nrun := c.Workers
	extra := 0
	if backlog >= 1 {
		extra = 1
	}
	if backlog >= 2 {
		extra += min(c.Queue, 4)
	}
	n := nrun + extra
	w.jobs = make([]*job, n)
	for i := range w.jobs {
		w.jobs[i] = &job{id: i, gate: make(chan struct{})}
	}
	wit := map[string]interface{}{"scenario": "release-with-running-jobs", "config": c.String(), "running": nrun, "backlog": extra, "trial": trial}
	for _, j := range w.jobs {
		w.pool.JobQueue <- w.body(j)
		j.submit.Store(tick())
	}
	if !waitUntil(func() bool { return int(w.running.Load()) >= nrun }, 5*time.Second) {
		run.Inconclusive("release: workers did not all start " + c.String())
		for _, j := range w.jobs {
			close(j.gate)
		}
		return
	}
	if backlog >= 1 {
		// let the dispatcher pull the next job off the queue (it then waits for a free worker)
		waitUntil(func() bool { return len(w.pool.JobQueue) <= extra-1 }, 100*time.Millisecond)
	}
	done := make(chan int64, 1)
	callStamp := tick()
	go func() {
		w.pool.Release()
		done <- tick()
	}()
	// Release must not return while gated jobs are running: give it a moment to (wrongly) do so
	var early int64
	select {
	case early = <-done:
	case <-time.After(time.Duration(2+trial%3) * time.Millisecond):
	}
	openStamp := tick()
	for _, j := range w.jobs {
		close(j.gate)
	}
	var retStamp int64
	if early != 0 {
		retStamp = early
	} else {
		select {
		case retStamp = <-done:
		case <-time.After(watchdog):
			run.Violation("release-hangs", "running-jobs", "Release did not return within the watchdog after all running jobs finished ("+c.String()+")", wit)
			return
		}
	}
	wit["release_call_stamp"], wit["gates_open_stamp"], wit["release_return_stamp"] = callStamp, openStamp, retStamp
	// jobs that were running when Release was called must have ended before it returned
	for _, j := range w.jobs[:nrun] {
		e := j.end.Load()
		if e == 0 || e > retStamp {
			wit["job"] = j.id
			wit["job_end_stamp"] = e
			run.Violation("release-returned-early", fmt.Sprintf("backlog%d", min(backlog, 1)), fmt.Sprintf("Release returned (stamp %d) while job %d that was running when it was called had not finished (end stamp %d) (%s)", retStamp, j.id, e, c), wit)
			break
		}
	}
	// nothing may start after Release returned: observe for a settle period
	time.Sleep(3 * time.Millisecond)
	waitUntil(func() bool { return w.running.Load() == 0 }, 2*time.Second)
	for _, j := range w.jobs {
		if s := j.start.Load(); s > retStamp {
			wit["job"] = j.id
			wit["job_start_stamp"] = s
			run.Violation("job-started-after-release", fmt.Sprintf("backlog%d", min(backlog, 1)), fmt.Sprintf("job %d started (stamp %d) after Release had returned (stamp %d) (%s)", j.id, s, retStamp, c), wit)
			break
		}
		if k := j.count.Load(); k > 1 {
			run.Violation("job-executed-not-once", "release", fmt.Sprintf("job %d executed %d times", j.id, k), wit)
			break
		}
	}
	checkGauge(w, c, wit)
	checkLeak(base, c, wit)
	run.Eval(1)
	run.Add("jobs_observed", int64(n))
	executed := 0
	for _, j := range w.jobs {
		if j.count.Load() > 0 {
			executed++
		}
	}
	run.Distinct(fmt.Sprintf("C|%s|b%d|exec%d", c, backlog, executed))
}

// scenario D: submitters racing with Release.
func scenarioRacingRelease(c cfg, trial int) {
	base := goroutineBaseline()
	w := &world{workers: c.Workers, queue: c.Queue, spin: trial % 4}
	w.pool = gpool.NewPool(c.Workers, c.Queue)
	const per = 200
	w.jobs = make([]*job, per*c.Submitters)
	for i := range w.jobs {
		w.jobs[i] = &job{id: i}
	}
	quit := make(chan struct{})
	var wg sync.WaitGroup
	var submittedN atomic.Int64
	for s := 0; s < c.Submitters; s++ {
		wg.Add(1)
		go func(s int) {
			defer wg.Done()
			for i := s * per; i < (s+1)*per; i++ {
				select {
				case w.pool.JobQueue <- w.body(w.jobs[i]):
					w.jobs[i].submit.Store(tick())
					submittedN.Add(1)
				case <-quit:
					return
				}
			}
		}(s)
	}
	waitUntil(func() bool { return submittedN.Load() > int64(20+trial%50) }, time.Second)
	wit := map[string]interface{}{"scenario": "release-racing-with-submitters", "config": c.String(), "trial": trial}
	ret, _, retStamp := releaseWithWatchdog(w.pool)
	close(quit)
	wg.Wait()
	if !ret {
		run.Violation("release-hangs", "racing-submitters", "Release did not return within the watchdog although every job is finite ("+c.String()+")", wit)
		return
	}
	time.Sleep(2 * time.Millisecond)
	waitUntil(func() bool { return w.running.Load() == 0 }, 2*time.Second)
	for _, j := range w.jobs {
		s, e := j.start.Load(), j.end.Load()
		if s > retStamp {
			wit["job"], wit["job_start_stamp"], wit["release_return_stamp"] = j.id, s, retStamp
			run.Violation("job-started-after-release", "racing-submitters", fmt.Sprintf("job %d started at stamp %d, Release returned at %d (%s)", j.id, s, retStamp, c), wit)
			break
		}
		if s != 0 && (e == 0 || e > retStamp) {
			wit["job"], wit["job_end_stamp"], wit["release_return_stamp"] = j.id, e, retStamp
			run.Violation("release-returned-early", "racing-submitters", fmt.Sprintf("job %d was running when Release returned (%s)", j.id, c), wit)
			break
		}
		if k := j.count.Load(); k > 1 {
			run.Violation("job-executed-not-once", "release", fmt.Sprintf("job %d executed %d times", j.id, k), wit)
			break
		}
	}
	checkGauge(w, c, wit)
	checkLeak(base, c, wit)
	run.Eval(1)
	run.Distinct(fmt.Sprintf("D|%s|sub%d", c, submittedN.Load()/16))
}

// ---------- scenario E: the pool as the transport handlers use it ----------

type gateProto struct {
	mu    sync.Mutex
	count map[uint32]int
	gate  chan struct{}
}

func (p *gateProto) ParsePackage(b []byte) (int, int) { return protocol.TarsRequest(b) }
func (p *gateProto) Invoke(ctx context.Context, pkg []byte) []byte {
	id := binary.BigEndian.Uint32(pkg[4:])
	p.mu.Lock()
	p.count[id]++
	p.mu.Unlock()
	<-p.gate
	return netlab.Frame(pkg[4:8])
}
func (p *gateProto) InvokeTimeout(pkg []byte) []byte { return netlab.Frame([]byte("T")) }
func (p *gateProto) GetCloseMsg() []byte             { return netlab.Frame([]byte("C")) }
func (p *gateProto) DoClose(ctx context.Context)     {}

// scenarioTransport: a real TarsServer with MaxInvoke workers and a tiny queue receives a burst of
// n requests while every handler is gated: the receive loop is the submitter and may only block,
// never drop; after the gates open every request must have been handled exactly once.
func scenarioTransport(proto string, workers, queue, n, trial int) {
	p := &gateProto{count: map[uint32]int{}, gate: make(chan struct{})}
	conf := netlab.DefaultServerConf(proto)
	conf.MaxInvoke = int32(workers)
	conf.QueueCap = queue
	if _, err := netlab.StartServer(p, conf); err != nil {
		run.Inconclusive("transport scenario: cannot start server")
		return
	}
	c, err := net.DialTimeout(proto, conf.Address, 3*time.Second)
	if err != nil {
		run.Inconclusive("transport scenario: dial failed")
		return
	}
	defer c.Close()
	for i := 0; i < n; i++ {
		b := make([]byte, 4)
		binary.BigEndian.PutUint32(b, uint32(i))
		if _, err := c.Write(netlab.Frame(b)); err != nil {
			break
		}
		if proto == "udp" {
			time.Sleep(300 * time.Microsecond)
		}
	}
	// all workers busy, queue full, the receive loop blocked on the submit: now let everything run
	time.Sleep(time.Duration(20+trial%20) * time.Millisecond)
	// every invocation that has started is still waiting at the gate: their number is the
	// parallelism the pool allowed
	p.mu.Lock()
	entered := 0
	for _, k := range p.count {
		entered += k
	}
	p.mu.Unlock()
	run.Max("max_parallelism_seen_transport", int64(entered))
	if entered > workers {
		run.Violation("parallelism-exceeded", "transport-"+proto, fmt.Sprintf("%s server (MaxInvoke=%d, QueueCap=%d): %d handlers were running at the same time during a burst of %d requests", proto, workers, queue, entered, n),
			map[string]interface{}{"scenario": "transport-burst", "proto": proto, "workers": workers, "queue": queue, "requests": n, "running_at_once": entered})
		close(p.gate)
		return
	}
	close(p.gate)
	ok := waitUntil(func() bool {
		p.mu.Lock()
		defer p.mu.Unlock()
		return len(p.count) >= n
	}, 5*time.Second)
	p.mu.Lock()
	defer p.mu.Unlock()
	wit := map[string]interface{}{"scenario": "transport-burst", "proto": proto, "workers": workers, "queue": queue, "requests": n, "handled": len(p.count)}
	if !ok {
		var missing []int
		for i := 0; i < n; i++ {
			if p.count[uint32(i)] == 0 {
				missing = append(missing, i)
			}
		}
		wit["never_handled"] = missing
		run.Violation("job-lost", "transport-"+proto, fmt.Sprintf("%s server (MaxInvoke=%d, QueueCap=%d): %d of %d requests received in a burst were never handled (first missing: %v): the receive loop dropped jobs instead of blocking on the full queue", proto, workers, queue, n-len(p.count), n, missing[:min(len(missing), 5)]), wit)
		return
	}
	for id, k := range p.count {
		if k != 1 {
			run.Violation("job-executed-not-once", "transport-"+proto, fmt.Sprintf("request %d handled %d times", id, k), wit)
			return
		}
	}
	run.Eval(1)
	run.Add("jobs_observed", int64(n))
	run.Distinct(fmt.Sprintf("E|%s|w%d|q%d|n%d", proto, workers, queue, n))
}

// scenarioFirstRequests: the very first requests a server sees arrive at the same moment on many
// connections (all connections are open and idle before; the writers leave a barrier together).
// Whatever the handler does to get at its pool the first time, the bound is the configured one:
// with every invocation gated, at most MaxInvoke are inside Invoke; afterwards each request has
// been handled exactly once.
func scenarioFirstRequests(workers, queue, conns, perConn, trial int) {
	p := &gateProto{count: map[uint32]int{}, gate: make(chan struct{})}
	conf := netlab.DefaultServerConf("tcp")
	conf.MaxInvoke = int32(workers)
	conf.QueueCap = queue
	if _, err := netlab.StartServer(p, conf); err != nil {
		run.Inconclusive("first-requests scenario: cannot start server")
		return
	}
	cs := make([]net.Conn, 0, conns)
	defer func() {
		for _, c := range cs {
			c.Close()
		}
	}()
	for i := 0; i < conns; i++ {
		c, err := net.DialTimeout("tcp", conf.Address, 3*time.Second)
		if err != nil {
			run.Inconclusive("first-requests scenario: dial failed")
			return
		}
		cs = append(cs, c)
	}
	time.Sleep(10 * time.Millisecond) // every connection accepted, every receive loop waiting
	n := conns * perConn
	start := make(chan struct{})
	var wg sync.WaitGroup
	for ci, c := range cs {
		wg.Add(1)
		go func(ci int, c net.Conn) {
			defer wg.Done()
			frames := []byte{}
			for k := 0; k < perConn; k++ {
				b := make([]byte, 4)
				binary.BigEndian.PutUint32(b, uint32(ci*perConn+k))
				frames = append(frames, netlab.Frame(b)...)
			}
			<-start
			c.Write(frames)
		}(ci, c)
	}
	close(start)
	wg.Wait()
	time.Sleep(time.Duration(20+trial%20) * time.Millisecond)
	p.mu.Lock()
	entered := 0
	for _, k := range p.count {
		entered += k
	}
	p.mu.Unlock()
	run.Max("max_parallelism_seen_first_requests", int64(entered))
	wit := map[string]interface{}{"scenario": "first-requests", "workers": workers, "queue": queue, "connections": conns, "requests": n, "running_at_once": entered}
	if entered > workers {
		run.Violation("parallelism-exceeded", "transport-first-requests", fmt.Sprintf("tcp server (MaxInvoke=%d, QueueCap=%d): %d handlers were running at the same time when the first requests of %d connections arrived together", workers, queue, entered, conns), wit)
		close(p.gate)
		return
	}
	close(p.gate)
	ok := waitUntil(func() bool {
		p.mu.Lock()
		defer p.mu.Unlock()
		return len(p.count) >= n
	}, 5*time.Second)
	p.mu.Lock()
	defer p.mu.Unlock()
	wit["handled"] = len(p.count)
	if !ok {
		run.Violation("job-lost", "transport-first-requests", fmt.Sprintf("tcp server (MaxInvoke=%d, QueueCap=%d): %d of %d first requests of %d connections were never handled", workers, queue, n-len(p.count), n, conns), wit)
		return
	}
	for id, k := range p.count {
		if k != 1 {
			run.Violation("job-executed-not-once", "transport-first-requests", fmt.Sprintf("request %d handled %d times", id, k), wit)
			return
		}
	}
	run.Eval(1)
	run.Add("jobs_observed", int64(n))
	run.Distinct(fmt.Sprintf("F|w%d|q%d|c%d|k%d", workers, queue, conns, perConn))
}

func main() {
	appchild.MaybeChild()
	run = vlib.Start("C19")
	rogger.SetLevel(rogger.OFF)
	run.SetRule("configurations workers{1,2,8,64} x queue{0,1,16,1024} x submitters{1,8,64}; scenarios: A throughput (every job once, gauge<=workers, idle Release returns, no goroutine left), B capacity (workers+1+queue gated submissions complete without a gate opening), C Release with gated running jobs and 0/1/many backlog (stamp order), D Release racing with submitters, E bursts of requests into real TCP/UDP servers whose pool (MaxInvoke 1..4, QueueCap 0..2) is saturated by gated handlers (the receive loop is the submitter: block, never drop; at most MaxInvoke handlers at the gate), F the first requests of a fresh TCP server arriving together on 16..48 idle connections (same bound, each handled once). A case is (scenario, configuration, observed high-water mark / executed count); distinct by that key.")
	run.Assume("jobs still queued when Release is called may be dropped (the property speaks about an unreleased pool)")
	run.Assume("goroutine accounting: Release 'stops all workers' is observed as runtime.NumGoroutine returning to its value before NewPool (polled up to 5 s)")
	reps := run.Pick(1, 12)
	njobs := run.Pick(2000, 40000)
	trial := 0
	t0 := time.Now()
	for rep := 0; rep < reps; rep++ {
		for _, wk := range []int{1, 2, 8, 64} {
			for _, q := range []int{0, 1, 16, 1024} {
				for _, s := range []int{1, 8, 64} {
					c := cfg{wk, q, s}
					trial++
					if run.NumViolations() > 0 && time.Since(t0) > 90*time.Second {
						continue // violations are already in hand; do not sit through every watchdog again
					}
					scenarioThroughput(c, njobs, trial%3, trial)
					if s == 1 {
						scenarioCapacity(c, trial)
						for b := 0; b <= 2; b++ {
							for k := 0; k < run.Pick(3, 10); k++ {
								trial++
								scenarioRelease(c, b, trial)
							}
						}
					}
					if s > 1 {
						for k := 0; k < run.Pick(2, 10); k++ {
							trial++
							scenarioRacingRelease(c, trial)
						}
					}
				}
			}
		}
	}
	// Release right after NewPool: the workers are still starting up when they are told to stop;
	// all of them must be gone afterwards
	for _, wk := range []int{1, 2, 8, 64} {
		trial++
		c := cfg{wk, 16, 1}
		base := goroutineBaseline()
		stuck := false
		for k := 0; k < run.Pick(150, 1500); k++ {
			p := gpool.NewPool(wk, 16)
			if ret, _, _ := releaseWithWatchdog(p); !ret {
				run.Violation("release-hangs", "fresh-pool", "Release right after NewPool did not return ("+c.String()+")", map[string]interface{}{"scenario": "release-right-after-creation", "config": c.String(), "round": k})
				stuck = true
				break
			}
		}
		run.Eval(1)
		if !stuck {
			checkLeak(base, c, map[string]interface{}{"scenario": "release-right-after-creation", "config": c.String(), "trial": trial})
			run.Distinct(fmt.Sprintf("fresh-release|%s", c))
		}
	}
	// capacity far beyond what a burst usually reaches (the framework's own default is 10^7): a
	// submitter still blocks only when that many jobs are waiting
	caps := []int{65536, 65537, 200000, 1<<20 + 3}
	if run.Thorough() {
		caps = append(caps, 1<<20, 1500000, 3000000)
	}
	for _, q := range caps {
		trial++
		scenarioCapacity(cfg{2, q, 1}, trial)
	}
	for rep := 0; rep < run.Pick(2, 10); rep++ {
		for _, proto := range []string{"tcp", "udp"} {
			for _, wq := range [][2]int{{1, 1}, {1, 0}, {2, 1}, {4, 2}} {
				trial++
				scenarioTransport(proto, wq[0], wq[1], 10+4*rep, trial)
			}
		}
	}
	for rep := 0; rep < run.Pick(6, 60); rep++ {
		wq := [][2]int{{1, 1}, {2, 0}, {2, 4}, {4, 2}}[rep%4]
		trial++
		scenarioFirstRequests(wq[0], wq[1], []int{16, 48, 32}[rep%3], 1+rep%2, trial)
	}
	run.Sample(map[string]interface{}{"scenario": "F first-requests", "config": "tcp MaxInvoke=2 QueueCap=0, 48 idle connections", "events": "all writers leave one barrier; every Invoke gated; number inside Invoke <= MaxInvoke; gates opened; each request handled once"})
	run.Sample(map[string]interface{}{"scenario": "C release-with-running-jobs", "config": "workers=2 queue=16", "events": "submit 2 gated + 1 held by dispatcher + 4 queued; Release called; gates opened; stamps: end(job0), end(job1) < return(Release); no start stamp after it"})
	run.Sample(map[string]interface{}{"scenario": "B capacity", "config": "workers=8 queue=1", "events": "10 gated submissions complete with all gates closed; gauge high-water 8"})
	run.Set("logical_clock_events", clock.Load())
	// race detector verdicts
	if vlib.RaceEnabled() {
		reports := vlib.ReadRaceReports()
		seen := map[string]bool{}
		other := 0
		for _, rr := range reports {
			if seen[rr.Key()] {
				continue
			}
			seen[rr.Key()] = true
			if rr.TouchesBoth("/tars/util/gpool/") {
				run.Violation("data-race", "gpool", "race detector report with both racing accesses in gpool (pool-internal state)", map[string]interface{}{"report": rr.Text})
			} else {
				other++
			}
		}
		run.Set("race_reports_total", len(reports))
		run.Set("race_reports_unrelated", other)
		run.Set("race_detector", "on")
	} else {
		run.Set("race_detector", "off")
	}
	for _, n := range []int{2, 3} {
		appPoolScenario(n)
	}
	run.Finish()
}
