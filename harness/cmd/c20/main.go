// C20 — flush writes every log entry logged before it, once and in order.
//
// Monitor: a recording LogWriter (public SetWriter) receives what the real background flusher
// hands over; goroutines log uniquely numbered entries; after a barrier FlushLogger() is called and
// the record is compared with what was logged before the flush request (set, per-goroutine order,
// one undivided write per entry).  The flush machinery is one-shot per process, so the verif hook
// VerifResetFlush re-arms it between in-process trials; the interleaving named in the property
// (flusher between its non-blocking poll and its blocking select when the last entry and the flush
// request arrive) is forced through the yield point "rogger.flush.between".  Child processes
// (no re-arm hook involved) cover the flush of an aged process with a slow writer and the
// panic-triggered exit through tars.CheckPanic.
package main

import (
	"bytes"
	"context"
	"errors"
	"fmt"
	"github.com/TarsCloud/TarsGo/tars/protocol/res/requestf"
	"github.com/TarsCloud/TarsGo/tars/util/current"
	"os"
	"os/exec"
	"runtime"
	"strconv"
	"strings"
	"sync"
	"sync/atomic"
	"time"
	"verif/netlab"

	"github.com/TarsCloud/TarsGo/tars"
	"github.com/TarsCloud/TarsGo/tars/util/rogger"
	"github.com/TarsCloud/TarsGo/tars/util/vhook"

	"verif/vlib"
)

var run *vlib.Run

// recWriter records every Write call.
type recWriter struct {
	mu     sync.Mutex
	writes [][]byte
	held   []byte                        // the entry a gated Write call is holding
	gate   atomic.Pointer[chan struct{}] // when set, Write blocks until the channel is closed
	delay  time.Duration
	prefix bool
}

func (w *recWriter) Write(v []byte) {
	if g := w.gate.Load(); g != nil {
		// handed over (the call has been made) though not yet completed
		w.mu.Lock()
		w.held = append([]byte(nil), v...)
		w.mu.Unlock()
		<-*g
		w.mu.Lock()
		w.held = nil
		w.mu.Unlock()
	}
	if w.delay > 0 {
		time.Sleep(w.delay)
	}
	c := append([]byte(nil), v...)
	w.mu.Lock()
	w.writes = append(w.writes, c)
	w.mu.Unlock()
}
func (w *recWriter) NeedPrefix() bool { return w.prefix }
func (w *recWriter) snapshot() [][]byte {
	w.mu.Lock()
	defer w.mu.Unlock()
	return append([][]byte(nil), w.writes...)
}

// handedOver: the completed writes plus the entry a gated Write has been called with.
func (w *recWriter) handedOver() [][]byte {
	w.mu.Lock()
	defer w.mu.Unlock()
	out := append([][]byte(nil), w.writes...)
	if w.held != nil {
		out = append(out, w.held)
	}
	return out
}
func (w *recWriter) reset() { w.mu.Lock(); w.writes = nil; w.mu.Unlock() }

type trialSpec struct {
	Kind       string `json:"kind"`
	Goroutines int    `json:"goroutines"`
	PerG       int    `json:"entries_per_goroutine"`
	Formatted  bool   `json:"formatted"`
	Occupancy  int    `json:"queue_occupancy_at_flush"`
	Spin       int    `json:"spin"`
	Trial      int    `json:"trial"`
}

func token(trial, g, i int) string { return fmt.Sprintf("<T%d-g%d-%d>", trial, g, i) }

// judge compares the writer's record with the entries logged before the flush was requested.
func judge(spec trialSpec, writes [][]byte, flushDur time.Duration) {
	timeout := time.Duration(rogger.VerifFlushTimeout())
	if flushDur >= timeout {
		run.Inconclusive(fmt.Sprintf("flush took %v >= flush timeout (%+v)", flushDur, spec))
		return
	}
	seen := map[string]int{}
	lastPerG := map[int]int{}
	wit := map[string]interface{}{"trial": spec, "flush_ns": flushDur.Nanoseconds(), "writes_recorded": len(writes)}
	for wi, wr := range writes {
		s := string(wr)
		// each write must be exactly one whole entry
		a := strings.Index(s, "<T")
		b := strings.LastIndex(s, ">")
		if a < 0 || b < a || strings.Count(s, "<T") != 1 {
			wit["write_index"], wit["write"] = wi, clip(s)
			run.Violation("divided-or-merged-write", spec.Kind, fmt.Sprintf("write %d is not exactly one entry: %q", wi, clip(s)), wit)
			return
		}
		tok := s[a : b+1]
		if !spec.Formatted && s != tok+"\n" {
			wit["write"] = clip(s)
			run.Violation("divided-or-merged-write", spec.Kind, fmt.Sprintf("raw entry altered: %q", clip(s)), wit)
			return
		}
		seen[tok]++
		var t, g, i int
		if n, _ := fmt.Sscanf(tok, "<T%d-g%d-%d>", &t, &g, &i); n == 3 && t == spec.Trial {
			if last, ok := lastPerG[g]; ok && i <= last {
				wit["goroutine"], wit["entry"], wit["after_entry"] = g, i, last
				run.Violation("order-reversed", spec.Kind, fmt.Sprintf("goroutine %d: entry %d reached the writer after entry %d", g, i, last), wit)
				return
			}
			lastPerG[g] = i
		}
	}
	for g := 0; g < spec.Goroutines; g++ {
		for i := 0; i < spec.PerG; i++ {
			tok := token(spec.Trial, g, i)
			switch n := seen[tok]; {
			case n == 0:
				wit["missing_entry"] = tok
				wit["entry_index_from_end"] = spec.PerG - 1 - i
				run.Violation("entry-lost", spec.Kind, fmt.Sprintf("entry %s (logging call returned before FlushLogger was called) was not written when FlushLogger returned after %v", tok, flushDur), wit)
				return
			case n > 1:
				wit["entry"] = tok
				run.Violation("entry-duplicated", spec.Kind, fmt.Sprintf("entry %s written %d times", tok, n), wit)
				return
			}
		}
	}
}

func clip(s string) string {
	if len(s) > 120 {
		return s[:120] + "…"
	}
	return s
}

var (
	lg  *rogger.Logger
	rec = &recWriter{}
)

func logEntry(spec trialSpec, g, i int) {
	tok := token(spec.Trial, g, i)
	if spec.Formatted {
		switch i % 5 {
		case 0:
			lg.Errorf("entry %s payload=%d", tok, i)
		case 1:
			lg.Info("entry ", tok)
		case 2:
			lg.Trace("trace " + tok) // its own path to the queue (no level, own buffer)
		case 3:
			lg.Debug("debug ", tok)
		default:
			lg.Warnf("%s", tok)
		}
	} else {
		lg.WriteLog([]byte(tok + "\n"))
	}
}

// naturalTrial: G goroutines log, barrier, flush.
func naturalTrial(spec trialSpec) {
	rec.reset()
	var wg sync.WaitGroup
	for g := 0; g < spec.Goroutines; g++ {
		wg.Add(1)
		go func(g int) {
			defer wg.Done()
			for i := 0; i < spec.PerG; i++ {
				logEntry(spec, g, i)
				for k := 0; k < (spec.Spin*(i+g))%7; k++ {
					runtime.Gosched()
				}
			}
		}(g)
	}
	wg.Wait()
	for k := 0; k < spec.Spin; k++ { // swept micro pause between the last entry and the flush
		_ = k
	}
	t0 := time.Now()
	rogger.FlushLogger()
	d := time.Since(t0)
	judge(spec, rec.snapshot(), d)
	rogger.VerifResetFlush()
	run.Eval(1)
}

// awaitFlushRequest waits until the flusher has been asked to flush; false when FlushLogger came
// back without ever asking (it may not: the flusher can be holding an entry inside the writer).
func awaitFlushRequest(returned *atomic.Bool) bool {
	for !rogger.VerifFlushRequested() {
		if returned.Load() {
			return rogger.VerifFlushRequested()
		}
		runtime.Gosched()
	}
	return true
}

// occupancyTrial: the writer is gated so that `occ` entries wait in the queue when the flush is
// requested; the gate opens right after the request.
func occupancyTrial(spec trialSpec) {
	rec.reset()
	gate := make(chan struct{})
	rec.gate.Store(&gate)
	total := spec.Occupancy + 1 // one entry is held by the flusher inside the gated Write
	spec.Goroutines, spec.PerG = 1, total
	for i := 0; i < total; i++ {
		logEntry(spec, 0, i)
	}
	done := make(chan time.Duration, 1)
	var returned atomic.Bool
	go func() {
		t0 := time.Now()
		rogger.FlushLogger()
		d := time.Since(t0)
		returned.Store(true)
		done <- d
	}()
	spec.Kind = fmt.Sprintf("%s-%d", spec.Kind, spec.Occupancy)
	if !awaitFlushRequest(&returned) {
		// back already, the writer still gated: what has been handed over now is all that was
		snap := rec.handedOver()
		rec.gate.Store(nil)
		close(gate)
		judge(spec, snap, <-done)
		rogger.VerifResetFlush()
		run.Eval(1)
		return
	}
	rec.gate.Store(nil)
	close(gate)
	d := <-done
	judge(spec, rec.snapshot(), d)
	rogger.VerifResetFlush()
	run.Eval(1)
}

// doubleFlushTrial: a second FlushLogger arrives while the first one is still draining (the writer
// is gated).  The second caller, too, may return only when everything logged before its request
// has been written — a process that exits after "its" flush returned relies on that.
func doubleFlushTrial(spec trialSpec) {
	rec.reset()
	gate := make(chan struct{})
	rec.gate.Store(&gate)
	total := spec.Occupancy + 1
	spec.Goroutines, spec.PerG = 1, total
	spec.Kind = fmt.Sprintf("second-overlapping-flush-%d", spec.Occupancy)
	for i := 0; i < total; i++ {
		logEntry(spec, 0, i)
	}
	first := make(chan struct{})
	var firstBack atomic.Bool
	go func() { rogger.FlushLogger(); firstBack.Store(true); close(first) }()
	if !awaitFlushRequest(&firstBack) {
		snap := rec.handedOver()
		rec.gate.Store(nil)
		close(gate)
		run.Eval(1)
		judge(spec, snap, time.Millisecond)
		rogger.VerifResetFlush()
		return
	}
	second := make(chan struct{})
	go func() { rogger.FlushLogger(); close(second) }()
	// the writer is still gated: nothing can have been written completely, so neither flush may be back
	early := false
	select {
	case <-second:
		early = true
	case <-time.After(30 * time.Millisecond):
	}
	written := len(rec.snapshot())
	rec.gate.Store(nil)
	close(gate)
	<-first
	<-second
	run.Eval(1)
	if early && written < total {
		run.Violation("flush-returned-before-entries-written", "second-overlapping-flush", fmt.Sprintf("a FlushLogger call made while an earlier flush was still draining returned with %d of %d entries written (the writer was still blocked)", written, total),
			map[string]interface{}{"trial": spec, "entries_logged_before_both_flushes": total, "entries_written_when_second_flush_returned": written})
		rogger.VerifResetFlush()
		return
	}
	judge(spec, rec.snapshot(), time.Millisecond)
	rogger.VerifResetFlush()
}

// forcedTrial: hold the flusher between its two selects, log the last entry, request the flush,
// then let the flusher go.
func forcedTrial(spec trialSpec) {
	rec.reset()
	at := make(chan struct{}, 1)
	proceed := make(chan struct{})
	var armed atomic.Bool
	armed.Store(true)
	vhook.Set("rogger.flush.between", func() {
		if armed.CompareAndSwap(true, false) {
			at <- struct{}{}
			<-proceed
		}
	})
	// wake the flusher once so that it passes through the yield point with an empty queue
	spec.Goroutines, spec.PerG = 1, 2
	logEntry(spec, 0, 0)
	select {
	case <-at:
	case <-time.After(5 * time.Second):
		vhook.Set("rogger.flush.between", nil)
		run.Inconclusive("forced: flusher did not reach the yield point")
		close(proceed)
		rogger.FlushLogger()
		rogger.VerifResetFlush()
		return
	}
	// flusher is now between the non-blocking poll (queue was empty) and the blocking select
	logEntry(spec, 0, 1) // returns: the entry is in the queue
	done := make(chan time.Duration, 1)
	var returned atomic.Bool
	go func() {
		t0 := time.Now()
		rogger.FlushLogger()
		d := time.Since(t0)
		returned.Store(true)
		done <- d
	}()
	if !awaitFlushRequest(&returned) {
		snap := rec.handedOver()
		close(proceed)
		vhook.Set("rogger.flush.between", nil)
		judge(spec, snap, <-done)
		rogger.VerifResetFlush()
		run.Eval(1)
		return
	}
	close(proceed) // both the queue and the flush request are ready now
	d := <-done
	vhook.Set("rogger.flush.between", nil)
	judge(spec, rec.snapshot(), d)
	rogger.VerifResetFlush()
	run.Eval(1)
	run.Add("forced_interleavings_produced", 1)
}

// overflowTrial: one goroutine logs more entries than the queue holds while the writer is gated.
func overflowTrial(spec trialSpec) {
	rec.reset()
	gate := make(chan struct{})
	rec.gate.Store(&gate)
	spec.Goroutines = 1
	fin := make(chan struct{})
	go func() {
		for i := 0; i < spec.PerG; i++ {
			logEntry(spec, 0, i)
		}
		close(fin)
	}()
	// wait until the queue is full (or the logger finished), then open the gate
	deadline := time.Now().Add(3 * time.Second)
	for rogger.VerifQueueLen() < 10000 && time.Now().Before(deadline) {
		select {
		case <-fin:
			deadline = time.Now()
		default:
			time.Sleep(200 * time.Microsecond)
		}
	}
	run.Add("overflow_queue_len_seen", int64(rogger.VerifQueueLen()))
	time.Sleep(2 * time.Millisecond)
	rec.gate.Store(nil)
	close(gate)
	select {
	case <-fin:
	case <-time.After(20 * time.Second):
		run.Violation("logging-call-hangs", "overflow", "a logging call did not return although the writer drains the queue", spec)
		return
	}
	t0 := time.Now()
	rogger.FlushLogger()
	d := time.Since(t0)
	judge(spec, rec.snapshot(), d)
	rogger.VerifResetFlush()
	run.Eval(1)
}

// ---------- child process scenarios (no re-arm hook) ----------

// discardWriter takes the entries of loggers that are not under observation (TLOG's
// "dyeingLogQueue is full" reports) off the console.
type discardWriter struct{ n atomic.Int64 }

func (w *discardWriter) Write(v []byte)   { w.n.Add(1) }
func (w *discardWriter) NeedPrefix() bool { return true }

// dyedTrials: the Dyeing* logging calls hand one ordinary entry to the logger's writer and, for a
// dyed request, a copy to the dyeing queue (capacity 10 000, consumed by the application).  They are
// logging calls like any other: whatever the state of the dyeing queue (empty, nearly full so that
// the trial crosses its capacity, full with no consumer), every ordinary entry whose call returned
// before the flush must be with the writer, once and in order.  Half of the goroutines of a trial
// log for a dyed request, the others for an undyed one.
func dyedTrials(trial *int) {
	tlog := &discardWriter{}
	rogger.GetLogger("TLOG").SetWriter(tlog)
	q := *rogger.GetDyeingLogQueue()
	dyed := current.ContextWithTarsCurrent(context.Background())
	current.SetDyeingKey(dyed, "c20-dyed-user")
	plain := current.ContextWithTarsCurrent(context.Background())
	rec.prefix = true
	defer func() { rec.prefix = false }()
	drain := func() {
		for {
			select {
			case <-q:
			default:
				return
			}
		}
	}
	drain()
	// one dyed copy to fill the queue with (its type is not exported)
	*trial++
	lg.DyeingInfo(dyed, nil, "entry ", token(*trial, 0, 0))
	if len(q) != 1 {
		run.Inconclusive(fmt.Sprintf("dyed request did not produce a dyed copy (queue length %d)", len(q)))
		return
	}
	seed := <-q
	rogger.FlushLogger()
	judge(trialSpec{Kind: "dyed-seed", Goroutines: 1, PerG: 1, Formatted: true, Trial: *trial}, rec.snapshot(), 0)
	rogger.VerifResetFlush()
	fullSeen, copies := 0, 0
	for rep := 0; rep < run.Pick(12, 120); rep++ {
		room := []int{cap(q), 0, 1, 7, 40, cap(q) - 3}[rep%6] // free slots of the dyeing queue when the trial starts
		drain()
		for len(q) < cap(q)-room {
			q <- seed
		}
		*trial++
		spec := trialSpec{Kind: "dyed", Goroutines: []int{1, 2, 4, 8}[rep%4], PerG: 5 + 3*(rep%5), Formatted: true, Occupancy: cap(q) - room, Trial: *trial}
		rec.reset()
		before, tl0 := len(q), tlog.n.Load()
		var wg sync.WaitGroup
		for g := 0; g < spec.Goroutines; g++ {
			wg.Add(1)
			go func(g int) {
				defer wg.Done()
				ctx := dyed
				if g%2 == 1 {
					ctx = plain
				}
				for i := 0; i < spec.PerG; i++ {
					tok := token(spec.Trial, g, i)
					switch (i + g) % 4 {
					case 0:
						lg.DyeingInfo(ctx, nil, "entry ", tok)
					case 1:
						lg.DyeingErrorf(ctx, "ext", "entry %s payload=%d", tok, i)
					case 2:
						lg.DyeingDebug(ctx, nil, tok)
					default:
						lg.DyeingWarnf(ctx, nil, "%s", tok)
					}
				}
			}(g)
		}
		wg.Wait()
		t0 := time.Now()
		rogger.FlushLogger()
		d := time.Since(t0)
		judge(spec, rec.snapshot(), d)
		rogger.VerifResetFlush()
		run.Eval(1)
		copies += len(q) - before
		if len(q) == cap(q) {
			fullSeen++
		}
		_ = tl0
		run.Distinct(fmt.Sprintf("dyed|room=%d|g=%d|n=%d", room, spec.Goroutines, spec.PerG))
	}
	drain()
	run.Set("dyed_trials_ending_with_full_dyeing_queue", fullSeen)
	run.Set("dyed_copies_queued", copies)
	run.Set("dyeing_queue_full_reports", tlog.n.Load())
	run.Sample(map[string]interface{}{"trial": "dyed", "events": "dyeing queue pre-filled to capacity minus room; G goroutines (even: dyed request, odd: undyed) log through DyeingInfo/Errorf/Debug/Warnf; FlushLogger; the writer's record must hold every ordinary entry once, in order", "trials_with_full_queue": fullSeen, "full_reports": tlog.n.Load()})
}

type fileWriter struct {
	f     *os.File
	delay time.Duration
}

func (w *fileWriter) Write(v []byte) {
	if w.delay > 0 {
		time.Sleep(w.delay)
	}
	w.f.Write(v)
}
func (w *fileWriter) NeedPrefix() bool { return false }

func childMain(mode string) {
	out := os.Getenv("C20_CHILD_OUT")
	k, _ := strconv.Atoi(os.Getenv("C20_CHILD_K"))
	delayUs, _ := strconv.Atoi(os.Getenv("C20_CHILD_DELAY_US"))
	warmMs, _ := strconv.Atoi(os.Getenv("C20_CHILD_WARM_MS"))
	f, err := os.Create(out)
	if err != nil {
		os.Exit(7)
	}
	l := rogger.GetLogger("c20child")
	l.SetWriter(&fileWriter{f: f, delay: time.Duration(delayUs) * time.Microsecond})
	time.Sleep(time.Duration(warmMs) * time.Millisecond)
	os.Chdir(os.TempDir()) // CheckPanic dumps a stack file into the working directory
	if d := os.Getenv("C20_CHILD_DIR"); d != "" {
		os.Chdir(d)
	}
	switch mode {
	case "flush":
		for i := 0; i < k; i++ {
			l.WriteLog([]byte(fmt.Sprintf("<T0-g0-%d>\n", i)))
		}
		rogger.FlushLogger()
		os.Exit(0)
	case "panic-in-client-call":
		// the panic comes from under a client call (a client filter): TarsInvoke has the same
		// panic handling as the server side
		app := tars.VerifNewApp()
		app.RegisterClientFilter(func(ctx context.Context, msg *tars.Message, invoke tars.Invoke, timeout time.Duration) error {
			for i := 0; i < k; i++ {
				l.WriteLog([]byte(fmt.Sprintf("<T0-g0-%d>\n", i)))
			}
			panic("boom in a client filter")
		})
		sp := tars.NewServantProxy(app.NewCommunicator(), "Verif.C20.Obj@tcp -h 127.0.0.1 -p 1 -t 1000")
		_ = sp.TarsInvoke(context.Background(), 0, "f", nil, nil, nil, &requestf.ResponsePacket{})
		os.Exit(9)
	case "panic-in-run-init":
		// the panic comes from inside tars.Run itself: the configured log directory cannot be
		// created, so the application's initialisation panics; Run flushes the loggers on its way
		// out, whatever the reason it stops
		confPath := out + ".conf"
		_ = os.WriteFile(confPath, []byte("<tars>\n<application>\n<client>\nmodulename=Verif.C20Run\n</client>\n<server>\napp=Verif\nserver=C20Run\nlogpath=/dev/null/c20-run-logs\nlogLevel=DEBUG\n</server>\n</application>\n</tars>\n"), 0o644)
		tars.ServerConfigPath = confPath
		for i := 0; i < k; i++ {
			l.WriteLog([]byte(fmt.Sprintf("<T0-g0-%d>\n", i)))
		}
		tars.Run()
		os.Exit(9) // Run should have died of the panic in its initialisation
	case "panic-in-dispatch":
		// the panic comes from a servant's dispatcher, through the real Protocol.Invoke: that is
		// where a server's panics really come from
		p := tars.VerifNewApp().NewProtocol(panicDispatch{l: l, k: k}, nil, true)
		frame := (&netlab.Request{Version: 1, RequestID: 7, Servant: "Verif.C20.Obj", Func: "boom", Timeout: 0}).Encode()
		_ = p.Invoke(current.ContextWithTarsCurrent(context.Background()), frame)
		os.Exit(9) // Invoke's panic handling should have exited
	default:
		func() {
			defer tars.CheckPanic()
			for i := 0; i < k; i++ {
				l.WriteLog([]byte(fmt.Sprintf("<T0-g0-%d>\n", i)))
			}
			switch mode {
			case "panic-string":
				panic("boom")
			case "panic-error":
				panic(errors.New("boom"))
			case "panic-struct":
				panic(struct{ A int }{3})
			default: // panic-runtime
				var m map[string]int
				m["x"] = 1
			}
		}()
		os.Exit(9) // CheckPanic should have exited
	}
}

type panicDispatch struct {
	l *rogger.Logger
	k int
}

func (d panicDispatch) Dispatch(ctx context.Context, imp interface{}, req *requestf.RequestPacket, rsp *requestf.ResponsePacket, wc bool) error {
	for i := 0; i < d.k; i++ {
		d.l.WriteLog([]byte(fmt.Sprintf("<T0-g0-%d>\n", i)))
	}
	panic("boom in dispatch")
}

func childTrial(mode string, k, delayUs, warmMs, idx int) {
	label := mode
	dir := os.Getenv("VERIF_BUILD")
	if dir == "" {
		dir = os.TempDir()
	}
	out := fmt.Sprintf("%s/c20child-%s-%d.log", dir, strings.ReplaceAll(mode, "+", "_"), idx)
	cmd := exec.Command(os.Args[0])
	if strings.HasSuffix(mode, "+nodump") {
		// argv[0] in a directory where no file can be created (even by root): the stack dump that
		// CheckPanic writes next to the executable fails; the log must still be flushed
		cmd.Args = []string{"/proc/verif-c20-child"}
		mode = strings.TrimSuffix(mode, "+nodump")
	}
	cmd.Env = append(os.Environ(), "C20_CHILD="+mode, "C20_CHILD_OUT="+out, "C20_CHILD_K="+strconv.Itoa(k),
		"C20_CHILD_DELAY_US="+strconv.Itoa(delayUs), "C20_CHILD_WARM_MS="+strconv.Itoa(warmMs), "C20_CHILD_DIR="+dir)
	var stderr bytes.Buffer
	cmd.Stderr = &stderr
	t0 := time.Now()
	err := cmd.Run()
	el := time.Since(t0)
	spec := map[string]interface{}{"scenario": "child:" + label, "entries": k, "writer_delay_us": delayUs, "process_age_ms_before_logging": warmMs, "index": idx}
	run.Eval(1)
	b, rerr := os.ReadFile(out)
	os.Remove(out)
	if rerr != nil {
		run.Inconclusive(fmt.Sprintf("child %s wrote no file: %v %v %s", mode, err, rerr, clip(stderr.String())))
		return
	}
	// the writer needs k*delay; if that is not well inside the flush timeout the trial is not judged
	if need := time.Duration(k*delayUs) * time.Microsecond; need > time.Duration(rogger.VerifFlushTimeout())/3 {
		run.Inconclusive("child trial needs too long to drain")
		return
	}
	_ = el
	got := strings.Count(string(b), "<T0-g0-")
	spec["entries_in_file"] = got
	if got != k {
		last := "-"
		if i := strings.LastIndex(string(b), "<T0"); i >= 0 {
			last = clip(string(b[i:]))
		}
		spec["last_entry_in_file"] = last
		run.Violation("entry-lost", "child:"+label, fmt.Sprintf("%d of %d entries logged before the %s reached the writer", got, k, map[bool]string{true: "flush", false: "panic-triggered exit"}[mode == "flush"]), spec)
		return
	}
	for i := 0; i < k; i++ {
		if !strings.Contains(string(b), fmt.Sprintf("<T0-g0-%d>\n", i)) {
			run.Violation("entry-lost", "child:"+label, fmt.Sprintf("entry %d missing", i), spec)
			return
		}
	}
	run.Distinct(fmt.Sprintf("child|%s|%d|%d|%d", label, k, delayUs, warmMs))
}

func main() {
	if m := os.Getenv("C20_CHILD"); m != "" {
		childMain(m)
		return
	}
	run = vlib.Start("C20")
	run.SetRule("in-process trials (flush re-armed by hook): natural (G in {1,4,32} goroutines x per-goroutine entries x raw/formatted x swept pause), forced (flusher held between its two selects while the last entry and the flush request arrive), occupancy (0,1,100,9999 entries queued at the flush request), overflow (more entries than the queue holds, gated writer); child processes: flush after >1 s process age with a slow writer, panic exit through CheckPanic with string/error/struct/runtime-error values, with the stack dump file uncreatable (argv[0] under /proc), and with the panic raised by a dispatcher under the real Protocol.Invoke; a second FlushLogger overlapping a draining one; occupancy and natural trials in the JSON log format; Dyeing* logging calls for dyed and undyed requests with the dyeing queue empty, crossing its capacity and full. A case is a trial; distinct = distinct (kind, parameters, recorded write count) keys.")
	run.Assume("an entry counts as 'logged before the flush' when its logging call returned before FlushLogger was called (barrier in the harness)")
	run.Assume("a flush that takes >= the flush timeout (1 s) is not judged (inconclusive)")
	rogger.SetLevel(rogger.DEBUG)
	lg = rogger.GetLogger("c20")
	lg.SetWriter(rec)
	trial := 0

	only := os.Getenv("C20_ONLY")
	nNatural := run.Pick(6000, 200000)
	if only != "" && only != "natural" {
		nNatural = 0
	}
	for i := 0; i < nNatural; i++ {
		trial++
		spec := trialSpec{Kind: "natural", Goroutines: []int{1, 1, 4, 32}[i%4], PerG: 1 + i%5, Formatted: i%3 == 0, Spin: i % 11, Trial: trial}
		if spec.Goroutines == 32 && i%16 != 3 {
			spec.Goroutines = 2
		}
		rec.prefix = spec.Formatted
		naturalTrial(spec)
		run.Distinct(fmt.Sprintf("natural|%d|%d|%v|%d", spec.Goroutines, spec.PerG, spec.Formatted, spec.Spin))
		if i == 5 {
			run.Sample(map[string]interface{}{"trial": spec, "writes": len(rec.snapshot()), "first_write": clip(string(rec.snapshot()[0]))})
		}
	}
	rec.prefix = false
	nForced := run.Pick(400, 5000)
	if only != "" && only != "forced" {
		nForced = 0
	}
	for i := 0; i < nForced; i++ {
		trial++
		forcedTrial(trialSpec{Kind: "forced-between-selects", Trial: trial, Formatted: false})
		run.Distinct(fmt.Sprintf("forced|%d", i%50))
	}
	run.Sample(map[string]interface{}{"trial": "forced-between-selects", "events": "flusher reaches yield point with empty queue; entry logged (call returned); FlushLogger signalled; flusher released with queue and flush request both ready; record must hold the entry when FlushLogger returns"})
	for rep := 0; rep < run.Pick(3, 40); rep++ {
		for _, occ := range []int{0, 1, 100, 9999} {
			trial++
			occupancyTrial(trialSpec{Kind: "occupancy", Occupancy: occ, Trial: trial})
			run.Distinct(fmt.Sprintf("occupancy|%d|%d", occ, rep))
		}
	}
	// the JSON log format has its own encoding path: same guarantees
	rogger.SetFormat(rogger.Json)
	for rep := 0; rep < run.Pick(6, 60); rep++ {
		trial++
		sp := trialSpec{Kind: "json-occupancy", Occupancy: []int{1, 50, 300}[rep%3], Trial: trial, Formatted: true}
		occupancyTrial(sp)
		run.Distinct(fmt.Sprintf("json-occupancy|%d", rep%3))
		trial++
		naturalTrial(trialSpec{Kind: "json-natural", Goroutines: 4, PerG: 50, Formatted: true, Spin: rep, Trial: trial})
		run.Distinct(fmt.Sprintf("json-natural|%d", rep%7))
	}
	rogger.SetFormat(rogger.Text)
	for rep := 0; rep < run.Pick(6, 60); rep++ {
		trial++
		doubleFlushTrial(trialSpec{Kind: "second-overlapping-flush", Occupancy: []int{1, 20, 150}[rep%3], Trial: trial, Formatted: rep%2 == 1})
		run.Distinct(fmt.Sprintf("doubleflush|%d|%d", rep%3, rep%2))
	}
	for rep := 0; rep < run.Pick(4, 30); rep++ {
		trial++
		rec.prefix = rep%2 == 0
		overflowTrial(trialSpec{Kind: "overflow", PerG: 10300 + 37*rep, Trial: trial, Formatted: rep%2 == 0})
		run.Distinct(fmt.Sprintf("overflow|%d", rep))
	}

	if only == "" || only == "dyed" {
		dyedTrials(&trial)
	}
	rec.prefix = false
	// child processes
	idx := 0
	for rep := 0; rep < run.Pick(2, 12); rep++ {
		for _, mode := range []string{"flush", "panic-string", "panic-error", "panic-struct", "panic-runtime", "panic-string+nodump", "panic-in-dispatch", "panic-in-client-call", "panic-in-run-init"} {
			idx++
			warm := 0
			if mode == "flush" || rep%2 == 1 {
				warm = 1200 // older than the flush timeout
			}
			childTrial(mode, 100+10*rep, 1000, warm, idx)
		}
	}
	run.Sample(map[string]interface{}{"trial": "child:panic-string", "events": "child logs k entries through a 1 ms-per-write file writer, panics under defer tars.CheckPanic(); parent counts entries in the file"})

	if vlib.RaceEnabled() {
		reports := vlib.ReadRaceReports()
		seen := map[string]bool{}
		other := 0
		for _, rr := range reports {
			if seen[rr.Key()] {
				continue
			}
			seen[rr.Key()] = true
			if rr.Touches("/tars/util/rogger/") {
				run.Violation("data-race", "rogger", "race detector report with an accessing frame in rogger", map[string]interface{}{"report": rr.Text})
			} else {
				other++
			}
		}
		run.Set("race_reports_total", len(reports))
		run.Set("race_reports_unrelated", other)
		run.Set("race_detector", "on")
	}
	run.Finish()
}
