module verif

go 1.21

require (
	github.com/TarsCloud/TarsGo v0.0.0
	github.com/anishathalye/porcupine v1.3.0
)

require go.uber.org/automaxprocs v1.5.2 // indirect

replace github.com/TarsCloud/TarsGo => /repo
