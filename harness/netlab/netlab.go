// Package netlab provides scripted peers over real loopback sockets for the transport and RPC
// monitors: free-port allocation, length-prefixed framing, chunked writers, frame readers.
package netlab

import (
	"crypto/ecdsa"
	"crypto/elliptic"
	crand "crypto/rand"
	"crypto/tls"
	"crypto/x509"
	"crypto/x509/pkix"
	"encoding/binary"
	"errors"
	"fmt"
	"io"
	"math/big"
	"net"
	"os"
	"runtime"
	"strconv"
	"strings"
	"sync"
	"time"

	"github.com/TarsCloud/TarsGo/tars/transport"
)

// FreeTCPAddr returns a loopback address whose port was free a moment ago.
func FreeTCPAddr() string {
	l, err := net.Listen("tcp", "127.0.0.1:0")
	if err != nil {
		panic(err)
	}
	a := l.Addr().String()
	l.Close()
	return a
}

// FreeUDPAddr returns a loopback UDP address whose port was free a moment ago.
func FreeUDPAddr() string {
	c, err := net.ListenPacket("udp4", "127.0.0.1:0")
	if err != nil {
		panic(err)
	}
	a := c.LocalAddr().String()
	c.Close()
	return a
}

// Frame prefixes body with the 4-byte big-endian total length.
func Frame(body []byte) []byte {
	b := make([]byte, 4+len(body))
	binary.BigEndian.PutUint32(b, uint32(4+len(body)))
	copy(b[4:], body)
	return b
}

// StartServer creates a real TarsServer for proto on a free port and serves it in a goroutine.
func StartServer(p transport.ServerProtocol, conf *transport.TarsServerConf) (*transport.TarsServer, error) {
	var lastErr error
	for try := 0; try < 20; try++ {
		if conf.Proto == "udp" {
			conf.Address = FreeUDPAddr()
		} else {
			conf.Address = FreeTCPAddr()
		}
		s := transport.NewTarsServer(p, conf)
		if err := s.Listen(); err != nil {
			lastErr = err
			continue
		}
		go func() { _ = s.Serve() }()
		return s, nil
	}
	return nil, fmt.Errorf("cannot listen: %v", lastErr)
}

// DefaultServerConf is a server configuration suitable for monitors.
func DefaultServerConf(proto string) *transport.TarsServerConf {
	return &transport.TarsServerConf{Proto: proto, AcceptTimeout: 200 * time.Millisecond, IdleTimeout: 600 * time.Second,
		QueueCap: 10000, TCPReadBuffer: 1 << 20, TCPWriteBuffer: 1 << 20, TCPNoDelay: true}
}

// FrameReader incrementally reads length-prefixed frames from a connection.
type FrameReader struct {
	Conn net.Conn
	buf  []byte
	// Raw counts all bytes read.
	Raw int
}

var ErrTimeout = errors.New("netlab: timeout")

// Next returns the next complete frame (header included).  io.EOF when the peer closed cleanly
// at a frame boundary; other errors (incl. ErrTimeout) otherwise.
func (fr *FrameReader) Next(timeout time.Duration) ([]byte, error) {
	deadline := time.Now().Add(timeout)
	tmp := make([]byte, 64*1024)
	for {
		if len(fr.buf) >= 4 {
			n := int(binary.BigEndian.Uint32(fr.buf))
			if n < 4 {
				return nil, fmt.Errorf("netlab: peer sent illegal length %d", n)
			}
			if len(fr.buf) >= n {
				f := append([]byte(nil), fr.buf[:n]...)
				fr.buf = fr.buf[n:]
				return f, nil
			}
		}
		_ = fr.Conn.SetReadDeadline(deadline)
		k, err := fr.Conn.Read(tmp)
		fr.Raw += k
		fr.buf = append(fr.buf, tmp[:k]...)
		if err != nil {
			if ne, ok := err.(net.Error); ok && ne.Timeout() {
				return nil, ErrTimeout
			}
			if err == io.EOF && len(fr.buf) > 0 && k == 0 {
				return nil, io.ErrUnexpectedEOF
			}
			if k > 0 {
				continue
			}
			return nil, err
		}
	}
}

// Pending returns the bytes read but not yet returned as frames.
func (fr *FrameReader) Pending() int { return len(fr.buf) }

// WaitEOF reads until the peer closes; returns the number of extra bytes seen and whether EOF
// (or a reset) arrived before the timeout.
func (fr *FrameReader) WaitEOF(timeout time.Duration) (extra int, closed bool) {
	_ = fr.Conn.SetReadDeadline(time.Now().Add(timeout))
	tmp := make([]byte, 4096)
	for {
		k, err := fr.Conn.Read(tmp)
		extra += k
		fr.buf = append(fr.buf, tmp[:k]...)
		if err != nil {
			if ne, ok := err.(net.Error); ok && ne.Timeout() {
				return extra, false
			}
			return extra, true
		}
	}
}

// Pace is called between chunk writes.
type Pace int

const (
	PaceNone Pace = iota
	PaceYield
	PaceSleep1ms
	PaceSleep5ms
)

func (p Pace) do() {
	switch p {
	case PaceYield:
		runtime.Gosched()
	case PaceSleep1ms:
		time.Sleep(time.Millisecond)
	case PaceSleep5ms:
		time.Sleep(5 * time.Millisecond)
	}
}

// WriteChunks writes data split at the given cut offsets (ascending, within (0,len)).
func WriteChunks(c net.Conn, data []byte, cuts []int, pace Pace) error {
	if tc, ok := c.(*net.TCPConn); ok {
		_ = tc.SetNoDelay(true)
	}
	prev := 0
	for _, cut := range append(append([]int(nil), cuts...), len(data)) {
		if cut <= prev || cut > len(data) {
			continue
		}
		if _, err := c.Write(data[prev:cut]); err != nil {
			return err
		}
		prev = cut
		if cut < len(data) {
			pace.do()
		}
	}
	return nil
}

// Listener is a scripted TCP server.
type Listener struct {
	L    net.Listener
	Addr string
	mu   sync.Mutex
	Conn []net.Conn
}

// Listen opens a scripted TCP listener on a free loopback port.
func Listen() *Listener {
	l, err := net.Listen("tcp", "127.0.0.1:0")
	if err != nil {
		panic(err)
	}
	return &Listener{L: l, Addr: l.Addr().String()}
}

// ListenAt opens a scripted TCP listener on a given address (retrying briefly).
func ListenAt(addr string) (*Listener, error) {
	var err error
	for i := 0; i < 50; i++ {
		var l net.Listener
		l, err = net.Listen("tcp", addr)
		if err == nil {
			return &Listener{L: l, Addr: addr}, nil
		}
		time.Sleep(20 * time.Millisecond)
	}
	return nil, err
}

// Accept waits for one connection.
func (l *Listener) Accept(timeout time.Duration) (net.Conn, error) {
	if tl, ok := l.L.(*net.TCPListener); ok {
		_ = tl.SetDeadline(time.Now().Add(timeout))
	}
	c, err := l.L.Accept()
	if err != nil {
		return nil, err
	}
	l.mu.Lock()
	l.Conn = append(l.Conn, c)
	l.mu.Unlock()
	return c, nil
}

// Close closes the listener and every accepted connection.
func (l *Listener) Close() {
	l.L.Close()
	l.mu.Lock()
	for _, c := range l.Conn {
		c.Close()
	}
	l.mu.Unlock()
}

// UDPDrops returns the kernel's count of datagrams it discarded for the UDP sockets bound to the
// given local port (column "drops" of /proc/net/udp and /proc/net/udp6: receive-buffer overflow).
// -1: the tables cannot be read at all (nothing can be said); 0 also when no such socket exists
// any more (a closed socket has lost nothing that its owner could still have answered).  A monitor
// uses it to tell "the peer did not answer" from "the kernel threw the datagram away".
func UDPDrops(port int) int64 {
	total, readable := int64(0), false
	for _, f := range []string{"/proc/net/udp", "/proc/net/udp6"} {
		b, err := os.ReadFile(f)
		if err != nil {
			continue
		}
		readable = true
		for i, l := range strings.Split(string(b), "\n") {
			fs := strings.Fields(l)
			if i == 0 || len(fs) < 13 {
				continue
			}
			j := strings.LastIndex(fs[1], ":")
			if j < 0 {
				continue
			}
			p, err := strconv.ParseInt(fs[1][j+1:], 16, 32)
			if err != nil || int(p) != port {
				continue
			}
			if d, err := strconv.ParseInt(fs[len(fs)-1], 10, 64); err == nil {
				total += d
			}
		}
	}
	if !readable {
		return -1
	}
	return total
}

// SelfSignedTLS returns a server-side TLS configuration with a fresh self-signed certificate for
// the loopback addresses.
func SelfSignedTLS() (*tls.Config, error) {
	key, err := ecdsa.GenerateKey(elliptic.P256(), crand.Reader)
	if err != nil {
		return nil, err
	}
	tmpl := &x509.Certificate{SerialNumber: big.NewInt(1), Subject: pkix.Name{CommonName: "verif"}, NotBefore: time.Now().Add(-time.Hour), NotAfter: time.Now().Add(24 * time.Hour),
		KeyUsage: x509.KeyUsageDigitalSignature, ExtKeyUsage: []x509.ExtKeyUsage{x509.ExtKeyUsageServerAuth}, IPAddresses: []net.IP{net.ParseIP("127.0.0.1")}, DNSNames: []string{"localhost"}}
	der, err := x509.CreateCertificate(crand.Reader, tmpl, tmpl, &key.PublicKey, key)
	if err != nil {
		return nil, err
	}
	return &tls.Config{Certificates: []tls.Certificate{{Certificate: [][]byte{der}, PrivateKey: key}}}, nil
}
