package netlab

import (
	"net"
	"sync"
	"sync/atomic"
	"time"
)

// Clock is a process-wide logical clock shared by the monitors of one check.
var Clock atomic.Int64

func Tick() int64 { return Clock.Add(1) }

// SConn is one accepted connection of a ScriptServer.
type SConn struct {
	ID       int
	Conn     net.Conn
	Srv      *ScriptServer
	wmu      sync.Mutex
	Accepted int64
	Closed   atomic.Int64 // stamp when the server closed it / saw it closed
	NReq     atomic.Int32
	NRsp     atomic.Int32
	User     interface{}
}

// Send writes one framed packet (already framed bytes).
func (c *SConn) Send(frame []byte) error {
	c.wmu.Lock()
	defer c.wmu.Unlock()
	_, err := c.Conn.Write(frame)
	if err == nil {
		c.NRsp.Add(1)
	}
	return err
}

// Close closes the connection from the server side.
func (c *SConn) Close() {
	c.Closed.CompareAndSwap(0, Tick())
	c.Conn.Close()
}

// SendAndClose writes one last frame (or part of one) and closes the connection, as one step with
// respect to every other Send on this connection: nothing can be written behind the frame.
func (c *SConn) SendAndClose(frame []byte) {
	c.wmu.Lock()
	defer c.wmu.Unlock()
	_, _ = c.Conn.Write(frame)
	c.Closed.CompareAndSwap(0, Tick())
	c.Conn.Close()
}

// Reset closes the connection abortively (RST).
func (c *SConn) Reset() {
	if tc, ok := c.Conn.(*net.TCPConn); ok {
		_ = tc.SetLinger(0)
	}
	c.Close()
}

// ReqEvent is one request seen by a ScriptServer.
type ReqEvent struct {
	Conn  *SConn
	Req   *Request
	Raw   []byte
	Stamp int64
	Time  time.Time
	Err   error // set when the frame could not be parsed as a request
}

// ScriptServer is a scripted Tars server on a loopback port: it parses every request with the
// reference codec, records it in a ledger and hands it to Handler.
type ScriptServer struct {
	L    *Listener
	Addr string
	// Handler is called (on the connection's reader goroutine) for every request.
	Handler func(ev *ReqEvent)
	// OnAccept is called for every accepted connection; returning false closes it at once.
	OnAccept func(c *SConn) bool

	mu     sync.Mutex
	conns  []*SConn
	ledger []*ReqEvent
	closed atomic.Bool
	wg     sync.WaitGroup
}

// NewScriptServer starts a scripted server on a free port.
func NewScriptServer(handler func(ev *ReqEvent)) *ScriptServer {
	s := &ScriptServer{L: Listen(), Handler: handler}
	s.Addr = s.L.Addr
	go s.acceptLoop()
	return s
}

// NewScriptServerOnHost starts a scripted server on a free port of the given loopback host
// (127.0.0.N: endpoints are identified by host in the selectors).
func NewScriptServerOnHost(host string, handler func(ev *ReqEvent)) *ScriptServer {
	l, err := net.Listen("tcp", host+":0")
	if err != nil {
		panic(err)
	}
	s := &ScriptServer{L: &Listener{L: l, Addr: l.Addr().String()}, Handler: handler}
	s.Addr = s.L.Addr
	go s.acceptLoop()
	return s
}

// NewScriptServerAt starts a scripted server on a given address.
func NewScriptServerAt(addr string, handler func(ev *ReqEvent)) (*ScriptServer, error) {
	l, err := ListenAt(addr)
	if err != nil {
		return nil, err
	}
	s := &ScriptServer{L: l, Handler: handler, Addr: addr}
	go s.acceptLoop()
	return s, nil
}

func (s *ScriptServer) acceptLoop() {
	for {
		c, err := s.L.L.Accept()
		if err != nil {
			return
		}
		if tc, ok := c.(*net.TCPConn); ok {
			_ = tc.SetNoDelay(true)
		}
		s.mu.Lock()
		sc := &SConn{ID: len(s.conns), Conn: c, Srv: s, Accepted: Tick()}
		s.conns = append(s.conns, sc)
		s.mu.Unlock()
		if s.OnAccept != nil && !s.OnAccept(sc) {
			sc.Close()
			continue
		}
		s.wg.Add(1)
		go s.serve(sc)
	}
}

func (s *ScriptServer) serve(c *SConn) {
	defer s.wg.Done()
	fr := &FrameReader{Conn: c.Conn}
	for {
		f, err := fr.Next(24 * time.Hour)
		if err != nil {
			c.Closed.CompareAndSwap(0, Tick())
			return
		}
		req, perr := ParseRequest(f)
		ev := &ReqEvent{Conn: c, Req: req, Raw: f, Stamp: Tick(), Time: time.Now(), Err: perr}
		c.NReq.Add(1)
		s.mu.Lock()
		s.ledger = append(s.ledger, ev)
		s.mu.Unlock()
		if s.Handler != nil {
			s.Handler(ev)
		}
	}
}

// Ledger returns a copy of all requests seen so far.
func (s *ScriptServer) Ledger() []*ReqEvent {
	s.mu.Lock()
	defer s.mu.Unlock()
	return append([]*ReqEvent(nil), s.ledger...)
}

// Conns returns all connections accepted so far.
func (s *ScriptServer) Conns() []*SConn {
	s.mu.Lock()
	defer s.mu.Unlock()
	return append([]*SConn(nil), s.conns...)
}

// CloseAllConns closes every open connection but keeps listening.
func (s *ScriptServer) CloseAllConns() {
	for _, c := range s.Conns() {
		if c.Closed.Load() == 0 {
			c.Close()
		}
	}
}

// CloseAllConnsExceptNewest closes every open connection but the most recently accepted one.
func (s *ScriptServer) CloseAllConnsExceptNewest() {
	cs := s.Conns()
	for i, c := range cs {
		if i < len(cs)-1 && c.Closed.Load() == 0 {
			c.Close()
		}
	}
}

// Stop closes the listener and all connections.
func (s *ScriptServer) Stop() {
	s.closed.Store(true)
	s.L.L.Close()
	s.CloseAllConns()
}

// Echo answers req with a success response carrying the request's buffer.
func Echo(ev *ReqEvent) []byte {
	return (&Response{Version: ev.Req.Version, PacketType: ev.Req.PacketType, RequestID: ev.Req.RequestID, Buffer: ev.Req.Buffer}).Encode()
}

// HostPort splits "127.0.0.1:port".
func HostPort(addr string) (string, string) {
	h, p, _ := net.SplitHostPort(addr)
	return h, p
}
