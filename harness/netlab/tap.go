package netlab

import (
	"math/rand"
	"net"
	"sync"
	"time"
)

// TapFrame is one frame seen by a Tap.
type TapFrame struct {
	ToServer bool
	Req      *Request
	Rsp      *Response
	Err      error
	Stamp    int64
	Len      int
}

// Tap is a frame-parsing TCP forwarder (client <-> tap <-> server): it records every request and
// response frame with its id and direction, and can re-chunk both byte streams.
type Tap struct {
	L       net.Listener
	Addr    string
	Server  string
	Rechunk bool
	mu      sync.Mutex
	frames  []TapFrame
	rng     *rand.Rand
}

// NewTap starts a tap in front of server.
func NewTap(server string, rechunk bool, seed int64) *Tap {
	l, err := net.Listen("tcp", "127.0.0.1:0")
	if err != nil {
		panic(err)
	}
	t := &Tap{L: l, Addr: l.Addr().String(), Server: server, Rechunk: rechunk, rng: rand.New(rand.NewSource(seed))}
	go t.accept()
	return t
}

func (t *Tap) accept() {
	for {
		c, err := t.L.Accept()
		if err != nil {
			return
		}
		s, err := net.DialTimeout("tcp", t.Server, 3*time.Second)
		if err != nil {
			c.Close()
			continue
		}
		go t.pipe(c, s, true)
		go t.pipe(s, c, false)
	}
}

func (t *Tap) pipe(from, to net.Conn, toServer bool) {
	defer from.Close()
	defer to.Close()
	fr := &FrameReader{Conn: from}
	for {
		f, err := fr.Next(24 * time.Hour)
		if err != nil {
			return
		}
		tf := TapFrame{ToServer: toServer, Stamp: Tick(), Len: len(f)}
		if toServer {
			tf.Req, tf.Err = ParseRequest(f)
		} else {
			tf.Rsp, tf.Err = ParseResponse(f)
		}
		t.mu.Lock()
		t.frames = append(t.frames, tf)
		var cuts []int
		if t.Rechunk && len(f) > 1 {
			n := t.rng.Intn(4)
			for i := 0; i < n; i++ {
				cuts = append(cuts, 1+t.rng.Intn(len(f)-1))
			}
		}
		t.mu.Unlock()
		if len(cuts) > 0 {
			sortInts(cuts)
			if WriteChunks(to, f, cuts, PaceYield) != nil {
				return
			}
		} else if _, err := to.Write(f); err != nil {
			return
		}
	}
}

func sortInts(v []int) {
	for i := 1; i < len(v); i++ {
		for j := i; j > 0 && v[j] < v[j-1]; j-- {
			v[j], v[j-1] = v[j-1], v[j]
		}
	}
}

// Frames returns a copy of everything seen so far.
func (t *Tap) Frames() []TapFrame {
	t.mu.Lock()
	defer t.mu.Unlock()
	return append([]TapFrame(nil), t.frames...)
}

// Close stops the tap.
func (t *Tap) Close() { t.L.Close() }
