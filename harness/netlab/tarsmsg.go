package netlab

import (
	"fmt"
	"sort"

	rc "verif/refcodec"
)

// Request is a Tars request packet as the scripted peers build / read it (independently of the
// generated requestf package: encoded and parsed with the reference codec).
type Request struct {
	Version     int16
	PacketType  int8
	MessageType int32
	RequestID   int32
	Servant     string
	Func        string
	Buffer      []byte
	Timeout     int32
	Context     map[string]string
	Status      map[string]string
}

func appendStrMap(b []byte, m map[string]string, tag int) []byte {
	b = rc.AppendHead(b, rc.TMap, tag)
	b = rc.AppendInt(b, int64(len(m)), 0)
	keys := make([]string, 0, len(m))
	for k := range m {
		keys = append(keys, k)
	}
	sort.Strings(keys)
	for _, k := range keys {
		b = rc.AppendString(b, []byte(k), 0)
		b = rc.AppendString(b, []byte(m[k]), 1)
	}
	return b
}

// Encode returns the framed request.
func (r *Request) Encode() []byte {
	var b []byte
	b = rc.AppendInt(b, int64(r.Version), 1)
	b = rc.AppendInt(b, int64(r.PacketType), 2)
	b = rc.AppendInt(b, int64(r.MessageType), 3)
	b = rc.AppendInt(b, int64(r.RequestID), 4)
	b = rc.AppendString(b, []byte(r.Servant), 5)
	b = rc.AppendString(b, []byte(r.Func), 6)
	b = rc.AppendSimpleList(b, r.Buffer, 7)
	b = rc.AppendInt(b, int64(r.Timeout), 8)
	b = appendStrMap(b, r.Context, 9)
	b = appendStrMap(b, r.Status, 10)
	return Frame(b)
}

func nodeByTag(nodes []*rc.Node, tag int) *rc.Node {
	for _, n := range nodes {
		if n.Tag == tag {
			return n
		}
	}
	return nil
}

func nodeInt(n *rc.Node) int64 {
	if n == nil {
		return 0
	}
	return n.Int
}

func nodeBytes(n *rc.Node) []byte {
	if n == nil {
		return nil
	}
	if n.Type == rc.TList {
		var b []byte
		for _, c := range n.List {
			b = append(b, byte(c.Int))
		}
		return b
	}
	return n.Bytes
}

func nodeStrMap(n *rc.Node) map[string]string {
	if n == nil || n.Type != rc.TMap {
		return nil
	}
	m := map[string]string{}
	for i := range n.Keys {
		m[string(n.Keys[i].Bytes)] = string(n.Vals[i].Bytes)
	}
	return m
}

// ParseRequest strictly parses a framed request.
func ParseRequest(frame []byte) (*Request, error) {
	if len(frame) < 4 {
		return nil, fmt.Errorf("short frame")
	}
	nodes, err := rc.ParseFields(frame[4:])
	if err != nil {
		return nil, err
	}
	for _, t := range []int{1, 2, 3, 4, 5, 6, 7, 8, 9, 10} {
		if nodeByTag(nodes, t) == nil {
			return nil, fmt.Errorf("request lacks required tag %d", t)
		}
	}
	return &Request{Version: int16(nodeInt(nodeByTag(nodes, 1))), PacketType: int8(nodeInt(nodeByTag(nodes, 2))), MessageType: int32(nodeInt(nodeByTag(nodes, 3))),
		RequestID: int32(nodeInt(nodeByTag(nodes, 4))), Servant: string(nodeByTag(nodes, 5).Bytes), Func: string(nodeByTag(nodes, 6).Bytes), Buffer: nodeBytes(nodeByTag(nodes, 7)),
		Timeout: int32(nodeInt(nodeByTag(nodes, 8))), Context: nodeStrMap(nodeByTag(nodes, 9)), Status: nodeStrMap(nodeByTag(nodes, 10))}, nil
}

// Response is a Tars response packet.
type Response struct {
	Version     int16
	PacketType  int8
	RequestID   int32
	MessageType int32
	Ret         int32
	Buffer      []byte
	Status      map[string]string
	ResultDesc  string
	Context     map[string]string
	HasDesc     bool
	HasContext  bool
}

// Encode returns the framed response.
func (r *Response) Encode() []byte {
	var b []byte
	b = rc.AppendInt(b, int64(r.Version), 1)
	b = rc.AppendInt(b, int64(r.PacketType), 2)
	b = rc.AppendInt(b, int64(r.RequestID), 3)
	b = rc.AppendInt(b, int64(r.MessageType), 4)
	b = rc.AppendInt(b, int64(r.Ret), 5)
	b = rc.AppendSimpleList(b, r.Buffer, 6)
	b = appendStrMap(b, r.Status, 7)
	if r.ResultDesc != "" || r.HasDesc {
		b = rc.AppendString(b, []byte(r.ResultDesc), 8)
	}
	if len(r.Context) > 0 || r.HasContext {
		b = appendStrMap(b, r.Context, 9)
	}
	return Frame(b)
}

// ParseResponse strictly parses a framed response packet (TARS / JSON layout).
func ParseResponse(frame []byte) (*Response, error) {
	if len(frame) < 4 {
		return nil, fmt.Errorf("short frame")
	}
	nodes, err := rc.ParseFields(frame[4:])
	if err != nil {
		return nil, err
	}
	for _, t := range []int{1, 2, 3, 4, 5, 6, 7} {
		if nodeByTag(nodes, t) == nil {
			return nil, fmt.Errorf("response lacks required tag %d", t)
		}
	}
	r := &Response{Version: int16(nodeInt(nodeByTag(nodes, 1))), PacketType: int8(nodeInt(nodeByTag(nodes, 2))), RequestID: int32(nodeInt(nodeByTag(nodes, 3))),
		MessageType: int32(nodeInt(nodeByTag(nodes, 4))), Ret: int32(nodeInt(nodeByTag(nodes, 5))), Buffer: nodeBytes(nodeByTag(nodes, 6)), Status: nodeStrMap(nodeByTag(nodes, 7))}
	if n := nodeByTag(nodes, 8); n != nil {
		r.ResultDesc, r.HasDesc = string(n.Bytes), true
	}
	if n := nodeByTag(nodes, 9); n != nil {
		r.Context, r.HasContext = nodeStrMap(n), true
	}
	return r, nil
}

// IsRequestShaped reports whether a frame has the RequestPacket layout (tag 5 is a string: the
// servant name) rather than the ResponsePacket layout (tag 5 is the integer return code).  TUP
// replies use the RequestPacket layout.
func IsRequestShaped(frame []byte) bool {
	if len(frame) < 4 {
		return false
	}
	nodes, err := rc.ParseFields(frame[4:])
	if err != nil {
		return false
	}
	n := nodeByTag(nodes, 5)
	return n != nil && (n.Type == rc.TString1 || n.Type == rc.TString4)
}
