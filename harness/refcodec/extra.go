package refcodec

import (
	"fmt"
	"math/rand"
)

// ExtraKinds names the kinds of well-formed unknown fields ExtraField can build.
var ExtraKinds = []string{"zero", "byte", "short", "int", "long", "float", "double", "string1-empty", "string1", "string1-255", "string4-256", "string4-64k",
	"map-empty", "map-str-int", "map-nested", "list-empty", "list-mixed-ints", "list-structs", "list-nested-6", "simplelist-empty", "simplelist-300",
	"struct-empty", "struct-all-kinds", "struct-nested-6", "struct-ext-tags",
	// wide rather than deep: more sibling containers than any nesting bound
	"list-1500-lists", "list-1500-maps", "list-1500-structs", "map-1500-lists",
	// elements of one list in different widths: a 0.0 written as the zero marker among floats / doubles, integers of every width
	"list-floats-with-zero", "list-doubles-with-zero", "list-ints-all-widths"}

// DeepKinds: unknown fields nested far deeper than any schema goes (N containers inside one another,
// the innermost holding a struct of every kind and a map whose value sits under tag 1, so that a
// reader that loses its place inside lands on plausible fields).
var DeepKinds = []string{"list-deep-900", "map-deep-900", "struct-deep-900", "list-deep-1200", "map-deep-1200", "struct-deep-1200", "mixed-deep-1200"}

func deepField(kind string, tag, depth int, r *rand.Rand) []byte {
	inner := ExtraField("struct-all-kinds", 0, r)
	var m []byte
	m = AppendHead(m, TMap, 1)
	m = AppendInt(m, 1, 0)
	m = AppendInt(m, 1, 0)
	m = AppendInt(m, 99, 1)
	// built inside out
	cur := inner // an element under tag 0
	for d := 0; d < depth; d++ {
		k := kind
		if kind == "mixed" {
			k = []string{"list", "map", "struct"}[d%3]
		}
		t := 0
		if d == depth-1 {
			t = tag
		}
		var b []byte
		switch k {
		case "list":
			b = AppendHead(b, TList, t)
			if d == 0 {
				b = AppendInt(b, 2, 0)
				b = append(b, cur...)
				b = append(b, Reencode(nil, mustOne(m), 0)...)
			} else {
				b = AppendInt(b, 1, 0)
				b = append(b, cur...)
			}
		case "map":
			b = AppendHead(b, TMap, t)
			b = AppendInt(b, 1, 0)
			b = AppendInt(b, int64(d), 0) // key
			b = append(b, retag(cur, 1)...)
		default:
			b = AppendHead(b, TStructBegin, t)
			b = append(b, cur...)
			if d == 0 {
				b = append(b, m...)
			}
			b = AppendHead(b, TStructEnd, 0)
		}
		cur = b
	}
	return cur
}

func mustOne(b []byte) *Node {
	n, err := ParseOne(b)
	if err != nil {
		panic(err)
	}
	return n
}

// retag returns the single field in b under another tag (the head is rewritten, the body kept).
func retag(b []byte, tag int) []byte {
	ty := int(b[0] & 0x0f)
	skip := 1
	if b[0]>>4 == 15 {
		skip = 2
	}
	return append(AppendHead(nil, ty, tag), b[skip:]...)
}

// ExtraField builds one well-formed field of the given kind under tag.
func ExtraField(kind string, tag int, r *rand.Rand) []byte {
	var b []byte
	for _, dk := range []string{"list", "map", "struct", "mixed"} {
		var depth int
		if n, _ := fmt.Sscanf(kind, dk+"-deep-%d", &depth); n == 1 {
			return deepField(dk, tag, depth, r)
		}
	}
	switch kind {
	case "list-floats-with-zero", "list-doubles-with-zero":
		b = AppendHead(b, TList, tag)
		b = AppendInt(b, 5, 0)
		for i := 0; i < 5; i++ {
			switch {
			case i == 1 || i == 3:
				b = AppendIntWidth(b, 0, TZero, 0)
			case kind == "list-floats-with-zero":
				b = AppendFloat32(b, r.Uint32(), 0)
			default:
				b = AppendFloat64(b, r.Uint64(), 0)
			}
		}
		return b
	case "list-ints-all-widths":
		b = AppendHead(b, TList, tag)
		b = AppendInt(b, 6, 0)
		for i, w := range []int{TLong, TZero, TByte, TInt, TShort, TLong} {
			b = AppendIntWidth(b, int64(i*3-4), w, 0)
		}
		return b
	case "zero":
		return AppendIntWidth(b, 0, TZero, tag)
	case "byte":
		return AppendIntWidth(b, int64(int8(r.Intn(256))), TByte, tag)
	case "short":
		return AppendIntWidth(b, int64(int16(r.Intn(65536))), TShort, tag)
	case "int":
		return AppendIntWidth(b, int64(int32(r.Uint32())), TInt, tag)
	case "long":
		return AppendIntWidth(b, int64(r.Uint64()), TLong, tag)
	case "float":
		return AppendFloat32(b, r.Uint32(), tag)
	case "double":
		return AppendFloat64(b, r.Uint64(), tag)
	case "string1-empty":
		return AppendString(b, nil, tag)
	case "string1":
		return AppendString(b, []byte("unknown \x0b\x0a field"), tag)
	case "string1-255":
		return AppendString(b, randBytes(r, 255), tag)
	case "string4-256":
		return AppendString(b, randBytes(r, 256), tag)
	case "string4-64k":
		return AppendString4(b, randBytes(r, 65536), tag)
	case "map-empty":
		b = AppendHead(b, TMap, tag)
		return AppendInt(b, 0, 0)
	case "map-str-int":
		b = AppendHead(b, TMap, tag)
		b = AppendInt(b, 3, 0)
		for i := 0; i < 3; i++ {
			b = AppendString(b, []byte{byte('a' + i)}, 0)
			b = AppendInt(b, int64(i)*40000-3, 1)
		}
		return b
	case "map-nested":
		b = AppendHead(b, TMap, tag)
		b = AppendInt(b, 2, 0)
		for i := 0; i < 2; i++ {
			b = AppendInt(b, int64(i), 0)
			b = append(b, ExtraField("list-structs", 1, r)...)
		}
		return b
	case "list-empty":
		b = AppendHead(b, TList, tag)
		return AppendInt(b, 0, 0)
	case "list-mixed-ints":
		b = AppendHead(b, TList, tag)
		vals := []int64{0, 1, 300, -1, 70000, 0, 5000000000, -129}
		b = AppendInt(b, int64(len(vals)), 0)
		for _, v := range vals {
			b = AppendInt(b, v, 0)
		}
		return b
	case "list-structs":
		b = AppendHead(b, TList, tag)
		b = AppendInt(b, 2, 0)
		for i := 0; i < 2; i++ {
			b = append(b, ExtraField("struct-all-kinds", 0, r)...)
		}
		return b
	case "list-nested-6":
		return nestedList(tag, 6)
	case "simplelist-empty":
		return AppendSimpleList(b, nil, tag)
	case "simplelist-300":
		// content full of bytes that look like heads (StructEnd, StructBegin, List ...)
		d := make([]byte, 300)
		for i := range d {
			d[i] = []byte{0x0b, 0x0a, 0x09, 0x08, 0xff, 0x0d}[i%6]
		}
		return AppendSimpleList(b, d, tag)
	case "struct-empty":
		b = AppendHead(b, TStructBegin, tag)
		return AppendHead(b, TStructEnd, 0)
	case "struct-all-kinds":
		b = AppendHead(b, TStructBegin, tag)
		t := 0
		for _, k := range []string{"zero", "byte", "short", "int", "long", "float", "double", "string1", "string4-256", "map-str-int", "list-mixed-ints", "simplelist-300", "struct-empty"} {
			b = append(b, ExtraField(k, t, r)...)
			t++
		}
		return AppendHead(b, TStructEnd, 0)
	case "struct-nested-6":
		return nestedStruct(tag, 6)
	case "list-1500-lists", "list-1500-maps", "list-1500-structs":
		b = AppendHead(b, TList, tag)
		b = AppendInt(b, 1500, 0)
		for i := 0; i < 1500; i++ {
			switch kind {
			case "list-1500-lists":
				b = AppendHead(b, TList, 0)
				b = AppendInt(b, 1, 0)
				b = AppendInt(b, int64(i), 0)
			case "list-1500-maps":
				b = AppendHead(b, TMap, 0)
				b = AppendInt(b, 1, 0)
				b = AppendInt(b, int64(i), 0)
				b = AppendString(b, []byte("v"), 1)
			default:
				b = AppendHead(b, TStructBegin, 0)
				b = AppendInt(b, int64(i), 0)
				b = AppendHead(b, TStructEnd, 0)
			}
		}
		return b
	case "map-1500-lists":
		b = AppendHead(b, TMap, tag)
		b = AppendInt(b, 1500, 0)
		for i := 0; i < 1500; i++ {
			b = AppendInt(b, int64(i), 0)
			b = AppendHead(b, TList, 1)
			b = AppendInt(b, 2, 0)
			b = AppendInt(b, 7, 0)
			b = AppendInt(b, 70000, 0)
		}
		return b
	case "struct-ext-tags":
		b = AppendHead(b, TStructBegin, tag)
		for _, t := range []int{14, 15, 16, 200, 255} {
			b = AppendInt(b, int64(t)*1000, t)
		}
		// StructEnd written with an extended tag is still a StructEnd
		return AppendHead(b, TStructEnd, 0)
	}
	panic("unknown extra kind " + kind)
}

func randBytes(r *rand.Rand, n int) []byte {
	b := make([]byte, n)
	r.Read(b)
	return b
}

func nestedList(tag, depth int) []byte {
	var b []byte
	b = AppendHead(b, TList, tag)
	if depth == 0 {
		return AppendInt(b, 0, 0)
	}
	b = AppendInt(b, 2, 0)
	b = append(b, nestedList(0, depth-1)...)
	return append(b, nestedList(0, depth-1)...)
}

func nestedStruct(tag, depth int) []byte {
	var b []byte
	b = AppendHead(b, TStructBegin, tag)
	b = AppendInt(b, int64(depth), 0)
	if depth > 0 {
		b = append(b, nestedStruct(3, depth-1)...)
		b = AppendString(b, []byte("x"), 9)
	}
	return AppendHead(b, TStructEnd, 0)
}

// EncodeSpliced re-encodes a parsed field sequence, calling extras for every struct level:
// extras(path, i, n) returns bytes to insert before field i (i == n: after the last field) of the
// struct at path (path "" is the top level; nested structs are addressed as ".tag", list elements
// as "[k]", map values as "{k}").
func EncodeSpliced(nodes []*Node, path string, extras func(path string, i, n int, prevTag, nextTag int) []byte) []byte {
	var b []byte
	prev := -1
	for i, n := range nodes {
		if x := extras(path, i, len(nodes), prev, n.Tag); x != nil {
			b = append(b, x...)
		}
		b = spliceNode(b, n, n.Tag, pathJoin(path, n.Tag), extras)
		prev = n.Tag
	}
	if x := extras(path, len(nodes), len(nodes), prev, 256); x != nil {
		b = append(b, x...)
	}
	return b
}

func pathJoin(p string, tag int) string {
	return p + "." + itoa(tag)
}

func itoa(i int) string {
	if i == 0 {
		return "0"
	}
	var d []byte
	for i > 0 {
		d = append([]byte{byte('0' + i%10)}, d...)
		i /= 10
	}
	return string(d)
}

func spliceNode(b []byte, n *Node, tag int, path string, extras func(string, int, int, int, int) []byte) []byte {
	switch n.Type {
	case TStructBegin:
		b = AppendHead(b, TStructBegin, tag)
		b = append(b, EncodeSpliced(n.Sub, path, extras)...)
		return AppendHead(b, TStructEnd, 0)
	case TList:
		b = AppendHead(b, TList, tag)
		b = AppendInt(b, int64(len(n.List)), 0)
		for k, c := range n.List {
			b = spliceNode(b, c, c.Tag, path+"["+itoa(k)+"]", extras)
		}
		return b
	case TMap:
		b = AppendHead(b, TMap, tag)
		b = AppendInt(b, int64(len(n.Keys)), 0)
		for k := range n.Keys {
			b = Reencode(b, n.Keys[k], n.Keys[k].Tag)
			b = spliceNode(b, n.Vals[k], n.Vals[k].Tag, path+"{"+itoa(k)+"}", extras)
		}
		return b
	}
	return Reencode(b, n, tag)
}
