package refcodec

import (
	"bytes"
	"fmt"
	"math"
	"sort"
)

type Kind int

const (
	KBool Kind = iota
	KInt8
	KUint8
	KInt16
	KUint16
	KInt32
	KUint32
	KInt64
	KFloat
	KDouble
	KString
	KVector
	KMap
	KStruct
	KArray
)

var kindNames = []string{"bool", "int8", "uint8", "int16", "uint16", "int32", "uint32", "int64", "float", "double", "string", "vector", "map", "struct", "array"}

func (k Kind) String() string { return kindNames[k] }

// Type is a schema type.  Enums are KInt32.  vector<byte> (signed) is KVector of KInt8 and is the
// only type with the SimpleList form.
type Type struct {
	Kind Kind
	Elem *Type   // vector / array element, map value
	Key  *Type   // map key
	St   *Struct // struct
	Len  int     // array length
}

func (t *Type) String() string {
	switch t.Kind {
	case KVector:
		return "vector<" + t.Elem.String() + ">"
	case KArray:
		return fmt.Sprintf("%s[%d]", t.Elem.String(), t.Len)
	case KMap:
		return "map<" + t.Key.String() + "," + t.Elem.String() + ">"
	case KStruct:
		return t.St.Name
	}
	return t.Kind.String()
}

type Field struct {
	Name       string
	Tag        int
	Require    bool
	T          *Type
	HasDefault bool
	Default    *Value
}

type Struct struct {
	Name   string
	Fields []*Field // ascending tag
}

func (s *Struct) Field(tag int) *Field {
	for _, f := range s.Fields {
		if f.Tag == tag {
			return f
		}
	}
	return nil
}

// Value is a schema-typed value.
type Value struct {
	I  int64          // bool (0/1) and every integer kind, as its numeric value
	F  uint64         // float bits (KFloat: 32 significant bits) / double bits
	S  []byte         // string; vector<int8>/array of int8 content
	L  []*Value       // vector / array elements (not for int8 elements)
	MK []*Value       // map keys
	MV []*Value       // map values
	Fs map[int]*Value // struct: tag -> value (every schema field present)
}

func IsByteSeq(t *Type) bool {
	return (t.Kind == KVector || t.Kind == KArray) && t.Elem.Kind == KInt8
}

// GoZero is the all-zero value of t (what an untouched Go variable holds).
func GoZero(t *Type) *Value {
	switch t.Kind {
	case KStruct:
		v := &Value{Fs: map[int]*Value{}}
		for _, f := range t.St.Fields {
			v.Fs[f.Tag] = GoZero(f.T)
		}
		return v
	case KArray:
		v := &Value{}
		if IsByteSeq(t) {
			v.S = make([]byte, t.Len)
			return v
		}
		for i := 0; i < t.Len; i++ {
			v.L = append(v.L, GoZero(t.Elem))
		}
		return v
	}
	return &Value{}
}

// DefaultOf is the value an absent field takes: its explicit default, the defaults of a nested
// struct, otherwise zero.
func DefaultOf(f *Field) *Value {
	if f.HasDefault {
		return f.Default
	}
	if f.T.Kind == KStruct {
		return StructDefault(f.T.St)
	}
	return GoZero(f.T)
}

func StructDefault(s *Struct) *Value {
	v := &Value{Fs: map[int]*Value{}}
	for _, f := range s.Fields {
		v.Fs[f.Tag] = DefaultOf(f)
	}
	return v
}

func intRange(k Kind) (lo, hi int64) {
	switch k {
	case KBool:
		return 0, 1
	case KInt8:
		return -128, 127
	case KUint8:
		return 0, 255
	case KInt16:
		return -32768, 32767
	case KUint16:
		return 0, 65535
	case KInt32:
		return -2147483648, 2147483647
	case KUint32:
		return 0, 4294967295
	}
	return -9223372036854775808, 9223372036854775807
}

// maxWire returns the widest admissible integer wire type for an integer kind.
func maxWire(k Kind) int {
	switch k {
	case KBool, KInt8:
		return TByte
	case KUint8, KInt16:
		return TShort
	case KUint16, KInt32:
		return TInt
	}
	return TLong
}

// Admissible reports whether wire type w may carry schema type t.
func Admissible(t *Type, w int) bool {
	switch t.Kind {
	case KBool, KInt8, KUint8, KInt16, KUint16, KInt32, KUint32, KInt64:
		if w == TZero {
			return true
		}
		return w >= TByte && w <= maxWire(t.Kind)
	case KFloat:
		return w == TZero || w == TFloat
	case KDouble:
		return w == TZero || w == TFloat || w == TDouble
	case KString:
		return w == TString1 || w == TString4
	case KVector, KArray:
		if w == TList {
			return true
		}
		return w == TSimpleList && (t.Elem.Kind == KInt8 || t.Elem.Kind == KUint8)
	case KMap:
		return w == TMap
	case KStruct:
		return w == TStructBegin
	}
	return false
}

// ---------- decoding ----------

// DecodeError is returned by the reference decoder for input it rejects.
type DecodeError struct {
	Msg     string
	Pairing bool
}

func (e *DecodeError) Error() string { return e.Msg }

func derr(f string, a ...interface{}) error {
	e := &DecodeError{Msg: fmt.Sprintf(f, a...)}
	for _, x := range a {
		if in, ok := x.(*DecodeError); ok && in.Pairing {
			e.Pairing = true
		}
	}
	return e
}

// derrPair reports an element or map entry whose tags are not the canonical 0 / 0,1.  The format's
// sequential reading rule (a reader looking for tag t skips fields with smaller tags) lets a
// tolerant reader take such content differently from the positional pairing of the generic parser,
// so callers may treat it as "well-formed, but not determined by this reference".
func derrPair(f string, a ...interface{}) error {
	return &DecodeError{Msg: fmt.Sprintf(f, a...), Pairing: true}
}

// DecodeStruct decodes b (a field sequence up to the end of input, as written by WriteTo) by
// schema s.  Unknown tags are ignored; fields are looked up with the format's sequential
// ascending-tag rule.
func DecodeStruct(s *Struct, b []byte) (*Value, error) {
	nodes, err := ParseFields(b)
	if err != nil {
		return nil, err
	}
	return DecodeNodes(s, nodes)
}

// DecodeNodes applies the schema to an already parsed field sequence.
func DecodeNodes(s *Struct, nodes []*Node) (*Value, error) {
	v := &Value{Fs: map[int]*Value{}}
	i := 0
	for _, f := range s.Fields {
		for i < len(nodes) && nodes[i].Tag < f.Tag {
			i++
		}
		if i < len(nodes) && nodes[i].Tag == f.Tag {
			fv, err := DecodeNode(f.T, nodes[i])
			if err != nil {
				return nil, derr("%s.%s (tag %d): %v", s.Name, f.Name, f.Tag, err)
			}
			v.Fs[f.Tag] = fv
			i++
			continue
		}
		if f.Require {
			return nil, derr("%s.%s (tag %d): required field absent", s.Name, f.Name, f.Tag)
		}
		v.Fs[f.Tag] = DefaultOf(f)
	}
	return v, nil
}

// DecodeNode decodes one parsed field by type t.
func DecodeNode(t *Type, n *Node) (*Value, error) {
	if !Admissible(t, n.Type) {
		return nil, derr("wire type %s not admissible for %s", TypeName(n.Type), t)
	}
	switch t.Kind {
	case KBool:
		if n.Int != 0 {
			return &Value{I: 1}, nil
		}
		return &Value{I: 0}, nil
	case KInt8, KUint8, KInt16, KUint16, KInt32, KUint32, KInt64:
		lo, hi := intRange(t.Kind)
		if n.Int < lo || n.Int > hi {
			return nil, derr("value %d out of range for %s", n.Int, t)
		}
		return &Value{I: n.Int}, nil
	case KFloat:
		return &Value{F: n.Bits}, nil
	case KDouble:
		if n.Type == TFloat {
			return &Value{F: f32to64bits(uint32(n.Bits))}, nil
		}
		return &Value{F: n.Bits}, nil
	case KString:
		return &Value{S: n.Bytes}, nil
	case KStruct:
		return DecodeNodes(t.St, n.Sub)
	case KMap:
		v := &Value{}
		for i := range n.Keys {
			if n.Keys[i].Tag != 0 || n.Vals[i].Tag != 1 {
				return nil, derrPair("map entry %d has tags %d/%d, want 0/1", i, n.Keys[i].Tag, n.Vals[i].Tag)
			}
			k, err := DecodeNode(t.Key, n.Keys[i])
			if err != nil {
				return nil, err
			}
			e, err := DecodeNode(t.Elem, n.Vals[i])
			if err != nil {
				return nil, err
			}
			// later duplicates win, like a map insert
			dup := false
			for j := range v.MK {
				if Equal(t.Key, v.MK[j], k) {
					v.MV[j] = e
					dup = true
				}
			}
			if !dup {
				v.MK = append(v.MK, k)
				v.MV = append(v.MV, e)
			}
		}
		return v, nil
	case KVector, KArray:
		v := &Value{}
		if n.Type == TSimpleList {
			if t.Elem.Kind == KInt8 {
				v.S = n.Bytes
			} else {
				for _, c := range n.Bytes {
					v.L = append(v.L, &Value{I: int64(c)})
				}
			}
		} else {
			for i, c := range n.List {
				if c.Tag != 0 {
					return nil, derrPair("list element %d has tag %d, want 0", i, c.Tag)
				}
				e, err := DecodeNode(t.Elem, c)
				if err != nil {
					return nil, err
				}
				if t.Elem.Kind == KInt8 {
					v.S = append(v.S, byte(e.I))
				} else {
					v.L = append(v.L, e)
				}
			}
		}
		if t.Kind == KArray {
			n := len(v.L)
			if t.Elem.Kind == KInt8 {
				n = len(v.S)
			}
			if n > t.Len {
				return nil, derr("array of %d holds %d elements", t.Len, n)
			}
			// a shorter list leaves the remaining elements zero
			for ; n < t.Len; n++ {
				if t.Elem.Kind == KInt8 {
					v.S = append(v.S, 0)
				} else {
					v.L = append(v.L, GoZero(t.Elem))
				}
			}
		}
		return v, nil
	}
	return nil, derr("unsupported kind")
}

// ---------- canonical form ----------

// CheckCanonical verifies that the parsed field sequence is the canonical encoding shape for
// schema s: only schema tags, strictly ascending, admissible type, required present, integers in
// their narrowest width, String1 for <=255 bytes, element/key/value tags 0/0/1, SimpleList for
// vector<int8>.
func CheckCanonical(s *Struct, nodes []*Node) error {
	last := -1
	seen := map[int]bool{}
	for _, n := range nodes {
		if n.Tag <= last {
			return fmt.Errorf("%s: tag %d after tag %d (not strictly ascending)", s.Name, n.Tag, last)
		}
		last = n.Tag
		f := s.Field(n.Tag)
		if f == nil {
			return fmt.Errorf("%s: tag %d is not in the schema", s.Name, n.Tag)
		}
		seen[n.Tag] = true
		if err := checkCanonNode(f.T, n); err != nil {
			return fmt.Errorf("%s.%s: %v", s.Name, f.Name, err)
		}
	}
	for _, f := range s.Fields {
		if f.Require && !seen[f.Tag] {
			return fmt.Errorf("%s.%s: required member (tag %d) not written", s.Name, f.Name, f.Tag)
		}
	}
	return nil
}

func checkCanonNode(t *Type, n *Node) error {
	if !Admissible(t, n.Type) {
		return fmt.Errorf("wire type %s not admissible for %s", TypeName(n.Type), t)
	}
	switch n.Type {
	case TByte, TShort, TInt, TLong, TZero:
		if NarrowestInt(n.Int) != n.Type {
			return fmt.Errorf("integer %d written as %s, narrowest is %s", n.Int, TypeName(n.Type), TypeName(NarrowestInt(n.Int)))
		}
		lo, hi := intRange(t.Kind)
		if t.Kind != KFloat && t.Kind != KDouble && (n.Int < lo || n.Int > hi) {
			return fmt.Errorf("integer %d out of range of %s", n.Int, t)
		}
		if (t.Kind == KFloat || t.Kind == KDouble) && n.Type != TZero {
			return fmt.Errorf("float carried by integer type")
		}
	case TFloat:
		if t.Kind == KDouble {
			return fmt.Errorf("double written as Float")
		}
	case TString1:
	case TString4:
		if len(n.Bytes) <= 255 {
			return fmt.Errorf("string of %d bytes written as String4", len(n.Bytes))
		}
	case TStructBegin:
		return CheckCanonical(t.St, n.Sub)
	case TSimpleList:
		if t.Elem.Kind != KInt8 {
			return fmt.Errorf("SimpleList for element type %s", t.Elem)
		}
		if t.Kind == KArray && len(n.Bytes) != t.Len {
			return fmt.Errorf("array of %d written with %d elements", t.Len, len(n.Bytes))
		}
	case TList:
		if t.Elem.Kind == KInt8 {
			return fmt.Errorf("vector<byte> written as List, not SimpleList")
		}
		if t.Kind == KArray && len(n.List) != t.Len {
			return fmt.Errorf("array of %d written with %d elements", t.Len, len(n.List))
		}
		for i, c := range n.List {
			if c.Tag != 0 {
				return fmt.Errorf("list element %d tagged %d", i, c.Tag)
			}
			if err := checkCanonNode(t.Elem, c); err != nil {
				return fmt.Errorf("[%d]: %v", i, err)
			}
		}
	case TMap:
		for i := range n.Keys {
			if n.Keys[i].Tag != 0 || n.Vals[i].Tag != 1 {
				return fmt.Errorf("map entry %d tagged %d/%d", i, n.Keys[i].Tag, n.Vals[i].Tag)
			}
			if err := checkCanonNode(t.Key, n.Keys[i]); err != nil {
				return fmt.Errorf("key %d: %v", i, err)
			}
			if err := checkCanonNode(t.Elem, n.Vals[i]); err != nil {
				return fmt.Errorf("value %d: %v", i, err)
			}
		}
	}
	return nil
}

// ---------- encoding ----------

// EncOpt controls the reference encoder.
type EncOpt struct {
	OmitDefaults bool // leave out optional members equal to their default / empty containers
}

// EncodeStruct encodes v by schema s as a bare field sequence (no Begin/End).
func EncodeStruct(b []byte, s *Struct, v *Value, o EncOpt) []byte {
	for _, f := range s.Fields {
		fv := v.Fs[f.Tag]
		if fv == nil {
			fv = DefaultOf(f)
		}
		if !f.Require && o.OmitDefaults && f.T.Kind != KStruct {
			switch f.T.Kind {
			case KVector, KMap:
				if len(fv.L) == 0 && len(fv.S) == 0 && len(fv.MK) == 0 {
					continue
				}
			case KArray:
			default:
				if Equal(f.T, fv, DefaultOf(f)) {
					continue
				}
			}
		}
		b = EncodeValue(b, f.T, fv, f.Tag, o)
	}
	return b
}

// EncodeValue encodes one value canonically under tag.
func EncodeValue(b []byte, t *Type, v *Value, tag int, o EncOpt) []byte {
	switch t.Kind {
	case KBool, KInt8, KUint8, KInt16, KUint16, KInt32, KUint32, KInt64:
		return AppendInt(b, v.I, tag)
	case KFloat:
		return AppendFloat32(b, uint32(v.F), tag)
	case KDouble:
		return AppendFloat64(b, v.F, tag)
	case KString:
		return AppendString(b, v.S, tag)
	case KStruct:
		b = AppendHead(b, TStructBegin, tag)
		b = EncodeStruct(b, t.St, v, o)
		return AppendHead(b, TStructEnd, 0)
	case KMap:
		b = AppendHead(b, TMap, tag)
		b = AppendInt(b, int64(len(v.MK)), 0)
		for i := range v.MK {
			b = EncodeValue(b, t.Key, v.MK[i], 0, o)
			b = EncodeValue(b, t.Elem, v.MV[i], 1, o)
		}
		return b
	case KVector, KArray:
		if t.Elem.Kind == KInt8 {
			return AppendSimpleList(b, v.S, tag)
		}
		b = AppendHead(b, TList, tag)
		b = AppendInt(b, int64(len(v.L)), 0)
		for _, e := range v.L {
			b = EncodeValue(b, t.Elem, e, 0, o)
		}
		return b
	}
	panic("EncodeValue: bad kind")
}

// ---------- equality / rendering ----------

// Equal compares two values of type t: nil and empty containers are identified, floats compare
// bitwise, maps compare as sets of entries.
func Equal(t *Type, a, b *Value) bool {
	return Diff(t, a, b, "") == ""
}

// Diff returns "" when equal, otherwise the path and description of the first difference.
func Diff(t *Type, a, b *Value, path string) string {
	if a == nil || b == nil {
		if a == b {
			return ""
		}
		return path + ": nil vs non-nil"
	}
	switch t.Kind {
	case KBool, KInt8, KUint8, KInt16, KUint16, KInt32, KUint32, KInt64:
		if a.I != b.I {
			return fmt.Sprintf("%s: %d != %d", path, a.I, b.I)
		}
	case KFloat, KDouble:
		if a.F != b.F {
			return fmt.Sprintf("%s: float bits %#x != %#x", path, a.F, b.F)
		}
	case KString:
		if !bytes.Equal(a.S, b.S) {
			return fmt.Sprintf("%s: string(len %d) %q != string(len %d) %q", path, len(a.S), clip(a.S), len(b.S), clip(b.S))
		}
	case KStruct:
		for _, f := range t.St.Fields {
			if d := Diff(f.T, a.Fs[f.Tag], b.Fs[f.Tag], path+"."+f.Name); d != "" {
				return d
			}
		}
	case KVector, KArray:
		if t.Elem.Kind == KInt8 {
			if !bytes.Equal(a.S, b.S) {
				return fmt.Sprintf("%s: bytes(len %d) %x != bytes(len %d) %x", path, len(a.S), clip(a.S), len(b.S), clip(b.S))
			}
			return ""
		}
		if len(a.L) != len(b.L) {
			return fmt.Sprintf("%s: length %d != %d", path, len(a.L), len(b.L))
		}
		for i := range a.L {
			if d := Diff(t.Elem, a.L[i], b.L[i], fmt.Sprintf("%s[%d]", path, i)); d != "" {
				return d
			}
		}
	case KMap:
		if len(a.MK) != len(b.MK) {
			return fmt.Sprintf("%s: map size %d != %d", path, len(a.MK), len(b.MK))
		}
		ea, eb := mapEntries(t, a), mapEntries(t, b)
		for i := range ea {
			if ea[i].k != eb[i].k {
				return fmt.Sprintf("%s: map key sets differ (key enc %x vs %x)", path, clip([]byte(ea[i].k)), clip([]byte(eb[i].k)))
			}
			if d := Diff(t.Elem, ea[i].v, eb[i].v, fmt.Sprintf("%s[key %x]", path, clip([]byte(ea[i].k)))); d != "" {
				return d
			}
		}
	}
	return ""
}

type mapEntry struct {
	k string
	v *Value
}

func mapEntries(t *Type, m *Value) []mapEntry {
	es := make([]mapEntry, len(m.MK))
	for i := range m.MK {
		es[i] = mapEntry{string(EncodeValue(nil, t.Key, m.MK[i], 0, EncOpt{})), m.MV[i]}
	}
	sort.Slice(es, func(i, j int) bool { return es[i].k < es[j].k })
	return es
}

func clip(b []byte) []byte {
	if len(b) > 24 {
		return b[:24]
	}
	return b
}

// Render gives a compact human-readable form of a value (for evidence samples and witnesses).
func Render(t *Type, v *Value) string {
	var sb bytes.Buffer
	render(&sb, t, v, 0)
	s := sb.String()
	if len(s) > 600 {
		s = s[:600] + "…"
	}
	return s
}

func render(sb *bytes.Buffer, t *Type, v *Value, depth int) {
	if v == nil {
		sb.WriteString("<nil>")
		return
	}
	if sb.Len() > 700 {
		return
	}
	switch t.Kind {
	case KBool, KInt8, KUint8, KInt16, KUint16, KInt32, KUint32, KInt64:
		fmt.Fprintf(sb, "%d", v.I)
	case KFloat, KDouble:
		fmt.Fprintf(sb, "f%#x", v.F)
	case KString:
		fmt.Fprintf(sb, "%q", clip(v.S))
		if len(v.S) > 24 {
			fmt.Fprintf(sb, "(len %d)", len(v.S))
		}
	case KStruct:
		sb.WriteString(t.St.Name + "{")
		for i, f := range t.St.Fields {
			if i > 0 {
				sb.WriteString(",")
			}
			fmt.Fprintf(sb, "%d:", f.Tag)
			render(sb, f.T, v.Fs[f.Tag], depth+1)
		}
		sb.WriteString("}")
	case KVector, KArray:
		if t.Elem.Kind == KInt8 {
			fmt.Fprintf(sb, "bytes(%d)%x", len(v.S), clip(v.S))
			return
		}
		sb.WriteString("[")
		for i, e := range v.L {
			if i > 0 {
				sb.WriteString(",")
			}
			if i >= 6 {
				fmt.Fprintf(sb, "…(%d)", len(v.L))
				break
			}
			render(sb, t.Elem, e, depth+1)
		}
		sb.WriteString("]")
	case KMap:
		sb.WriteString("{")
		for i := range v.MK {
			if i > 0 {
				sb.WriteString(",")
			}
			if i >= 6 {
				fmt.Fprintf(sb, "…(%d)", len(v.MK))
				break
			}
			render(sb, t.Key, v.MK[i], depth+1)
			sb.WriteString(":")
			render(sb, t.Elem, v.MV[i], depth+1)
		}
		sb.WriteString("}")
	}
}

func f32to64bits(b uint32) uint64 {
	return math.Float64bits(float64(math.Float32frombits(b)))
}
