// Package refcodec is an independent reference implementation of the Tars TLV wire format,
// written from the protocol description (not from tars/protocol/codec).  It provides a strict
// bounds-checked parser of arbitrary field sequences (wire.go), a schema and value model with a
// strict schema-directed decoder and a canonical encoder (schema.go), and helpers to build
// arbitrary well-formed and deliberately damaged encodings.
package refcodec

import (
	"encoding/binary"
	"errors"
	"fmt"
)

// Wire types.
const (
	TByte        = 0
	TShort       = 1
	TInt         = 2
	TLong        = 3
	TFloat       = 4
	TDouble      = 5
	TString1     = 6
	TString4     = 7
	TMap         = 8
	TList        = 9
	TStructBegin = 10
	TStructEnd   = 11
	TZero        = 12
	TSimpleList  = 13
)

var TypeNames = []string{"Byte", "Short", "Int", "Long", "Float", "Double", "String1", "String4", "Map", "List", "StructBegin", "StructEnd", "Zero", "SimpleList"}

func TypeName(t int) string {
	if t >= 0 && t < len(TypeNames) {
		return TypeNames[t]
	}
	return fmt.Sprintf("Invalid(%d)", t)
}

// MaxDepth bounds the nesting the strict parser accepts.
const MaxDepth = 2000

// Node is one parsed field.
type Node struct {
	Tag   int
	Type  int
	Int   int64   // Byte/Short/Int/Long (sign extended), Zero => 0
	Bits  uint64  // Float (32 bits) / Double (64 bits)
	Bytes []byte  // String1/String4 content, SimpleList content
	List  []*Node // List elements
	Keys  []*Node // Map keys
	Vals  []*Node // Map values
	Sub   []*Node // Struct fields (without the StructEnd)
	Start int     // offset of the head byte
	End   int     // offset one past the last byte of the field
	// LenPos/LenEnd: position of the embedded length (String1/String4: raw length bytes;
	// List/Map/SimpleList: the integer field holding the length), -1 if none.
	LenPos, LenEnd int
}

var (
	ErrTruncated = errors.New("refcodec: truncated")
	ErrDepth     = errors.New("refcodec: nesting too deep")
)

type parser struct {
	b   []byte
	pos int
}

func (p *parser) head() (ty, tag int, err error) {
	if p.pos >= len(p.b) {
		return 0, 0, ErrTruncated
	}
	h := p.b[p.pos]
	p.pos++
	ty = int(h & 0x0f)
	tag = int(h >> 4)
	if tag == 15 {
		if p.pos >= len(p.b) {
			return 0, 0, ErrTruncated
		}
		tag = int(p.b[p.pos])
		p.pos++
	}
	return
}

func (p *parser) need(n int) error {
	if n < 0 || len(p.b)-p.pos < n {
		return ErrTruncated
	}
	return nil
}

// intField parses an integer field (used for lengths); returns value.
func (p *parser) intField(depth int) (*Node, error) {
	n, err := p.field(depth)
	if err != nil {
		return nil, err
	}
	switch n.Type {
	case TByte, TShort, TInt, TLong, TZero:
		return n, nil
	}
	return nil, fmt.Errorf("refcodec: length field has wire type %s at %d", TypeName(n.Type), n.Start)
}

func (p *parser) field(depth int) (*Node, error) {
	if depth > MaxDepth {
		return nil, ErrDepth
	}
	start := p.pos
	ty, tag, err := p.head()
	if err != nil {
		return nil, err
	}
	n := &Node{Tag: tag, Type: ty, Start: start, LenPos: -1, LenEnd: -1}
	switch ty {
	case TByte:
		if err := p.need(1); err != nil {
			return nil, err
		}
		n.Int = int64(int8(p.b[p.pos]))
		p.pos++
	case TShort:
		if err := p.need(2); err != nil {
			return nil, err
		}
		n.Int = int64(int16(binary.BigEndian.Uint16(p.b[p.pos:])))
		p.pos += 2
	case TInt:
		if err := p.need(4); err != nil {
			return nil, err
		}
		n.Int = int64(int32(binary.BigEndian.Uint32(p.b[p.pos:])))
		p.pos += 4
	case TLong:
		if err := p.need(8); err != nil {
			return nil, err
		}
		n.Int = int64(binary.BigEndian.Uint64(p.b[p.pos:]))
		p.pos += 8
	case TFloat:
		if err := p.need(4); err != nil {
			return nil, err
		}
		n.Bits = uint64(binary.BigEndian.Uint32(p.b[p.pos:]))
		p.pos += 4
	case TDouble:
		if err := p.need(8); err != nil {
			return nil, err
		}
		n.Bits = binary.BigEndian.Uint64(p.b[p.pos:])
		p.pos += 8
	case TString1:
		if err := p.need(1); err != nil {
			return nil, err
		}
		n.LenPos, n.LenEnd = p.pos, p.pos+1
		l := int(p.b[p.pos])
		p.pos++
		if err := p.need(l); err != nil {
			return nil, err
		}
		n.Bytes = p.b[p.pos : p.pos+l]
		p.pos += l
	case TString4:
		if err := p.need(4); err != nil {
			return nil, err
		}
		n.LenPos, n.LenEnd = p.pos, p.pos+4
		l64 := int64(binary.BigEndian.Uint32(p.b[p.pos:]))
		p.pos += 4
		if l64 > int64(len(p.b)-p.pos) {
			return nil, ErrTruncated
		}
		l := int(l64)
		n.Bytes = p.b[p.pos : p.pos+l]
		p.pos += l
	case TZero:
	case TStructEnd:
		return nil, fmt.Errorf("refcodec: stray StructEnd at %d", start)
	case TStructBegin:
		for {
			if p.pos >= len(p.b) {
				return nil, ErrTruncated
			}
			if p.b[p.pos]&0x0f == TStructEnd {
				// the tag of a StructEnd head is ignored, but an extended tag byte must be consumed
				if _, _, err := p.head(); err != nil {
					return nil, err
				}
				break
			}
			c, err := p.field(depth + 1)
			if err != nil {
				return nil, err
			}
			n.Sub = append(n.Sub, c)
		}
	case TList:
		ln, err := p.intField(depth + 1)
		if err != nil {
			return nil, err
		}
		n.LenPos, n.LenEnd = ln.Start, ln.End
		if ln.Int < 0 || ln.Int > int64(len(p.b)-p.pos) {
			// every element takes at least one byte
			return nil, fmt.Errorf("refcodec: list length %d exceeds remaining input: %w", ln.Int, ErrTruncated)
		}
		for i := int64(0); i < ln.Int; i++ {
			c, err := p.field(depth + 1)
			if err != nil {
				return nil, err
			}
			n.List = append(n.List, c)
		}
	case TMap:
		ln, err := p.intField(depth + 1)
		if err != nil {
			return nil, err
		}
		n.LenPos, n.LenEnd = ln.Start, ln.End
		if ln.Int < 0 || ln.Int*2 > int64(len(p.b)-p.pos) {
			return nil, fmt.Errorf("refcodec: map length %d exceeds remaining input: %w", ln.Int, ErrTruncated)
		}
		for i := int64(0); i < ln.Int; i++ {
			k, err := p.field(depth + 1)
			if err != nil {
				return nil, err
			}
			v, err := p.field(depth + 1)
			if err != nil {
				return nil, err
			}
			n.Keys = append(n.Keys, k)
			n.Vals = append(n.Vals, v)
		}
	case TSimpleList:
		ety, _, err := p.head()
		if err != nil {
			return nil, err
		}
		if ety != TByte {
			return nil, fmt.Errorf("refcodec: simple list of wire type %s at %d", TypeName(ety), start)
		}
		ln, err := p.intField(depth + 1)
		if err != nil {
			return nil, err
		}
		n.LenPos, n.LenEnd = ln.Start, ln.End
		if ln.Int < 0 || ln.Int > int64(len(p.b)-p.pos) {
			return nil, fmt.Errorf("refcodec: simple list length %d exceeds remaining input: %w", ln.Int, ErrTruncated)
		}
		n.Bytes = p.b[p.pos : p.pos+int(ln.Int)]
		p.pos += int(ln.Int)
	default:
		return nil, fmt.Errorf("refcodec: invalid wire type %d at %d", ty, start)
	}
	n.End = p.pos
	return n, nil
}

// ParseFields strictly parses b as a sequence of fields up to the end of b (the content of a
// struct without its Begin/End, i.e. what WriteTo produces).
func ParseFields(b []byte) ([]*Node, error) {
	p := &parser{b: b}
	var out []*Node
	for p.pos < len(b) {
		n, err := p.field(0)
		if err != nil {
			return out, err
		}
		out = append(out, n)
	}
	return out, nil
}

// ParseFieldsPrefix parses as many complete top-level fields as b holds and returns them with the
// offset at which parsing stopped and the error that stopped it (nil at a clean end).
func ParseFieldsPrefix(b []byte) ([]*Node, int, error) {
	p := &parser{b: b}
	var out []*Node
	for p.pos < len(b) {
		save := p.pos
		n, err := p.field(0)
		if err != nil {
			return out, save, err
		}
		out = append(out, n)
	}
	return out, p.pos, nil
}

// ParseOne parses exactly one field at the start of b.
func ParseOne(b []byte) (*Node, error) {
	p := &parser{b: b}
	return p.field(0)
}

// ---------- raw builders (for reference encodings and extra/unknown fields) ----------

func AppendHead(b []byte, ty, tag int) []byte {
	if tag < 15 {
		return append(b, byte(tag<<4|ty))
	}
	return append(b, byte(0xF0|ty), byte(tag))
}

// AppendIntWidth appends v under tag in the given wire width (TZero, TByte, TShort, TInt, TLong);
// the caller guarantees v fits.
func AppendIntWidth(b []byte, v int64, ty, tag int) []byte {
	b = AppendHead(b, ty, tag)
	switch ty {
	case TZero:
	case TByte:
		b = append(b, byte(v))
	case TShort:
		b = binary.BigEndian.AppendUint16(b, uint16(v))
	case TInt:
		b = binary.BigEndian.AppendUint32(b, uint32(v))
	case TLong:
		b = binary.BigEndian.AppendUint64(b, uint64(v))
	default:
		panic("AppendIntWidth: bad type")
	}
	return b
}

// NarrowestInt returns the canonical wire type for integer v.
func NarrowestInt(v int64) int {
	switch {
	case v == 0:
		return TZero
	case v >= -128 && v <= 127:
		return TByte
	case v >= -32768 && v <= 32767:
		return TShort
	case v >= -2147483648 && v <= 2147483647:
		return TInt
	}
	return TLong
}

// AppendInt appends v in canonical (narrowest) form.
func AppendInt(b []byte, v int64, tag int) []byte {
	return AppendIntWidth(b, v, NarrowestInt(v), tag)
}

func AppendFloat32(b []byte, bits uint32, tag int) []byte {
	b = AppendHead(b, TFloat, tag)
	return binary.BigEndian.AppendUint32(b, bits)
}

func AppendFloat64(b []byte, bits uint64, tag int) []byte {
	b = AppendHead(b, TDouble, tag)
	return binary.BigEndian.AppendUint64(b, bits)
}

// AppendString appends s canonically (String1 up to 255 bytes, String4 beyond).
func AppendString(b []byte, s []byte, tag int) []byte {
	if len(s) > 255 {
		return AppendString4(b, s, tag)
	}
	b = AppendHead(b, TString1, tag)
	b = append(b, byte(len(s)))
	return append(b, s...)
}

func AppendString4(b []byte, s []byte, tag int) []byte {
	b = AppendHead(b, TString4, tag)
	b = binary.BigEndian.AppendUint32(b, uint32(len(s)))
	return append(b, s...)
}

func AppendSimpleList(b []byte, data []byte, tag int) []byte {
	b = AppendHead(b, TSimpleList, tag)
	b = AppendHead(b, TByte, 0)
	b = AppendInt(b, int64(len(data)), 0)
	return append(b, data...)
}

// Reencode renders a parsed node back to bytes exactly in the widths it was parsed with, under a
// (possibly different) tag.
func Reencode(b []byte, n *Node, tag int) []byte {
	switch n.Type {
	case TByte, TShort, TInt, TLong, TZero:
		return AppendIntWidth(b, n.Int, n.Type, tag)
	case TFloat:
		return AppendFloat32(b, uint32(n.Bits), tag)
	case TDouble:
		return AppendFloat64(b, n.Bits, tag)
	case TString1:
		b = AppendHead(b, TString1, tag)
		b = append(b, byte(len(n.Bytes)))
		return append(b, n.Bytes...)
	case TString4:
		return AppendString4(b, n.Bytes, tag)
	case TSimpleList:
		return AppendSimpleList(b, n.Bytes, tag)
	case TList:
		b = AppendHead(b, TList, tag)
		b = AppendInt(b, int64(len(n.List)), 0)
		for _, c := range n.List {
			b = Reencode(b, c, c.Tag)
		}
		return b
	case TMap:
		b = AppendHead(b, TMap, tag)
		b = AppendInt(b, int64(len(n.Keys)), 0)
		for i := range n.Keys {
			b = Reencode(b, n.Keys[i], n.Keys[i].Tag)
			b = Reencode(b, n.Vals[i], n.Vals[i].Tag)
		}
		return b
	case TStructBegin:
		b = AppendHead(b, TStructBegin, tag)
		for _, c := range n.Sub {
			b = Reencode(b, c, c.Tag)
		}
		return AppendHead(b, TStructEnd, 0)
	}
	panic("Reencode: bad node")
}
