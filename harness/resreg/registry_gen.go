// Placeholder; replaced at check time through go build -overlay (see check.sh).

package resreg

// TarsFiles are the IDL sources the defaults are read from.
var TarsFiles = []string{}

// Types lists every generated struct type found.
var Types = []Entry{}

// Ifaces lists every generated interface for which a stub was written.
var Ifaces = []IfaceEntry{}
