// Package resreg is the registry of tars2go-generated struct types under test.  registry_gen.go
// is regenerated from the working tree by every codec check (go build -overlay); the checked-in
// copy only keeps the package compiling on its own.
package resreg

import "verif/sch"

// Entry is one generated struct type.
type Entry struct {
	Name string
	New  func() sch.Codec
}
