// Package resreg is the registry of tars2go-generated struct types under test.  registry_gen.go
// is regenerated from the working tree by every codec check (go build -overlay); the checked-in
// copy only keeps the package compiling on its own.
package resreg

import "verif/sch"

// Entry is one generated struct type.
type Entry struct {
	Name string
	New  func() sch.Codec
}

// IfaceEntry is one generated interface: its proxy / dispatcher type and a recording stub that
// implements its <Name>ServantWithContext interface (written next to the generated code by
// genreg -stubs; every method hands its arguments, in order, to H).
type IfaceEntry struct {
	Name     string // <package>.<Go type name>
	NewProxy func() interface{}
	NewStub  func(h func(fn string, args []interface{}, ret interface{}) error) interface{}
}
