// Package rpcw builds real TarsGo clients (isolated application, communicator, servant proxy)
// for the RPC monitors and classifies their errors.
package rpcw

import (
	"context"
	"fmt"
	"strings"
	"sync/atomic"
	"time"

	"github.com/TarsCloud/TarsGo/tars"
	"github.com/TarsCloud/TarsGo/tars/protocol/res/requestf"
	"github.com/TarsCloud/TarsGo/tars/util/tools"

	"verif/netlab"
)

var objSeq atomic.Int64

// Client is a real servant proxy on an isolated application.
type Client struct {
	App  *tars.VerifApp
	Comm *tars.Communicator
	SP   *tars.ServantProxy
	Obj  string
	name string
	opt  Opt
}

// Sibling creates a second communicator (same application, same properties) with a proxy for the
// very same object: both proxies share the process-wide endpoint manager and its adapters.
func (c *Client) Sibling() *Client {
	comm := c.App.NewCommunicator(c.opt.CommOpts...)
	sp := tars.NewServantProxy(comm, c.name)
	if c.opt.InvokeTimeoutMs > 0 {
		sp.TarsSetTimeout(c.opt.InvokeTimeoutMs)
	}
	return &Client{App: c.App, Comm: comm, SP: sp, Obj: c.Obj, name: c.name, opt: c.opt}
}

// Opt adjusts the client configuration before the communicator is created.
type Opt struct {
	DialTimeout, ReadTimeout, WriteTimeout, IdleTimeout time.Duration
	QueueLen                                            int
	ObjQueueMax                                         int32
	InvokeTimeoutMs                                     int
	App                                                 *tars.VerifApp
	CommOpts                                            []tars.Option
	Proto                                               string // "tcp" (default), "ssl", "udp"
}

// NewDirect creates a proxy for a fresh object name bound directly to the given addresses
// ("127.0.0.1:port").
func NewDirect(addrs []string, o Opt) *Client {
	var eps []string
	proto := o.Proto
	if proto == "" {
		proto = "tcp"
	}
	for _, a := range addrs {
		h, p := netlab.HostPort(a)
		eps = append(eps, fmt.Sprintf("%s -h %s -p %s -t 60000", proto, h, p))
	}
	return New(strings.Join(eps, ":"), o)
}

// New creates a proxy; endpoints == "" means "resolve through the registrar of o.CommOpts".
func New(endpoints string, o Opt) *Client {
	app := o.App
	if app == nil {
		app = tars.VerifNewApp()
	}
	cfg := app.ClientConfig()
	if o.DialTimeout > 0 {
		cfg.ClientDialTimeout = o.DialTimeout
	}
	if o.ReadTimeout > 0 {
		cfg.ClientReadTimeout = o.ReadTimeout
	}
	if o.WriteTimeout > 0 {
		cfg.ClientWriteTimeout = o.WriteTimeout
	}
	if o.IdleTimeout > 0 {
		cfg.ClientIdleTimeout = o.IdleTimeout
	}
	if o.QueueLen > 0 {
		cfg.ClientQueueLen = o.QueueLen
	}
	if o.ObjQueueMax > 0 {
		cfg.ObjQueueMax = o.ObjQueueMax
	}
	comm := app.NewCommunicator(o.CommOpts...)
	obj := fmt.Sprintf("Verif.W%d.Obj", objSeq.Add(1))
	name := obj
	if endpoints != "" {
		name = obj + "@" + endpoints
	}
	sp := tars.NewServantProxy(comm, name)
	if o.InvokeTimeoutMs > 0 {
		sp.TarsSetTimeout(o.InvokeTimeoutMs)
	}
	o.App = app
	return &Client{App: app, Comm: comm, SP: sp, Obj: obj, name: name, opt: o}
}

// Call invokes fn with payload and returns the response buffer.
func (c *Client) Call(ctx context.Context, fn string, payload []byte, oneway bool) ([]byte, *requestf.ResponsePacket, error) {
	var rsp requestf.ResponsePacket
	ct := byte(0)
	if oneway {
		ct = 1
	}
	err := c.SP.TarsInvoke(ctx, ct, fn, payload, nil, nil, &rsp)
	if err != nil {
		return nil, nil, err
	}
	return tools.Int8ToByte(rsp.SBuffer), &rsp, nil
}

// ErrClass classifies a client error.
func ErrClass(err error) string {
	if err == nil {
		return "ok"
	}
	s := err.Error()
	switch {
	case strings.Contains(s, "request timeout"):
		return "timeout"
	case strings.Contains(s, "write timeout"):
		return "write-timeout"
	case strings.Contains(s, "connection refused"):
		return "refused"
	case strings.Contains(s, "i/o timeout"):
		return "dial-timeout"
	case strings.Contains(s, "queue is full"):
		return "queue-full"
	case strings.Contains(s, "no adapter"):
		return "no-adapter"
	}
	return "other:" + s
}
