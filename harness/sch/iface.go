package sch

import (
	"fmt"
	"reflect"
	"strings"

	rc "verif/refcodec"
)

// IfParam describes one IDL parameter of an interface function, joined with the Go type the
// generated proxy uses for it.
type IfParam struct {
	Name string
	Out  bool
	GoT  reflect.Type // Go type of the value (pointer stripped)
	Ptr  bool         // the generated signature takes a pointer
	T    *rc.Type
}

// IfFunc describes one interface function.
type IfFunc struct {
	Name   string
	GoName string
	Params []IfParam
	RetGoT reflect.Type // nil for void
	RetT   *rc.Type
}

// LoadIface joins the IDL declaration of interface <module>.<goName> (goName = the generated Go type
// name) with the method types of its generated proxy.
func LoadIface(u *Universe, module, goName string, proxy interface{}) ([]*IfFunc, error) {
	var it *IDLInterface
	for _, f := range u.Files {
		for _, i := range f.Interfaces {
			if i.Module == module && upperFirst(i.Name) == goName {
				it = i
			}
		}
	}
	if it == nil {
		return nil, fmt.Errorf("interface %s.%s not found in the IDL sources", module, goName)
	}
	pt := reflect.TypeOf(proxy)
	var out []*IfFunc
	for _, f := range it.Funcs {
		fn := &IfFunc{Name: f.Name, GoName: upperFirst(f.Name)}
		m, ok := pt.MethodByName(fn.GoName + "WithContext")
		if !ok {
			return nil, fmt.Errorf("generated proxy %s.%s lacks %sWithContext", module, goName, fn.GoName)
		}
		mt := m.Type // receiver, ctx, params..., opts
		if mt.NumIn() != 3+len(f.Params) {
			return nil, fmt.Errorf("%s: generated proxy takes %d parameters, IDL declares %d", f.Name, mt.NumIn()-3, len(f.Params))
		}
		for i, p := range f.Params {
			gt := mt.In(2 + i)
			ptr := false
			if gt.Kind() == reflect.Ptr {
				gt, ptr = gt.Elem(), true
			}
			t, err := u.Defaults.TypeOf(gt, nil)
			if err != nil {
				return nil, err
			}
			fn.Params = append(fn.Params, IfParam{Name: p.Name, Out: p.Out, GoT: gt, Ptr: ptr, T: t})
		}
		if strings.TrimSpace(f.Ret) != "void" {
			if mt.NumOut() != 2 {
				return nil, fmt.Errorf("%s: IDL declares a return value, the generated proxy returns %d values", f.Name, mt.NumOut())
			}
			fn.RetGoT = mt.Out(0)
			t, err := u.Defaults.TypeOf(fn.RetGoT, nil)
			if err != nil {
				return nil, err
			}
			fn.RetT = t
		}
		out = append(out, fn)
	}
	return out, nil
}
