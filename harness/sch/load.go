package sch

import (
	"fmt"
	"path"
	"reflect"
	"strings"

	rc "verif/refcodec"
)

// Universe holds everything read from the IDL sources.
type Universe struct {
	Defaults *Defaults
	Files    []*IDLFile
	enums    map[string]bool // enum names (with and without module)
	structs  map[string]*IDLStruct
}

// LoadUniverse parses the given .tars files.
func LoadUniverse(tarsFiles []string) (*Universe, error) {
	u := &Universe{Defaults: NewDefaults(), enums: map[string]bool{}, structs: map[string]*IDLStruct{}}
	for _, f := range tarsFiles {
		idl, err := ParseTarsFile(f)
		if err != nil {
			return nil, fmt.Errorf("%s: %v", f, err)
		}
		u.Files = append(u.Files, idl)
		for _, e := range idl.Enums {
			u.enums[strings.ToLower(e.Module)+"::"+e.Name] = true
		}
		for _, s := range idl.Structs {
			u.structs[s.Module+"."+upperFirst(s.Name)] = s
		}
	}
	// defaults are keyed by Go struct name; structs of the same name in different modules with
	// different defaults for the same member would collide, which AddFile reports by overwriting —
	// so key by module as well
	for _, idl := range u.Files {
		u.Defaults.AddFile(idl)
	}
	return u, nil
}

// SchemaOf returns the schema of a generated struct (by a pointer to it).
func (u *Universe) SchemaOf(obj Codec) (*rc.Struct, error) {
	return u.Defaults.StructOf(reflect.TypeOf(obj).Elem(), nil)
}

var idlBasic = map[string]string{"bool": "bool", "byte": "int8", "unsigned byte": "uint8", "short": "int16", "unsigned short": "uint16", "int": "int32",
	"unsigned int": "uint32", "long": "int64", "float": "float", "double": "double", "string": "string"}

func (u *Universe) idlTypeString(t string, module string) string {
	if b, ok := idlBasic[t]; ok {
		return b
	}
	if strings.HasPrefix(t, "vector<") {
		return "vector<" + u.idlTypeString(t[7:len(t)-1], module) + ">"
	}
	if strings.HasPrefix(t, "map<") {
		inner := t[4 : len(t)-1]
		depth := 0
		for i, c := range inner {
			switch c {
			case '<':
				depth++
			case '>':
				depth--
			case ',':
				if depth == 0 {
					return "map<" + u.idlTypeString(inner[:i], module) + "," + u.idlTypeString(inner[i+1:], module) + ">"
				}
			}
		}
	}
	if i := strings.LastIndex(t, "::"); i >= 0 {
		if u.enums[strings.ToLower(t[:i])+"::"+t[i+2:]] {
			return "int32"
		}
		return upperFirst(t[i+2:])
	}
	if u.enums[module+"::"+t] {
		return "int32"
	}
	return upperFirst(t)
}

// CompareWithIDL checks the reflection-derived schema of obj against the struct declaration in
// the IDL source (tags, requiredness, member types).  Returns "" when they agree, "?" when the
// IDL declaration was not found.
func (u *Universe) CompareWithIDL(obj Codec, s *rc.Struct) string {
	t := reflect.TypeOf(obj).Elem()
	mod := path.Base(t.PkgPath())
	idl := u.structs[mod+"."+t.Name()]
	if idl == nil {
		// module directory names may be lower-cased
		for k, v := range u.structs {
			if strings.EqualFold(k, mod+"."+t.Name()) {
				idl = v
			}
		}
	}
	if idl == nil {
		return "?"
	}
	if len(idl.Members) != len(s.Fields) {
		return fmt.Sprintf("%s: IDL declares %d members, the Go struct has %d", t.Name(), len(idl.Members), len(s.Fields))
	}
	for _, m := range idl.Members {
		f := s.Field(m.Tag)
		if f == nil {
			return fmt.Sprintf("%s: IDL member %s (tag %d) has no Go field with that tag", t.Name(), m.Name, m.Tag)
		}
		if f.Name != m.Name {
			return fmt.Sprintf("%s: tag %d is %s in the IDL, %s in the Go struct tag", t.Name(), m.Tag, m.Name, f.Name)
		}
		if f.Require != m.Require {
			return fmt.Sprintf("%s.%s: require=%v in the IDL, %v in the Go struct tag", t.Name(), m.Name, m.Require, f.Require)
		}
		want := u.idlTypeString(m.Type, strings.ToLower(idl.Module))
		if m.ArrLen > 0 {
			want = fmt.Sprintf("%s[%d]", want, m.ArrLen)
		}
		if got := f.T.String(); got != want {
			return fmt.Sprintf("%s.%s: IDL type %s (%s), Go type maps to %s", t.Name(), m.Name, m.Type, want, got)
		}
	}
	return ""
}
