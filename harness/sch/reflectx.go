package sch

import (
	"fmt"
	"math"
	"path"
	"reflect"
	"strconv"
	"strings"
	"sync"

	"github.com/TarsCloud/TarsGo/tars/protocol/codec"

	rc "verif/refcodec"
)

// Codec is the method set of a tars2go-generated struct.
type Codec interface {
	ReadFrom(*codec.Reader) error
	WriteTo(*codec.Buffer) error
	ReadBlock(*codec.Reader, byte, bool) error
	WriteBlock(*codec.Buffer, byte) error
	ResetDefault()
}

// Defaults maps "Struct.member" (IDL names; struct name as in Go, first letter upper-cased) to
// the default literal, resolved against enums/consts.
type Defaults struct {
	lit   map[string]string
	enums map[string]int64 // "Enum::MEMBER" / "MEMBER" / "Module::MEMBER" -> value
}

func NewDefaults() *Defaults {
	return &Defaults{lit: map[string]string{}, enums: map[string]int64{}}
}

func upperFirst(s string) string {
	if s == "" {
		return s
	}
	return strings.ToUpper(s[:1]) + s[1:]
}

// AddFile merges the defaults of one parsed IDL file.
func (d *Defaults) AddFile(f *IDLFile) {
	// enum members and constants live in the namespace of their module
	for _, e := range f.Enums {
		m := strings.ToLower(e.Module)
		for n, v := range e.Members {
			d.enums[m+"::"+n] = v
		}
	}
	for _, s := range f.Structs {
		m := strings.ToLower(s.Module)
		for n, v := range f.Consts {
			if x, err := strconv.ParseInt(v, 0, 64); err == nil {
				d.enums[m+"::"+n] = x
			}
		}
	}
	for _, s := range f.Structs {
		for _, m := range s.Members {
			if m.HasDef {
				d.lit[strings.ToLower(s.Module)+"."+upperFirst(s.Name)+"."+m.Name] = m.Default
			}
		}
	}
}

// TypeOf builds the schema type of a Go type.
func (d *Defaults) TypeOf(t reflect.Type, seen map[reflect.Type]*rc.Struct) (*rc.Type, error) {
	switch t.Kind() {
	case reflect.Bool:
		return &rc.Type{Kind: rc.KBool}, nil
	case reflect.Int8:
		return &rc.Type{Kind: rc.KInt8}, nil
	case reflect.Uint8:
		return &rc.Type{Kind: rc.KUint8}, nil
	case reflect.Int16:
		return &rc.Type{Kind: rc.KInt16}, nil
	case reflect.Uint16:
		return &rc.Type{Kind: rc.KUint16}, nil
	case reflect.Int32:
		return &rc.Type{Kind: rc.KInt32}, nil
	case reflect.Uint32:
		return &rc.Type{Kind: rc.KUint32}, nil
	case reflect.Int64:
		return &rc.Type{Kind: rc.KInt64}, nil
	case reflect.Float32:
		return &rc.Type{Kind: rc.KFloat}, nil
	case reflect.Float64:
		return &rc.Type{Kind: rc.KDouble}, nil
	case reflect.String:
		return &rc.Type{Kind: rc.KString}, nil
	case reflect.Slice:
		e, err := d.TypeOf(t.Elem(), seen)
		if err != nil {
			return nil, err
		}
		return &rc.Type{Kind: rc.KVector, Elem: e}, nil
	case reflect.Array:
		e, err := d.TypeOf(t.Elem(), seen)
		if err != nil {
			return nil, err
		}
		return &rc.Type{Kind: rc.KArray, Elem: e, Len: t.Len()}, nil
	case reflect.Map:
		k, err := d.TypeOf(t.Key(), seen)
		if err != nil {
			return nil, err
		}
		e, err := d.TypeOf(t.Elem(), seen)
		if err != nil {
			return nil, err
		}
		return &rc.Type{Kind: rc.KMap, Key: k, Elem: e}, nil
	case reflect.Struct:
		s, err := d.StructOf(t, seen)
		if err != nil {
			return nil, err
		}
		return &rc.Type{Kind: rc.KStruct, St: s}, nil
	}
	return nil, fmt.Errorf("unsupported Go type %s", t)
}

// StructOf builds the schema of a generated Go struct type from its `tars:"name,tag:N,require:B"`
// field tags and the IDL defaults.
func (d *Defaults) StructOf(t reflect.Type, seen map[reflect.Type]*rc.Struct) (*rc.Struct, error) {
	if seen == nil {
		seen = map[reflect.Type]*rc.Struct{}
	}
	if s, ok := seen[t]; ok {
		return s, nil
	}
	s := &rc.Struct{Name: t.Name()}
	seen[t] = s
	for i := 0; i < t.NumField(); i++ {
		f := t.Field(i)
		tag := f.Tag.Get("tars")
		if tag == "" {
			return nil, fmt.Errorf("%s.%s: no tars tag", t.Name(), f.Name)
		}
		parts := strings.Split(tag, ",")
		fld := &rc.Field{Name: parts[0]}
		for _, p := range parts[1:] {
			if strings.HasPrefix(p, "tag:") {
				fld.Tag, _ = strconv.Atoi(p[4:])
			}
			if strings.HasPrefix(p, "require:") {
				fld.Require = p[8:] == "true"
			}
		}
		ft, err := d.TypeOf(f.Type, seen)
		if err != nil {
			return nil, fmt.Errorf("%s.%s: %v", t.Name(), f.Name, err)
		}
		fld.T = ft
		if lit, ok := d.lit[strings.ToLower(path.Base(t.PkgPath()))+"."+t.Name()+"."+fld.Name]; ok {
			v, err := d.literal(ft, lit, strings.ToLower(path.Base(t.PkgPath())))
			if err != nil {
				return nil, fmt.Errorf("%s.%s default %q: %v", t.Name(), fld.Name, lit, err)
			}
			fld.HasDefault, fld.Default = true, v
		}
		s.Fields = append(s.Fields, fld)
	}
	// ascending tags
	for i := 1; i < len(s.Fields); i++ {
		for j := i; j > 0 && s.Fields[j].Tag < s.Fields[j-1].Tag; j-- {
			s.Fields[j], s.Fields[j-1] = s.Fields[j-1], s.Fields[j]
		}
	}
	return s, nil
}

func (d *Defaults) literal(t *rc.Type, lit string, module string) (*rc.Value, error) {
	switch t.Kind {
	case rc.KBool:
		if lit == "true" {
			return &rc.Value{I: 1}, nil
		}
		if lit == "false" {
			return &rc.Value{I: 0}, nil
		}
	case rc.KInt8, rc.KUint8, rc.KInt16, rc.KUint16, rc.KInt32, rc.KUint32, rc.KInt64:
		if n, err := strconv.ParseInt(lit, 0, 64); err == nil {
			return &rc.Value{I: n}, nil
		}
		if n, err := strconv.ParseUint(lit, 0, 64); err == nil {
			return &rc.Value{I: int64(n)}, nil
		}
		// MEMBER (own module) or Module::MEMBER
		key := module + "::" + lit
		if i := strings.Index(lit, "::"); i >= 0 {
			key = strings.ToLower(lit[:i]) + lit[i:]
		}
		if v, ok := d.enums[key]; ok {
			return &rc.Value{I: v}, nil
		}
	case rc.KFloat:
		if f, err := strconv.ParseFloat(lit, 32); err == nil {
			return &rc.Value{F: uint64(math.Float32bits(float32(f)))}, nil
		}
	case rc.KDouble:
		if f, err := strconv.ParseFloat(lit, 64); err == nil {
			return &rc.Value{F: math.Float64bits(f)}, nil
		}
	case rc.KString:
		if len(lit) >= 2 && lit[0] == '"' {
			if s, err := strconv.Unquote(lit); err == nil {
				return &rc.Value{S: []byte(s)}, nil
			}
			return &rc.Value{S: []byte(lit[1 : len(lit)-1])}, nil
		}
	}
	return nil, fmt.Errorf("cannot interpret literal for %s", t)
}

// ToGo stores model value v of type t into the Go value dst (settable).
func ToGo(t *rc.Type, v *rc.Value, dst reflect.Value) {
	switch t.Kind {
	case rc.KBool:
		dst.SetBool(v.I != 0)
	case rc.KInt8, rc.KInt16, rc.KInt32, rc.KInt64:
		dst.SetInt(v.I)
	case rc.KUint8, rc.KUint16, rc.KUint32:
		dst.SetUint(uint64(v.I))
	case rc.KFloat:
		dst.SetFloat(float64(math.Float32frombits(uint32(v.F))))
		// SetFloat on a float32 converts; preserve NaN payloads exactly
		if dst.Kind() == reflect.Float32 {
			*(dst.Addr().Interface().(*float32)) = math.Float32frombits(uint32(v.F))
		}
	case rc.KDouble:
		*(dst.Addr().Interface().(*float64)) = math.Float64frombits(v.F)
	case rc.KString:
		dst.SetString(string(v.S))
	case rc.KStruct:
		for i := 0; i < dst.NumField(); i++ {
			f := fieldByGoIndex(t.St, dst.Type(), i)
			if fv := v.Fs[f.Tag]; fv != nil {
				ToGo(f.T, fv, dst.Field(i))
			}
		}
	case rc.KVector:
		if t.Elem.Kind == rc.KInt8 {
			if v.S == nil {
				dst.Set(reflect.Zero(dst.Type()))
				return
			}
			s := reflect.MakeSlice(dst.Type(), len(v.S), len(v.S))
			for i, b := range v.S {
				s.Index(i).SetInt(int64(int8(b)))
			}
			dst.Set(s)
			return
		}
		if v.L == nil {
			dst.Set(reflect.Zero(dst.Type()))
			return
		}
		s := reflect.MakeSlice(dst.Type(), len(v.L), len(v.L))
		for i, e := range v.L {
			ToGo(t.Elem, e, s.Index(i))
		}
		dst.Set(s)
	case rc.KArray:
		for i := 0; i < dst.Len(); i++ {
			if t.Elem.Kind == rc.KInt8 {
				if i < len(v.S) {
					dst.Index(i).SetInt(int64(int8(v.S[i])))
				}
			} else if i < len(v.L) {
				ToGo(t.Elem, v.L[i], dst.Index(i))
			}
		}
	case rc.KMap:
		if v.MK == nil {
			dst.Set(reflect.Zero(dst.Type()))
			return
		}
		m := reflect.MakeMapWithSize(dst.Type(), len(v.MK))
		for i := range v.MK {
			k := reflect.New(dst.Type().Key()).Elem()
			e := reflect.New(dst.Type().Elem()).Elem()
			ToGo(t.Key, v.MK[i], k)
			ToGo(t.Elem, v.MV[i], e)
			m.SetMapIndex(k, e)
		}
		dst.Set(m)
	}
}

var fieldCache sync.Map // reflect.Type -> []*rc.Field

// fieldByGoIndex maps the i-th Go field to its schema field (Go order is declaration order,
// schema order is ascending tag).
func fieldByGoIndex(s *rc.Struct, gt reflect.Type, i int) *rc.Field {
	if c, ok := fieldCache.Load(gt); ok {
		return c.([]*rc.Field)[i]
	}
	c := make([]*rc.Field, gt.NumField())
	for k := 0; k < gt.NumField(); k++ {
		name := strings.Split(gt.Field(k).Tag.Get("tars"), ",")[0]
		for _, f := range s.Fields {
			if f.Name == name {
				c[k] = f
			}
		}
	}
	fieldCache.Store(gt, c)
	return c[i]
}

// FromGo reads a Go value into a model value.
func FromGo(t *rc.Type, src reflect.Value) *rc.Value {
	switch t.Kind {
	case rc.KBool:
		if src.Bool() {
			return &rc.Value{I: 1}
		}
		return &rc.Value{}
	case rc.KInt8, rc.KInt16, rc.KInt32, rc.KInt64:
		return &rc.Value{I: src.Int()}
	case rc.KUint8, rc.KUint16, rc.KUint32:
		return &rc.Value{I: int64(src.Uint())}
	case rc.KFloat:
		// no float32 -> float64 -> float32 round trip: it would quiet signalling NaNs
		if f, ok := src.Interface().(float32); ok {
			return &rc.Value{F: uint64(math.Float32bits(f))}
		}
		return &rc.Value{F: uint64(math.Float32bits(float32(src.Float())))}
	case rc.KDouble:
		return &rc.Value{F: math.Float64bits(src.Float())}
	case rc.KString:
		return &rc.Value{S: []byte(src.String())}
	case rc.KStruct:
		v := &rc.Value{Fs: map[int]*rc.Value{}}
		for i := 0; i < src.NumField(); i++ {
			f := fieldByGoIndex(t.St, src.Type(), i)
			v.Fs[f.Tag] = FromGo(f.T, src.Field(i))
		}
		return v
	case rc.KVector, rc.KArray:
		v := &rc.Value{}
		for i := 0; i < src.Len(); i++ {
			if t.Elem.Kind == rc.KInt8 {
				v.S = append(v.S, byte(src.Index(i).Int()))
			} else {
				v.L = append(v.L, FromGo(t.Elem, src.Index(i)))
			}
		}
		return v
	case rc.KMap:
		v := &rc.Value{}
		it := src.MapRange()
		for it.Next() {
			v.MK = append(v.MK, FromGo(t.Key, it.Key()))
			v.MV = append(v.MV, FromGo(t.Elem, it.Value()))
		}
		return v
	}
	return &rc.Value{}
}
