// Package sch builds refcodec schemas for generated Go structs: member tags/requiredness/types
// come from the struct tags by reflection, defaults from an own small reader of the .tars source
// (tarsfile.go); it converts between refcodec values and Go values (reflectx.go) and generates
// values (valgen.go).
package sch

import (
	"fmt"
	"os"
	"strconv"
	"strings"
	"unicode"
)

// IDL model read from a .tars file (only what the schema needs).
type IDLMember struct {
	Tag     int
	Require bool
	Type    string // normalised type text, e.g. "vector<unsigned byte>"
	Name    string
	ArrLen  int // >0 for fixed arrays
	Default string
	HasDef  bool
}

type IDLStruct struct {
	Module  string
	Name    string
	Members []IDLMember
}

type IDLEnum struct {
	Module  string
	Name    string
	Members map[string]int64
	Order   []string
}

// IDLParam is one parameter of an interface function.
type IDLParam struct {
	Name string
	Type string
	Out  bool
}

// IDLFunc is one function of an interface.
type IDLFunc struct {
	Name   string
	Ret    string // "void" or a type
	Params []IDLParam
}

type IDLInterface struct {
	Module string
	Name   string
	Funcs  []*IDLFunc
}

type IDLFile struct {
	Structs    []*IDLStruct
	Enums      []*IDLEnum
	Consts     map[string]string
	Interfaces []*IDLInterface
}

type lexer struct {
	toks []string
	pos  int
}

func tokenize(src string) []string {
	var toks []string
	i := 0
	for i < len(src) {
		c := src[i]
		switch {
		case c == '/' && i+1 < len(src) && src[i+1] == '/':
			for i < len(src) && src[i] != '\n' {
				i++
			}
		case c == '/' && i+1 < len(src) && src[i+1] == '*':
			j := strings.Index(src[i+2:], "*/")
			if j < 0 {
				i = len(src)
			} else {
				i += j + 4
			}
		case c == '#': // #include "x"
			for i < len(src) && src[i] != '\n' {
				i++
			}
		case unicode.IsSpace(rune(c)):
			i++
		case c == '"':
			j := i + 1
			for j < len(src) && src[j] != '"' {
				if src[j] == '\\' {
					j++
				}
				j++
			}
			toks = append(toks, src[i:min(j+1, len(src))])
			i = j + 1
		case unicode.IsLetter(rune(c)) || c == '_':
			j := i
			for j < len(src) && (unicode.IsLetter(rune(src[j])) || unicode.IsDigit(rune(src[j])) || src[j] == '_' || (src[j] == ':' && j+1 < len(src) && src[j+1] == ':') || (src[j] == ':' && j > 0 && src[j-1] == ':')) {
				j++
			}
			toks = append(toks, src[i:j])
			i = j
		case unicode.IsDigit(rune(c)) || ((c == '-' || c == '+') && i+1 < len(src) && (unicode.IsDigit(rune(src[i+1])) || src[i+1] == '.')):
			j := i + 1
			for j < len(src) && (unicode.IsDigit(rune(src[j])) || src[j] == '.' || src[j] == 'x' || src[j] == 'X' || src[j] == 'e' || src[j] == 'E' || (src[j] >= 'a' && src[j] <= 'f') || (src[j] >= 'A' && src[j] <= 'F') || ((src[j] == '-' || src[j] == '+') && (src[j-1] == 'e' || src[j-1] == 'E'))) {
				j++
			}
			toks = append(toks, src[i:j])
			i = j
		default:
			toks = append(toks, string(c))
			i++
		}
	}
	return toks
}

func (l *lexer) peek() string {
	if l.pos < len(l.toks) {
		return l.toks[l.pos]
	}
	return ""
}
func (l *lexer) next() string {
	t := l.peek()
	l.pos++
	return t
}

// parseType reads a type expression and returns its normalised text.
func (l *lexer) parseType() string {
	t := l.next()
	switch t {
	case "unsigned":
		return "unsigned " + l.next()
	case "vector":
		l.next() // <
		e := l.parseType()
		l.next() // >
		return "vector<" + e + ">"
	case "map":
		l.next()
		k := l.parseType()
		l.next() // ,
		v := l.parseType()
		l.next()
		return "map<" + k + "," + v + ">"
	}
	return t
}

// ParseTarsFile reads structs (members with defaults), enums and constants of a .tars file.
func ParseTarsFile(path string) (*IDLFile, error) {
	b, err := os.ReadFile(path)
	if err != nil {
		return nil, err
	}
	return ParseTars(string(b))
}

func ParseTars(src string) (*IDLFile, error) {
	l := &lexer{toks: tokenize(src)}
	f := &IDLFile{Consts: map[string]string{}}
	module := ""
	for l.pos < len(l.toks) {
		switch t := l.next(); t {
		case "module":
			module = l.next()
			l.next() // {
		case "enum":
			e := &IDLEnum{Module: module, Name: l.next(), Members: map[string]int64{}}
			l.next() // {
			var cur int64
			for l.peek() != "}" && l.peek() != "" {
				name := l.next()
				if l.peek() == "=" {
					l.next()
					v := l.next()
					if n, err := strconv.ParseInt(v, 0, 64); err == nil {
						cur = n
					} else if x, ok := e.Members[v]; ok {
						cur = x
					}
				}
				e.Members[name] = cur
				e.Order = append(e.Order, name)
				cur++
				if l.peek() == "," {
					l.next()
				}
			}
			l.next()
			f.Enums = append(f.Enums, e)
		case "const":
			l.parseType()
			name := l.next()
			l.next() // =
			f.Consts[name] = l.next()
		case "struct":
			s := &IDLStruct{Module: module, Name: l.next()}
			if l.peek() != "{" {
				continue
			}
			l.next()
			for l.peek() != "}" && l.peek() != "" {
				var m IDLMember
				tag, err := strconv.Atoi(l.next())
				if err != nil {
					return nil, fmt.Errorf("struct %s: bad tag", s.Name)
				}
				m.Tag = tag
				switch l.next() {
				case "require":
					m.Require = true
				case "optional":
				default:
					return nil, fmt.Errorf("struct %s tag %d: expected require/optional", s.Name, tag)
				}
				m.Type = l.parseType()
				m.Name = l.next()
				if l.peek() == "[" {
					l.next()
					n := l.next()
					if v, err := strconv.Atoi(n); err == nil {
						m.ArrLen = v
					} else if c, ok := f.Consts[n]; ok {
						m.ArrLen, _ = strconv.Atoi(c)
					}
					l.next() // ]
				}
				if l.peek() == "=" {
					l.next()
					m.Default = l.next()
					m.HasDef = true
				}
				for l.peek() != ";" && l.peek() != "" && l.peek() != "}" {
					l.next()
				}
				if l.peek() == ";" {
					l.next()
				}
				s.Members = append(s.Members, m)
			}
			l.next() // }
			f.Structs = append(f.Structs, s)
		case "interface":
			it := &IDLInterface{Module: module, Name: l.next()}
			l.next() // {
			for l.peek() != "}" && l.peek() != "" {
				fn := &IDLFunc{}
				fn.Ret = l.parseType()
				fn.Name = l.next()
				l.next() // (
				for l.peek() != ")" && l.peek() != "" {
					var p IDLParam
					if l.peek() == "out" {
						p.Out = true
						l.next()
					}
					if l.peek() == "routekey" {
						l.next()
					}
					p.Type = l.parseType()
					p.Name = l.next()
					fn.Params = append(fn.Params, p)
					if l.peek() == "," {
						l.next()
					}
				}
				l.next() // )
				if l.peek() == ";" {
					l.next()
				}
				it.Funcs = append(it.Funcs, fn)
			}
			l.next() // }
			f.Interfaces = append(f.Interfaces, it)
		}
	}
	return f, nil
}
