package sch

import (
	"math"
	"math/rand"

	rc "verif/refcodec"
)

// Mode of value generation.
const (
	ModeDefault  = iota // every member at its default / zero, containers empty
	ModeNonZero         // every member away from default, containers non-empty
	ModeBoundary        // integer width boundaries, float specials, boundary string lengths
	ModeRandom
	ModeBig // occasionally large containers / long strings
	NumModes
)

// Gen generates values.
type Gen struct {
	R        *rand.Rand
	MaxDepth int
	Budget   int // remaining node budget (keeps values small)
}

func NewGen(r *rand.Rand) *Gen { return &Gen{R: r, MaxDepth: 6} }

var intBoundaries = []int64{0, 1, -1, 2, 126, 127, 128, 129, -127, -128, -129, -130, 254, 255, 256, 257, 32766, 32767, 32768, 32769, -32767, -32768, -32769, -32770, 65534, 65535, 65536,
	2147483646, 2147483647, 2147483648, -2147483647, -2147483648, -2147483649, 4294967294, 4294967295, 4294967296, math.MaxInt64, math.MaxInt64 - 1, math.MinInt64, math.MinInt64 + 1}

func clampInt(k rc.Kind, v int64) int64 {
	switch k {
	case rc.KBool:
		return v & 1
	case rc.KInt8:
		return int64(int8(v))
	case rc.KUint8:
		return int64(uint8(v))
	case rc.KInt16:
		return int64(int16(v))
	case rc.KUint16:
		return int64(uint16(v))
	case rc.KInt32:
		return int64(int32(v))
	case rc.KUint32:
		return int64(uint32(v))
	}
	return v
}

var f32Special = []uint32{0, 0x80000000, 0x7f800000, 0xff800000, 0x7fc00000, 0x7fc00001, 0xffc00000, 1, 0x007fffff, 0x00800000, 0x7f7fffff, 0x3f800000, 0xbf800000, 0x3fc00000}
var f64Special = []uint64{0, 1 << 63, 0x7ff0000000000000, 0xfff0000000000000, 0x7ff8000000000000, 0x7ff8000000000001, 1, 0x000fffffffffffff, 0x0010000000000000, 0x7fefffffffffffff, 0x3ff0000000000000, 0xbff0000000000000, 0x3ff8000000000000}

func (g *Gen) strLen(mode int) int {
	switch mode {
	case ModeDefault:
		return 0
	case ModeNonZero:
		return 1 + g.R.Intn(12)
	case ModeBoundary:
		return []int{0, 1, 2, 254, 255, 256, 257}[g.R.Intn(7)]
	case ModeBig:
		if g.R.Intn(6) == 0 {
			return []int{255, 256, 1000, 65535, 65536, 70000}[g.R.Intn(6)]
		}
	}
	return g.R.Intn(20)
}

func (g *Gen) bytes(n int) []byte {
	b := make([]byte, n)
	switch g.R.Intn(4) {
	case 0:
		for i := range b {
			b[i] = byte('a' + g.R.Intn(26))
		}
	case 1:
		g.R.Read(b)
	case 2:
		for i := range b {
			b[i] = []byte{0, 0xff, 0x0a, 0x0b, 0xf0, '"', '\\', 0x80}[g.R.Intn(8)]
		}
	default:
		s := []byte("héllo wörld 日本語 ")
		for i := range b {
			b[i] = s[i%len(s)]
		}
	}
	return b
}

func (g *Gen) count(mode int, depth int) int {
	switch mode {
	case ModeDefault:
		return 0
	case ModeNonZero:
		return 1 + g.R.Intn(3)
	case ModeBig:
		if depth <= 1 && g.R.Intn(8) == 0 {
			return []int{127, 128, 255, 256, 300}[g.R.Intn(5)]
		}
	}
	if g.Budget <= 0 {
		return 0
	}
	return g.R.Intn(4)
}

// Value generates a value of type t.  opt tells that the value is an optional struct member
// (negative zero is then avoided: the writer omits members that compare equal to the default).
func (g *Gen) Value(t *rc.Type, mode, depth int, opt bool, def *rc.Value) *rc.Value {
	g.Budget--
	switch t.Kind {
	case rc.KBool:
		switch mode {
		case ModeDefault:
			if def != nil {
				return def
			}
			return &rc.Value{}
		case ModeNonZero:
			if def != nil {
				return &rc.Value{I: 1 - def.I}
			}
			return &rc.Value{I: 1}
		}
		return &rc.Value{I: int64(g.R.Intn(2))}
	case rc.KInt8, rc.KUint8, rc.KInt16, rc.KUint16, rc.KInt32, rc.KUint32, rc.KInt64:
		var v int64
		switch mode {
		case ModeDefault:
			if def != nil {
				return def
			}
			return &rc.Value{}
		case ModeBoundary:
			v = clampInt(t.Kind, intBoundaries[g.R.Intn(len(intBoundaries))])
		case ModeNonZero:
			v = clampInt(t.Kind, int64(1+g.R.Intn(100)))
			if def != nil && v == def.I {
				v = clampInt(t.Kind, v+1)
			}
			if v == 0 {
				v = 1
			}
		default:
			switch g.R.Intn(3) {
			case 0:
				v = clampInt(t.Kind, int64(g.R.Intn(300)-100))
			case 1:
				v = clampInt(t.Kind, int64(g.R.Uint64())>>uint(g.R.Intn(64)))
			default:
				v = clampInt(t.Kind, intBoundaries[g.R.Intn(len(intBoundaries))])
			}
		}
		return &rc.Value{I: v}
	case rc.KFloat:
		var b uint32
		switch mode {
		case ModeDefault:
			if def != nil {
				return def
			}
			return &rc.Value{}
		case ModeNonZero:
			b = math.Float32bits(float32(1+g.R.Intn(50)) + 0.5)
		case ModeBoundary:
			b = f32Special[g.R.Intn(len(f32Special))]
		default:
			if g.R.Intn(2) == 0 {
				b = g.R.Uint32()
			} else {
				b = math.Float32bits(float32(g.R.NormFloat64() * 1000))
			}
		}
		if opt && b == 0x80000000 {
			b = 0
		}
		return &rc.Value{F: uint64(b)}
	case rc.KDouble:
		var b uint64
		switch mode {
		case ModeDefault:
			if def != nil {
				return def
			}
			return &rc.Value{}
		case ModeNonZero:
			b = math.Float64bits(float64(1+g.R.Intn(50)) + 0.25)
		case ModeBoundary:
			b = f64Special[g.R.Intn(len(f64Special))]
		default:
			if g.R.Intn(2) == 0 {
				b = g.R.Uint64()
			} else {
				b = math.Float64bits(g.R.NormFloat64() * 1e6)
			}
		}
		if opt && b == 1<<63 {
			b = 0
		}
		return &rc.Value{F: b}
	case rc.KString:
		if mode == ModeDefault && def != nil {
			return def
		}
		s := g.bytes(g.strLen(mode))
		if mode == ModeNonZero && def != nil && string(s) == string(def.S) {
			s = append(s, 'x')
		}
		return &rc.Value{S: s}
	case rc.KStruct:
		v := &rc.Value{Fs: map[int]*rc.Value{}}
		for _, f := range t.St.Fields {
			var d *rc.Value
			if f.HasDefault {
				d = f.Default
			}
			m := mode
			if depth >= g.MaxDepth {
				m = ModeDefault
			}
			if mode == ModeRandom && g.R.Intn(4) == 0 {
				m = ModeDefault // mix of members at and away from their defaults
			}
			v.Fs[f.Tag] = g.Value(f.T, m, depth+1, !f.Require, d)
		}
		return v
	case rc.KVector:
		n := g.count(mode, depth)
		if depth >= g.MaxDepth {
			n = 0
		}
		v := &rc.Value{}
		if t.Elem.Kind == rc.KInt8 {
			if mode == ModeBig && g.R.Intn(4) == 0 {
				n = []int{255, 256, 65536, 100000}[g.R.Intn(4)]
			}
			if n > 0 {
				v.S = g.bytes(n)
			}
			return v
		}
		for i := 0; i < n; i++ {
			em := mode
			if mode == ModeBig {
				em = ModeRandom
			}
			v.L = append(v.L, g.Value(t.Elem, em, depth+1, false, nil))
		}
		return v
	case rc.KArray:
		v := &rc.Value{}
		for i := 0; i < t.Len; i++ {
			if t.Elem.Kind == rc.KInt8 {
				v.S = append(v.S, byte(g.R.Intn(256)))
				if mode == ModeDefault {
					v.S[i] = 0
				}
			} else {
				em := mode
				if em == ModeBig {
					em = ModeRandom
				}
				// array elements of struct type are plain Go zero values, not IDL defaults
				if mode == ModeDefault {
					v.L = append(v.L, rc.GoZero(t.Elem))
				} else {
					v.L = append(v.L, g.Value(t.Elem, em, depth+1, false, nil))
				}
			}
		}
		return v
	case rc.KMap:
		n := g.count(mode, depth)
		if depth >= g.MaxDepth {
			n = 0
		}
		v := &rc.Value{}
		seen := map[string]bool{}
		for i := 0; i < n; i++ {
			km := ModeRandom
			if mode == ModeBoundary {
				km = ModeBoundary
			}
			k := g.Value(t.Key, km, depth+1, false, nil)
			if t.Key.Kind == rc.KFloat || t.Key.Kind == rc.KDouble {
				// no NaN / negative zero keys: Go maps cannot hold them unambiguously
				if t.Key.Kind == rc.KFloat {
					k = &rc.Value{F: uint64(math.Float32bits(float32(i) + 0.5))}
				} else {
					k = &rc.Value{F: math.Float64bits(float64(i) + 0.5)}
				}
			}
			ks := string(rc.EncodeValue(nil, t.Key, k, 0, rc.EncOpt{}))
			if seen[ks] {
				continue
			}
			seen[ks] = true
			em := mode
			if em == ModeBig {
				em = ModeRandom
			}
			v.MK = append(v.MK, k)
			v.MV = append(v.MV, g.Value(t.Elem, em, depth+1, false, nil))
		}
		return v
	}
	return &rc.Value{}
}

// Struct generates a struct value of schema s.
func (g *Gen) Struct(s *rc.Struct, mode int) *rc.Value {
	g.Budget = 400
	return g.Value(&rc.Type{Kind: rc.KStruct, St: s}, mode, 0, false, nil)
}
