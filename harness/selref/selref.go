// Package selref holds the independent reference models for the endpoint selectors: ordered
// member list, weighted-cycle count formula, Ketama / default consistent-hash ring.
package selref

import (
	"crypto/md5"
	"encoding/binary"
	"fmt"
	"sort"

	"github.com/TarsCloud/TarsGo/tars/selector"
	"github.com/TarsCloud/TarsGo/tars/util/endpoint"
)

// Msg is a selector.Message.
type Msg struct {
	Code uint32
	Type selector.HashType
	Hash bool
}

func (m Msg) HashCode() uint32            { return m.Code }
func (m Msg) HashType() selector.HashType { return m.Type }
func (m Msg) IsHash() bool                { return m.Hash }

// EP builds an endpoint.
func EP(host string, weight int32, weightType int32) endpoint.Endpoint {
	e := endpoint.Endpoint{Host: host, Port: 10000, Timeout: 3000, Istcp: 1, Proto: "tcp", Weight: weight, WeightType: weightType}
	e.Key = e.String()
	return e
}

// Model is the reference member list (ordered, unique by host).
type Model struct {
	Eps []endpoint.Endpoint
}

func (m *Model) Has(host string) bool {
	for _, e := range m.Eps {
		if e.Host == host {
			return true
		}
	}
	return false
}

// Add returns false when the host is already a member.
func (m *Model) Add(e endpoint.Endpoint) bool {
	if m.Has(e.Host) {
		return false
	}
	m.Eps = append(m.Eps, e)
	return true
}

func (m *Model) Remove(host string) bool {
	for i, e := range m.Eps {
		if e.Host == host {
			m.Eps = append(append([]endpoint.Endpoint(nil), m.Eps[:i]...), m.Eps[i+1:]...)
			return true
		}
	}
	return false
}

func (m *Model) Refresh(eps []endpoint.Endpoint) {
	m.Eps = nil
	for _, e := range eps {
		m.Add(e)
	}
}

func (m *Model) Hosts() []string {
	var h []string
	for _, e := range m.Eps {
		h = append(h, e.Host)
	}
	return h
}

// AllStatic reports whether every member uses static weights.
func (m *Model) AllStatic() bool {
	for _, e := range m.Eps {
		if e.WeightType != int32(endpoint.EStaticWeight) {
			return false
		}
	}
	return len(m.Eps) > 0
}

// AllPositive reports whether every member has a positive weight.
func (m *Model) AllPositive() bool {
	for _, e := range m.Eps {
		if e.Weight <= 0 {
			return false
		}
	}
	return true
}

// CycleCounts gives, for all-positive static weights, the number of occurrences of every host in
// one full weighted cycle: max(1, floor(W_i*R/W_max)), R = min(100, max(10, floor(W_max/W_min))).
func (m *Model) CycleCounts() (map[string]int, int) {
	wmax, wmin := int64(-1), int64(1)<<62
	for _, e := range m.Eps {
		w := int64(e.Weight)
		if w > wmax {
			wmax = w
		}
		if w < wmin {
			wmin = w
		}
	}
	r := wmax / wmin
	if r < 10 {
		r = 10
	}
	if r > 100 {
		r = 100
	}
	counts := map[string]int{}
	total := 0
	for _, e := range m.Eps {
		c := int(int64(e.Weight) * r / wmax)
		if c < 1 {
			c = 1
		}
		counts[e.Host] = c
		total += c
	}
	return counts, total
}

// ---------- consistent hash reference ring ----------

type point struct {
	key  uint32
	host string
}

// Ring is the reference ring.  Ambiguous reports whether two different hosts own the same point
// (the mapping of that point is then not determined by the set).
type Ring struct {
	pts       []point
	Ambiguous map[uint32][]string
}

// Rounds is the number of md5 rounds for an endpoint.
func Rounds(weighted bool, w int32) int {
	n := 100
	if weighted {
		n = int(w)
	}
	if n <= 0 {
		return 0
	}
	n /= 4
	if n == 0 {
		n = 1
	}
	return n
}

// Points returns the virtual points of one host.
func Points(host string, rounds int, ketama bool) []uint32 {
	var out []uint32
	for i := 0; i < rounds; i++ {
		d := md5.Sum([]byte(fmt.Sprintf("%s_%d", host, i)))
		if ketama {
			for k := 0; k < 4; k++ {
				out = append(out, binary.LittleEndian.Uint32(d[4*k:]))
			}
		} else {
			out = append(out, binary.LittleEndian.Uint32(d[0:])^binary.LittleEndian.Uint32(d[4:])^binary.LittleEndian.Uint32(d[8:])^binary.LittleEndian.Uint32(d[12:]))
		}
	}
	return out
}

// BuildRing builds the reference ring for a member list.
func BuildRing(eps []endpoint.Endpoint, weighted, ketama bool) *Ring {
	r := &Ring{Ambiguous: map[uint32][]string{}}
	owner := map[uint32]string{}
	for _, e := range eps {
		for _, p := range Points(e.Host, Rounds(weighted, e.Weight), ketama) {
			if o, ok := owner[p]; ok && o != e.Host {
				r.Ambiguous[p] = append(r.Ambiguous[p], o, e.Host)
				continue
			}
			if _, ok := owner[p]; !ok {
				owner[p] = e.Host
				r.pts = append(r.pts, point{p, e.Host})
			}
		}
	}
	sort.Slice(r.pts, func(i, j int) bool { return r.pts[i].key < r.pts[j].key })
	return r
}

func (r *Ring) Len() int { return len(r.pts) }

// Lookup returns the owner of code: first point >= code, wrapping.  ambiguous is true when the
// chosen point is contested.
func (r *Ring) Lookup(code uint32) (host string, ambiguous bool, ok bool) {
	if len(r.pts) == 0 {
		return "", false, false
	}
	i := sort.Search(len(r.pts), func(x int) bool { return r.pts[x].key >= code })
	if i >= len(r.pts) {
		i = 0
	}
	_, amb := r.Ambiguous[r.pts[i].key]
	return r.pts[i].host, amb, true
}

// Keys returns all ring point keys.
func (r *Ring) Keys() []uint32 {
	out := make([]uint32, len(r.pts))
	for i, p := range r.pts {
		out[i] = p.key
	}
	return out
}
