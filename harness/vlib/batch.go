package vlib

import (
	"encoding/binary"
	"fmt"
	"os"
	"strconv"
	"syscall"
	"time"
)

// Batch runner: a deterministic case list is processed by child processes; before each case the
// child records the case index in a write-ahead file, so that a child that dies (panic escaping
// every guard, fatal runtime error, out of memory, stack exhaustion) or hangs can be attributed to
// exactly one case; the parent then restarts a child behind that case.

// WAL is the child's write-ahead file.
type WAL struct{ f *os.File }

func OpenWAL() *WAL {
	p := os.Getenv("VERIF_WAL")
	if p == "" {
		return &WAL{}
	}
	f, err := os.OpenFile(p, os.O_WRONLY|os.O_CREATE, 0o644)
	if err != nil {
		return &WAL{}
	}
	return &WAL{f: f}
}

// Mark records that case i is about to run.
func (w *WAL) Mark(i int) {
	if w.f == nil {
		return
	}
	var b [8]byte
	binary.LittleEndian.PutUint64(b[:], uint64(i)+1)
	_, _ = w.f.WriteAt(b[:], 0)
}

// Done records that the range finished.
func (w *WAL) Done() {
	if w.f != nil {
		var b [8]byte
		_, _ = w.f.WriteAt(b[:], 0)
		w.f.Close()
	}
}

func readWAL(p string) (int, bool) {
	b, err := os.ReadFile(p)
	if err != nil || len(b) < 8 {
		return 0, false
	}
	v := binary.LittleEndian.Uint64(b)
	if v == 0 {
		return 0, false
	}
	return int(v - 1), true
}

// ChildRange returns the case range of this child (VERIF_FROM, VERIF_TO).
func ChildRange() (int, int) {
	from, _ := strconv.Atoi(os.Getenv("VERIF_FROM"))
	to, _ := strconv.Atoi(os.Getenv("VERIF_TO"))
	return from, to
}

// LimitAddressSpace sets RLIMIT_AS for the current process.
func LimitAddressSpace(bytes uint64) {
	_ = syscall.Setrlimit(syscall.RLIMIT_AS, &syscall.Rlimit{Cur: bytes, Max: bytes})
}

// BatchOutcome describes an abnormal end of a child at one case.
type BatchOutcome struct {
	Case     int
	Kind     string // "death" | "hang"
	Exit     int
	Stderr   string
	CPU      time.Duration
	Elapsed  time.Duration
	Signaled bool
}

// RunBatches processes cases [0,n) in child processes of at most batch cases each, workers in
// parallel.  env is passed to every child; perBatchTimeout bounds one child.  onAbnormal is
// called (from the calling goroutine) for every case that killed or hung a child.
func (r *Run) RunBatches(n, batch, workers int, env []string, perBatchTimeout time.Duration, onAbnormal func(BatchOutcome)) {
	type job struct{ from, to int }
	jobs := make(chan job, n/batch+2)
	for f := 0; f < n; f += batch {
		t := f + batch
		if t > n {
			t = n
		}
		jobs <- job{f, t}
	}
	close(jobs)
	type result struct {
		stdout string
		out    *BatchOutcome
	}
	results := make(chan result, 64)
	done := make(chan struct{})
	dir := os.Getenv("VERIF_BUILD")
	if dir == "" {
		dir = os.TempDir()
	}
	for w := 0; w < workers; w++ {
		go func(w int) {
			for j := range jobs {
				from := j.from
				for from < j.to {
					wal := fmt.Sprintf("%s/wal-%d-%d", dir, w, from)
					os.Remove(wal)
					e := append([]string{"VERIF_CHILD=batch", "VERIF_WAL=" + wal, fmt.Sprintf("VERIF_FROM=%d", from), fmt.Sprintf("VERIF_TO=%d", j.to)}, env...)
					res := RunSelf(e, perBatchTimeout)
					last, has := readWAL(wal)
					os.Remove(wal)
					if !res.TimedOut && res.Exit == 0 {
						results <- result{stdout: res.Stdout}
						break
					}
					if !has {
						// died before the first case / after the last one
						results <- result{stdout: res.Stdout, out: &BatchOutcome{Case: -1, Kind: "death", Exit: res.Exit, Stderr: headTail(res.Stderr)}}
						break
					}
					kind := "death"
					if res.TimedOut {
						kind = "hang"
					}
					results <- result{stdout: res.Stdout, out: &BatchOutcome{Case: last, Kind: kind, Exit: res.Exit, Stderr: headTail(res.Stderr), CPU: res.UserCPU + res.SysCPU, Elapsed: res.Elapsed, Signaled: res.Signaled}}
					from = last + 1
				}
			}
			done <- struct{}{}
		}(w)
	}
	fin := 0
	for fin < workers {
		select {
		case res := <-results:
			r.Absorb(res.stdout)
			if res.out != nil {
				onAbnormal(*res.out)
			}
		case <-done:
			fin++
		}
	}
	for {
		select {
		case res := <-results:
			r.Absorb(res.stdout)
			if res.out != nil {
				onAbnormal(*res.out)
			}
		default:
			return
		}
	}
}

// IsBatchChild reports whether this process is a batch child.
func IsBatchChild() bool { return os.Getenv("VERIF_CHILD") == "batch" }

// headTail keeps the beginning (where Go prints the fatal error) and the end of a long stderr.
func headTail(s string) string {
	if len(s) <= 4000 {
		return s
	}
	return s[:2000] + "\n…\n" + s[len(s)-2000:]
}
