package vlib

import (
	"bytes"
	"encoding/json"
	"os"
	"os/exec"
	"strings"
	"sync"
	"syscall"
	"time"
)

// ChildResult describes a finished child process.
type ChildResult struct {
	Exit     int
	Signaled bool
	Stdout   string
	Stderr   string
	TimedOut bool
	Elapsed  time.Duration
	UserCPU  time.Duration
	SysCPU   time.Duration
}

// RunSelf re-executes the current binary with extra environment variables (the binary's main must
// dispatch on them) and waits up to timeout.
func RunSelf(env []string, timeout time.Duration) ChildResult {
	return RunCmd(os.Args[0], nil, env, nil, timeout)
}

// RunCmd runs a command with a wall-clock watchdog and returns its output and resource usage.
func RunCmd(bin string, args []string, env []string, stdin []byte, timeout time.Duration) ChildResult {
	return RunCmdDir(bin, args, "", env, stdin, timeout)
}

// RunCmdDir is RunCmd with a working directory.
func RunCmdDir(bin string, args []string, dir string, env []string, stdin []byte, timeout time.Duration) ChildResult {
	cmd := exec.Command(bin, args...)
	cmd.Dir = dir
	cmd.Env = append(os.Environ(), env...)
	var so, se bytes.Buffer
	cmd.Stdout = &so
	cmd.Stderr = &se
	if stdin != nil {
		cmd.Stdin = bytes.NewReader(stdin)
	}
	t0 := time.Now()
	res := ChildResult{}
	if err := cmd.Start(); err != nil {
		res.Exit = -1
		res.Stderr = err.Error()
		return res
	}
	done := make(chan error, 1)
	go func() { done <- cmd.Wait() }()
	select {
	case <-done:
	case <-time.After(timeout):
		res.TimedOut = true
		_ = cmd.Process.Signal(syscall.SIGQUIT)
		select {
		case <-done:
		case <-time.After(5 * time.Second):
			_ = cmd.Process.Kill()
			<-done
		}
	}
	res.Elapsed = time.Since(t0)
	if ps := cmd.ProcessState; ps != nil {
		res.Exit = ps.ExitCode()
		if ws, ok := ps.Sys().(syscall.WaitStatus); ok && ws.Signaled() {
			res.Signaled = true
		}
		res.UserCPU = ps.UserTime()
		res.SysCPU = ps.SystemTime()
	}
	res.Stdout = so.String()
	res.Stderr = se.String()
	return res
}

// Tail returns the last n bytes of s.
func Tail(s string, n int) string {
	if len(s) > n {
		return "…" + s[len(s)-n:]
	}
	return s
}

// ---- child -> parent result protocol (JSON lines on stdout) ----

type childMsg struct {
	T       string      `json:"t"`
	Class   string      `json:"class,omitempty"`
	Locus   string      `json:"locus,omitempty"`
	Detail  string      `json:"detail,omitempty"`
	Witness interface{} `json:"witness,omitempty"`
	Key     string      `json:"key,omitempty"`
	N       int64       `json:"n,omitempty"`
	Sample  interface{} `json:"sample,omitempty"`
}

// Emitter is used by child processes to report to the parent run.
type Emitter struct {
	mu  sync.Mutex
	enc *json.Encoder
}

func NewEmitter() *Emitter { return &Emitter{enc: json.NewEncoder(os.Stdout)} }

func (e *Emitter) send(m childMsg) {
	e.mu.Lock()
	_ = e.enc.Encode(m)
	e.mu.Unlock()
}
func (e *Emitter) Violation(class, locus, detail string, witness interface{}) {
	e.send(childMsg{T: "v", Class: class, Locus: locus, Detail: detail, Witness: witness})
}
func (e *Emitter) Eval(n int64)             { e.send(childMsg{T: "e", N: n}) }
func (e *Emitter) Distinct(key string)      { e.send(childMsg{T: "d", Key: key}) }
func (e *Emitter) Add(k string, n int64)    { e.send(childMsg{T: "a", Key: k, N: n}) }
func (e *Emitter) Sample(v interface{})     { e.send(childMsg{T: "s", Sample: v}) }
func (e *Emitter) Inconclusive(what string) { e.send(childMsg{T: "i", Detail: what}) }

// Case announces the case about to run (write-ahead: if the process dies or hangs, the parent
// attributes that to the last announced case).
func (e *Emitter) Case(v interface{}) { e.send(childMsg{T: "c", Sample: v}) }

// Absorb merges a child's stdout protocol lines into the run; returns the number of lines used.
func (r *Run) Absorb(stdout string) int {
	n := 0
	dec := json.NewDecoder(strings.NewReader(stdout))
	for {
		var m childMsg
		if err := dec.Decode(&m); err != nil {
			break
		}
		n++
		switch m.T {
		case "v":
			r.Violation(m.Class, m.Locus, m.Detail, m.Witness)
		case "e":
			r.Eval(m.N)
		case "d":
			r.Distinct(m.Key)
		case "a":
			r.Add(m.Key, m.N)
		case "s":
			r.Sample(m.Sample)
		case "i":
			r.Inconclusive(m.Detail)
		case "c":
			r.LastCase = m.Sample
		}
	}
	return n
}
