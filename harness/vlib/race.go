package vlib

import (
	"os"
	"path/filepath"
	"regexp"
	"strings"
)

// RaceReport is one "WARNING: DATA RACE" block of the Go race detector's log.
type RaceReport struct {
	Text   string
	Frames []string // function names of all frames, in order of appearance
	Files  []string // file:line of all frames
}

var lineNo = regexp.MustCompile(`:\d+( \+0x[0-9a-f]+)?$`)

// Key returns a deduplication key: the frames with line numbers stripped.
func (r *RaceReport) Key() string {
	var fs []string
	for _, f := range r.Files {
		fs = append(fs, lineNo.ReplaceAllString(f, ""))
	}
	return strings.Join(r.Frames, ">") + "|" + strings.Join(fs, ">")
}

// accessFrames returns, for each of the two racing accesses, the first frame outside the Go
// standard library (the code that performed the access, or its closest caller in the repository).
func (r *RaceReport) accessFrames() []string {
	var out []string
	secs := strings.Split(r.Text, "\n\n")
	for _, s := range secs {
		t := strings.TrimSpace(s)
		if !(strings.HasPrefix(t, "Read at") || strings.HasPrefix(t, "Write at") || strings.HasPrefix(t, "Previous read") || strings.HasPrefix(t, "Previous write") ||
			strings.HasPrefix(t, "Previous atomic") || strings.HasPrefix(t, "Atomic") || strings.HasPrefix(t, "WARNING: DATA RACE")) {
			continue
		}
		for _, l := range strings.Split(t, "\n") {
			l = strings.TrimSpace(l)
			if !strings.HasPrefix(l, "/") {
				continue
			}
			if !(strings.Contains(l, "TarsGo") || strings.HasPrefix(l, Repo()+"/") || strings.HasPrefix(l, Root()+"/") || strings.Contains(l, "/pkg/mod/")) {
				continue
			}
			out = append(out, l)
			break
		}
	}
	return out
}

// Touches reports whether at least one of the two racing accesses is attributed to a file whose
// path contains sub.
func (r *RaceReport) Touches(sub string) bool {
	for _, f := range r.accessFrames() {
		if strings.Contains(f, sub) {
			return true
		}
	}
	return false
}

// TouchesBoth reports whether both racing accesses are attributed to files whose path contains sub
// (state that only that package touches).
func (r *RaceReport) TouchesBoth(sub string) bool {
	fs := r.accessFrames()
	if len(fs) < 2 {
		return false
	}
	for _, f := range fs {
		if !strings.Contains(f, sub) {
			return false
		}
	}
	return true
}

// ReadRaceReports parses every race log file written by this process tree (GORACE log_path prefix
// taken from the environment).
func ReadRaceReports() []RaceReport {
	gr := os.Getenv("GORACE")
	prefix := ""
	for _, f := range strings.Fields(gr) {
		if strings.HasPrefix(f, "log_path=") {
			prefix = strings.TrimPrefix(f, "log_path=")
		}
	}
	if prefix == "" {
		return nil
	}
	files, _ := filepath.Glob(prefix + ".*")
	var out []RaceReport
	for _, fn := range files {
		b, err := os.ReadFile(fn)
		if err != nil {
			continue
		}
		blocks := strings.Split(string(b), "==================")
		for _, blk := range blocks {
			if !strings.Contains(blk, "WARNING: DATA RACE") {
				continue
			}
			rr := RaceReport{Text: strings.TrimSpace(blk)}
			for _, l := range strings.Split(blk, "\n") {
				t := strings.TrimSpace(l)
				if strings.HasPrefix(t, "/") {
					rr.Files = append(rr.Files, t)
				} else if strings.HasSuffix(t, ")") && strings.Contains(t, "(") && !strings.Contains(t, " ") {
					rr.Frames = append(rr.Frames, t[:strings.Index(t, "(")])
				}
			}
			out = append(out, rr)
		}
	}
	return out
}

// RaceEnabled reports whether this binary was built with -race (set by check.sh).
func RaceEnabled() bool { return os.Getenv("VERIF_RACE") != "" }
