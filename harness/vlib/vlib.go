// Package vlib is the shared run/evidence/verdict machinery of the /verif checks.
//
// A check creates one *Run, reports what its monitors observed (Eval / Distinct / Sample),
// reports violations with a narrow signature (class, locus) that is matched against
// /verif/known_findings.json, and finally calls Finish, which writes
// /verif/evidence/<id>.json, prints VIOLATION / KNOWN-FINDING lines and exits.
package vlib

import (
	"encoding/json"
	"fmt"
	"math/rand"
	"os"
	"path/filepath"
	"sort"
	"strconv"
	"strings"
	"sync"
	"sync/atomic"
	"time"
)

// Root returns the /verif directory.
func Root() string {
	if r := os.Getenv("VERIF_ROOT"); r != "" {
		return r
	}
	return "/verif"
}

// Repo returns the repository under test.
// Out is where evidence and replay files go: VERIF_OUT when set (used when seeded changes are
// tried on scratch copies of the repository, so that those runs leave /verif/evidence alone),
// else Root().
func Out() string {
	if r := os.Getenv("VERIF_OUT"); r != "" {
		return r
	}
	return Root()
}

func Repo() string {
	if r := os.Getenv("VERIF_REPO"); r != "" {
		return r
	}
	return "/repo"
}

type Finding struct {
	Property string `json:"property"`
	Status   string `json:"status"` // "open" | "fixed"
	Class    string `json:"class"`
	Locus    string `json:"locus"`
	What     string `json:"what"`
	Commit   string `json:"commit,omitempty"`
}

type findingsFile struct {
	Findings []Finding `json:"findings"`
}

type violation struct {
	Class   string
	Locus   string
	Detail  string
	Replay  string
	Known   bool
	KnownAs string
}

// Run is one execution of one check.
type Run struct {
	ID    string
	Tier  string
	Seed  int64
	Level string

	start time.Time
	// LastCase is the last case a child announced before running it (see Emitter.Case).
	LastCase interface{}

	evals atomic.Int64

	mu           sync.Mutex
	distinct     map[string]struct{}
	distinctN    int64 // when counted without storing keys
	samples      []interface{}
	maxSamples   int
	extra        map[string]interface{}
	assumptions  []string
	rule         string
	violations   []violation
	vioBySig     map[string]int
	inconclusive []string
	known        []Finding
	replayPath   string // set when the run is a replay of one recorded case
	exhaustive   bool
}

// Start creates the run for property id; tier and seed come from VERIF_TIER / VERIF_SEED.
func Start(id string) *Run {
	r := &Run{ID: id, Tier: "quick", Seed: 1, Level: "exploration", start: time.Now(),
		distinct: map[string]struct{}{}, extra: map[string]interface{}{}, vioBySig: map[string]int{}, maxSamples: 8}
	if t := os.Getenv("VERIF_TIER"); t == "thorough" {
		r.Tier = "thorough"
	}
	if s := os.Getenv("VERIF_SEED"); s != "" {
		if v, err := strconv.ParseInt(s, 10, 64); err == nil {
			r.Seed = v
		}
	}
	r.replayPath = os.Getenv("VERIF_REPLAY")
	b, err := os.ReadFile(filepath.Join(Root(), "known_findings.json"))
	if err == nil {
		var ff findingsFile
		if err := json.Unmarshal(b, &ff); err != nil {
			fmt.Fprintf(os.Stderr, "known_findings.json unreadable: %v\n", err)
			os.Exit(3)
		}
		for _, f := range ff.Findings {
			if f.Property == id {
				r.known = append(r.known, f)
			}
		}
	}
	return r
}

func (r *Run) Thorough() bool { return r.Tier == "thorough" }

// Pick returns q in the quick tier and t in the thorough tier.
func (r *Run) Pick(q, t int) int {
	if r.Thorough() {
		return t
	}
	return q
}

// Rand returns a PRNG derived from the run seed and a stream name.
func (r *Run) Rand(stream string) *rand.Rand { return SeedRand(r.Seed, stream) }

// SeedRand returns a PRNG derived from a seed and a stream name.
func SeedRand(seed int64, stream string) *rand.Rand {
	h := uint64(1469598103934665603)
	for i := 0; i < len(stream); i++ {
		h ^= uint64(stream[i])
		h *= 1099511628211
	}
	return rand.New(rand.NewSource(seed*1000003 + int64(h&0x7fffffffffff)))
}

func (r *Run) SetRule(s string)     { r.rule = s }
func (r *Run) SetExhaustive(b bool) { r.exhaustive = b }
func (r *Run) Assume(s string)      { r.mu.Lock(); r.assumptions = append(r.assumptions, s); r.mu.Unlock() }
func (r *Run) Eval(n int64)         { r.evals.Add(n) }
func (r *Run) Evals() int64         { return r.evals.Load() }
func (r *Run) ReplayPath() string   { return r.replayPath }
func (r *Run) SetMaxSamples(n int)  { r.maxSamples = n }
func (r *Run) Set(k string, v interface{}) {
	r.mu.Lock()
	r.extra[k] = v
	r.mu.Unlock()
}

// Max raises a numeric coverage gauge to n if n is larger.
func (r *Run) Max(k string, n int64) {
	r.mu.Lock()
	if v, ok := r.extra[k].(int64); !ok || n > v {
		r.extra[k] = n
	}
	r.mu.Unlock()
}

// Add adds n to a numeric coverage counter.
func (r *Run) Add(k string, n int64) {
	r.mu.Lock()
	if v, ok := r.extra[k].(int64); ok {
		r.extra[k] = v + n
	} else {
		r.extra[k] = n
	}
	r.mu.Unlock()
}

// Distinct records a distinct non-trivial case key (deduplicated).
func (r *Run) Distinct(key string) {
	r.mu.Lock()
	r.distinct[key] = struct{}{}
	r.mu.Unlock()
}

// DistinctN adds n cases that the caller knows to be pairwise distinct and distinct from all keys.
func (r *Run) DistinctN(n int64) {
	r.mu.Lock()
	r.distinctN += n
	r.mu.Unlock()
}

// Sample records an actual case for the evidence file (bounded).
func (r *Run) Sample(v interface{}) {
	r.mu.Lock()
	if len(r.samples) < r.maxSamples {
		r.samples = append(r.samples, v)
	}
	r.mu.Unlock()
}

// Inconclusive records a case that could not be decided.
func (r *Run) Inconclusive(what string) {
	r.mu.Lock()
	if len(r.inconclusive) < 50 {
		r.inconclusive = append(r.inconclusive, what)
	}
	r.Addl("inconclusive_cases", 1)
	r.mu.Unlock()
}

// Addl is Add with the lock already held.
func (r *Run) Addl(k string, n int64) {
	if v, ok := r.extra[k].(int64); ok {
		r.extra[k] = v + n
	} else {
		r.extra[k] = n
	}
}

// Violation reports a violation with signature (class, locus).  witness is written to
// /verif/replays/<id>/ as JSON (first occurrence per signature only) and its path returned.
func (r *Run) Violation(class, locus, detail string, witness interface{}) {
	sig := class + "|" + locus
	r.mu.Lock()
	defer r.mu.Unlock()
	r.vioBySig[sig]++
	if r.vioBySig[sig] > 1 {
		return
	}
	v := violation{Class: class, Locus: locus, Detail: detail}
	for _, f := range r.known {
		if f.Status == "open" && f.Class == class && f.Locus == locus {
			v.Known = true
			v.KnownAs = f.What
		}
	}
	dir := filepath.Join(Out(), "replays", r.ID)
	_ = os.MkdirAll(dir, 0o755)
	name := sanitize(fmt.Sprintf("%s_%s_seed%d_%s", class, locus, r.Seed, r.Tier))
	if len(name) > 150 {
		name = name[:150]
	}
	p := filepath.Join(dir, name+".json")
	w := map[string]interface{}{"property": r.ID, "class": class, "locus": locus, "detail": detail,
		"seed": r.Seed, "tier": r.Tier, "witness": witness}
	if b, err := json.MarshalIndent(w, "", " "); err == nil {
		_ = os.WriteFile(p, b, 0o644)
	} else {
		_ = os.WriteFile(p, []byte(fmt.Sprintf("%v\n%v", w, err)), 0o644)
	}
	v.Replay = p
	r.violations = append(r.violations, v)
}

func sanitize(s string) string {
	var b strings.Builder
	for _, c := range s {
		switch {
		case c >= 'a' && c <= 'z', c >= 'A' && c <= 'Z', c >= '0' && c <= '9', c == '-', c == '_', c == '.':
			b.WriteRune(c)
		default:
			b.WriteByte('_')
		}
	}
	return b.String()
}

// NumViolations returns the number of distinct violation signatures so far (known or not).
func (r *Run) NumViolations() int {
	r.mu.Lock()
	defer r.mu.Unlock()
	return len(r.violations)
}

// Finish writes the evidence file, prints the verdict lines and exits.
func (r *Run) Finish() {
	r.mu.Lock()
	defer r.mu.Unlock()
	unknown := 0
	sort.Slice(r.violations, func(i, j int) bool {
		return r.violations[i].Class+r.violations[i].Locus < r.violations[j].Class+r.violations[j].Locus
	})
	var vioList []map[string]interface{}
	for _, v := range r.violations {
		n := r.vioBySig[v.Class+"|"+v.Locus]
		if v.Known {
			fmt.Printf("KNOWN-FINDING: property=%s class=%s locus=%s occurrences=%d %s\n", r.ID, v.Class, v.Locus, n, v.KnownAs)
		} else {
			unknown++
			fmt.Printf("VIOLATION property=%s replay=%s\n", r.ID, v.Replay)
			fmt.Printf("  class=%s locus=%s occurrences=%d detail=%s\n", v.Class, v.Locus, n, oneLine(v.Detail))
		}
		vioList = append(vioList, map[string]interface{}{"class": v.Class, "locus": v.Locus, "known_finding": v.Known, "occurrences": n, "replay": v.Replay, "detail": oneLine(v.Detail)})
	}
	cov := map[string]interface{}{}
	for k, v := range r.extra {
		cov[k] = v
	}
	evals := r.evals.Load()
	dn := int64(len(r.distinct)) + r.distinctN
	cov["evaluations"] = evals
	cov["distinct_nontrivial"] = dn
	cov["rule"] = r.rule
	if len(r.samples) == 0 {
		cov["samples"] = []interface{}{}
	} else {
		cov["samples"] = r.samples
	}
	if r.exhaustive {
		cov["exhaustive"] = true
	}
	if len(r.inconclusive) > 0 {
		cov["inconclusive_samples"] = r.inconclusive
	}
	if len(vioList) > 0 {
		cov["violation_signatures"] = vioList
	}
	ev := map[string]interface{}{
		"property_id": r.ID, "tier": r.Tier, "seed": r.Seed, "level": r.Level,
		"coverage": cov, "assumptions": r.assumptions, "wall_s": time.Since(r.start).Seconds(),
		"violations": unknown,
	}
	if ev["assumptions"] == nil {
		ev["assumptions"] = []string{}
	}
	b, _ := json.MarshalIndent(ev, "", " ")
	empty := evals == 0 || dn < 2 || len(r.samples) == 0
	if r.replayPath == "" {
		_ = os.MkdirAll(filepath.Join(Out(), "evidence"), 0o755)
		if err := os.WriteFile(filepath.Join(Out(), "evidence", r.ID+".json"), b, 0o644); err != nil {
			fmt.Fprintf(os.Stderr, "cannot write evidence: %v\n", err)
			os.Exit(3)
		}
	}
	fmt.Printf("SUMMARY property=%s tier=%s seed=%d evaluations=%d distinct=%d violations=%d known=%d wall=%.1fs\n",
		r.ID, r.Tier, r.Seed, evals, dn, unknown, len(r.violations)-unknown, time.Since(r.start).Seconds())
	if unknown > 0 {
		os.Exit(1)
	}
	if empty && r.replayPath == "" {
		fmt.Printf("INCONCLUSIVE property=%s: the run observed nothing (evaluations=%d distinct=%d samples=%d)\n", r.ID, evals, dn, len(r.samples))
		os.Exit(2)
	}
	os.Exit(0)
}

func oneLine(s string) string {
	s = strings.ReplaceAll(s, "\n", " / ")
	if len(s) > 400 {
		s = s[:400] + "…"
	}
	return s
}

// LoadReplay reads the witness part of a replay file into v.
func LoadReplay(path string, v interface{}) error {
	b, err := os.ReadFile(path)
	if err != nil {
		return err
	}
	var w struct {
		Witness json.RawMessage `json:"witness"`
	}
	if err := json.Unmarshal(b, &w); err != nil {
		return err
	}
	return json.Unmarshal(w.Witness, v)
}
