// Package vworld is the end-to-end "world" for the call-transparency monitors: the generated
// dispatcher and proxy of /verif/idl/VIface.tars (compiled at check time by the working tree's
// tars2go and injected through the build overlay), a recording servant implementation, the real
// server-side tars.Protocol on a real transport.TarsServer, and a reflection-driven caller.
package vworld

import (
	"context"
	"reflect"
	"sync"

	"github.com/TarsCloud/TarsGo/tars"
	"github.com/TarsCloud/TarsGo/tars/util/current"

	"verif/gen/VI"
	"verif/gen/VT"
)

// TokenKey is the request-context key that carries the call token.
const TokenKey = "vtoken"

// Directive tells the servant what to produce for one call.
type Directive struct {
	Ret        interface{}   // Go value of the return type (nil for void)
	Outs       []interface{} // Go values for the out parameters, in order
	RspContext map[string]string
	RspStatus  map[string]string
	Err        error // returned instead of producing values
	Gate       chan struct{}
}

// Received is what the servant observed for one invocation.
type Received struct {
	Func       string
	Ins        []interface{} // copies of the in parameters (structs dereferenced)
	ReqContext map[string]string
	ReqStatus  map[string]string
	HasContext bool
	HasStatus  bool
	Stamp      int64
}

// Servant is the recording implementation of VI.Echo (with context).
type Servant struct {
	mu         sync.Mutex
	directives map[string]*Directive
	received   map[string][]*Received
	Clock      func() int64
	Untokened  int
	// Forward, when set, is called by every invocation that has a context, before it produces its
	// results: a servant that calls on to another servant with the context it was given.
	Forward func(ctx context.Context, token string)
}

func NewServant() *Servant {
	return &Servant{directives: map[string]*Directive{}, received: map[string][]*Received{}}
}

func (s *Servant) SetDirective(token string, d *Directive) {
	s.mu.Lock()
	s.directives[token] = d
	s.mu.Unlock()
}

func (s *Servant) ReceivedFor(token string) []*Received {
	s.mu.Lock()
	defer s.mu.Unlock()
	return append([]*Received(nil), s.received[token]...)
}

// Leftover returns the tokens that still have recorded invocations (after Forget: invocations
// that arrived later) with their counts.
func (s *Servant) Leftover() map[string]int {
	s.mu.Lock()
	defer s.mu.Unlock()
	m := map[string]int{}
	for k, v := range s.received {
		if len(v) > 0 {
			m[k] = len(v)
		}
	}
	return m
}

func (s *Servant) Forget(token string) {
	s.mu.Lock()
	delete(s.directives, token)
	delete(s.received, token)
	s.mu.Unlock()
}

func copyMap(m map[string]string) map[string]string {
	if m == nil {
		return nil
	}
	c := make(map[string]string, len(m))
	for k, v := range m {
		c[k] = v
	}
	return c
}

func deref(v interface{}) interface{} {
	rv := reflect.ValueOf(v)
	if rv.Kind() == reflect.Ptr && !rv.IsNil() {
		return rv.Elem().Interface()
	}
	return v
}

// handle is the common body of every servant method: record what arrived, then produce what the
// directive says.  outs are pointers to the out parameters, ret a pointer to the return value.
func (s *Servant) handle(ctx context.Context, fn string, ins []interface{}, outs []interface{}, ret interface{}) error {
	rc, hasC := current.GetRequestContext(ctx)
	rs, hasS := current.GetRequestStatus(ctx)
	return s.handleToken(ctx, rc[TokenKey], rc, rs, hasC, hasS, fn, ins, outs, ret)
}

func (s *Servant) handleToken(ctx context.Context, token string, rc, rs map[string]string, hasC, hasS bool, fn string, ins []interface{}, outs []interface{}, ret interface{}) error {
	rec := &Received{Func: fn, ReqContext: copyMap(rc), ReqStatus: copyMap(rs), HasContext: hasC, HasStatus: hasS}
	for _, in := range ins {
		rec.Ins = append(rec.Ins, deref(in))
	}
	if s.Clock != nil {
		rec.Stamp = s.Clock()
	}
	s.mu.Lock()
	if token == "" {
		s.Untokened++
	}
	s.received[token] = append(s.received[token], rec)
	d := s.directives[token]
	s.mu.Unlock()
	if s.Forward != nil && ctx != nil {
		s.Forward(ctx, token)
	}
	if d == nil {
		return nil
	}
	if d.Gate != nil {
		<-d.Gate
	}
	if d.RspContext != nil && ctx != nil {
		current.SetResponseContext(ctx, d.RspContext)
	}
	if d.RspStatus != nil && ctx != nil {
		current.SetResponseStatus(ctx, d.RspStatus)
	}
	if d.Err != nil {
		return d.Err
	}
	for i, o := range outs {
		if i < len(d.Outs) && d.Outs[i] != nil {
			reflect.ValueOf(o).Elem().Set(reflect.ValueOf(d.Outs[i]))
		}
	}
	if ret != nil && d.Ret != nil {
		reflect.ValueOf(ret).Elem().Set(reflect.ValueOf(d.Ret))
	}
	return nil
}

var _ VI.EchoServantWithContext = (*Servant)(nil)
var _ = tars.Errorf

func (s *Servant) Scalars(ctx context.Context, b bool, i8 int8, i16 int16, i32 int32, i64 int64, u8 uint8, u16 uint16, u32 uint32, f32 float32, f64 float64, str string, ob *bool, oi8 *int8, oi16 *int16, oi32 *int32, oi64 *int64, ou8 *uint8, ou16 *uint16, ou32 *uint32, of32 *float32, of64 *float64, os *string) (ret int32, err error) {
	err = s.handle(ctx, "scalars", []interface{}{b, i8, i16, i32, i64, u8, u16, u32, f32, f64, str}, []interface{}{ob, oi8, oi16, oi32, oi64, ou8, ou16, ou32, of32, of64, os}, &ret)
	return
}
func (s *Servant) Strs(ctx context.Context, a string, b []string, c *[]string) (ret string, err error) {
	err = s.handle(ctx, "strs", []interface{}{a, b}, []interface{}{c}, &ret)
	return
}
func (s *Servant) Bytes(ctx context.Context, a []int8, b *[]int8) (ret []int8, err error) {
	err = s.handle(ctx, "bytes", []interface{}{a}, []interface{}{b}, &ret)
	return
}
func (s *Servant) Nested(ctx context.Context, a [][]int32, b *[][]int64) (ret [][]int32, err error) {
	err = s.handle(ctx, "nested", []interface{}{a}, []interface{}{b}, &ret)
	return
}
func (s *Servant) Maps(ctx context.Context, a map[string]string, b map[int32][]VI.Pair, c *map[int32][]VI.Pair) (ret map[string]string, err error) {
	err = s.handle(ctx, "maps", []interface{}{a, b}, []interface{}{c}, &ret)
	return
}
func (s *Servant) Structs(ctx context.Context, a *VT.Outer, p *VI.Pair, c *VT.Containers, q *VI.Pair) (ret VT.Outer, err error) {
	err = s.handle(ctx, "structs", []interface{}{a, p}, []interface{}{c, q}, &ret)
	return
}
func (s *Servant) Enums(ctx context.Context, a VT.Color, b []VT.Color, c *VT.Color) (ret VT.Color, err error) {
	err = s.handle(ctx, "enums", []interface{}{a, b}, []interface{}{c}, &ret)
	return
}
func (s *Servant) Nothing(ctx context.Context) (err error) {
	return s.handle(ctx, "nothing", nil, nil, nil)
}
func (s *Servant) OnlyOut(ctx context.Context, a *int32, b *string, c *VI.Pair) (err error) {
	return s.handle(ctx, "onlyOut", nil, []interface{}{a, b, c}, nil)
}
func (s *Servant) OutFirst(ctx context.Context, tokenOut *string, token string, x int32) (ret int64, err error) {
	err = s.handle(ctx, "outFirst", []interface{}{token, x}, []interface{}{tokenOut}, &ret)
	return
}
func (s *Servant) Mixed(ctx context.Context, token string, first *VI.Pair, in *VT.Inner, second *[]int32, m map[string]VI.Pair, third *map[string]VI.Pair) (ret bool, err error) {
	err = s.handle(ctx, "mixed", []interface{}{token, in, m}, []interface{}{first, second, third}, &ret)
	return
}
func (s *Servant) Twins(ctx context.Context, first string, second string, third []int8, fourth []int8, joined *string) (ret int32, err error) {
	err = s.handle(ctx, "twins", []interface{}{first, second, third, fourth}, []interface{}{joined}, &ret)
	return
}
func (s *Servant) Opt(ctx context.Context, a *VT.OptScalars, b *VT.OptContainers) (ret VT.OptScalars, err error) {
	err = s.handle(ctx, "opt", []interface{}{a}, []interface{}{b}, &ret)
	return
}

// PlainServant is the same recording implementation behind the context-less servant interface
// (the generated dispatcher has separate call emitters for servants with and without context).
// Without a context the implementation cannot see the token, so the caller announces the token of
// the (single) call in flight with SetCurrent; request context/status are not observable here.
type PlainServant struct {
	S   *Servant
	mu  sync.Mutex
	cur string
}

func (ps *PlainServant) SetCurrent(token string) { ps.mu.Lock(); ps.cur = token; ps.mu.Unlock() }

func (ps *PlainServant) handle(fn string, ins []interface{}, outs []interface{}, ret interface{}) error {
	ps.mu.Lock()
	tok := ps.cur
	ps.mu.Unlock()
	return ps.S.handleToken(nil, tok, nil, nil, false, false, fn, ins, outs, ret)
}

var _ VI.EchoServant = (*PlainServant)(nil)

func (ps *PlainServant) Strs(a string, b []string, c *[]string) (ret string, err error) {
	err = ps.handle("strs", []interface{}{a, b}, []interface{}{c}, &ret)
	return
}
func (ps *PlainServant) Bytes(a []int8, b *[]int8) (ret []int8, err error) {
	err = ps.handle("bytes", []interface{}{a}, []interface{}{b}, &ret)
	return
}
func (ps *PlainServant) Nested(a [][]int32, b *[][]int64) (ret [][]int32, err error) {
	err = ps.handle("nested", []interface{}{a}, []interface{}{b}, &ret)
	return
}
func (ps *PlainServant) Maps(a map[string]string, b map[int32][]VI.Pair, c *map[int32][]VI.Pair) (ret map[string]string, err error) {
	err = ps.handle("maps", []interface{}{a, b}, []interface{}{c}, &ret)
	return
}
func (ps *PlainServant) Structs(a *VT.Outer, p *VI.Pair, c *VT.Containers, q *VI.Pair) (ret VT.Outer, err error) {
	err = ps.handle("structs", []interface{}{a, p}, []interface{}{c, q}, &ret)
	return
}
func (ps *PlainServant) Enums(a VT.Color, b []VT.Color, c *VT.Color) (ret VT.Color, err error) {
	err = ps.handle("enums", []interface{}{a, b}, []interface{}{c}, &ret)
	return
}
func (ps *PlainServant) Nothing() (err error) {
	return ps.handle("nothing", nil, nil, nil)
}
func (ps *PlainServant) OnlyOut(a *int32, b *string, c *VI.Pair) (err error) {
	return ps.handle("onlyOut", nil, []interface{}{a, b, c}, nil)
}
func (ps *PlainServant) OutFirst(tokenOut *string, token string, x int32) (ret int64, err error) {
	err = ps.handle("outFirst", []interface{}{token, x}, []interface{}{tokenOut}, &ret)
	return
}
func (ps *PlainServant) Mixed(token string, first *VI.Pair, in *VT.Inner, second *[]int32, m map[string]VI.Pair, third *map[string]VI.Pair) (ret bool, err error) {
	err = ps.handle("mixed", []interface{}{token, in, m}, []interface{}{first, second, third}, &ret)
	return
}
func (ps *PlainServant) Twins(first string, second string, third []int8, fourth []int8, joined *string) (ret int32, err error) {
	err = ps.handle("twins", []interface{}{first, second, third, fourth}, []interface{}{joined}, &ret)
	return
}
func (ps *PlainServant) Opt(a *VT.OptScalars, b *VT.OptContainers) (ret VT.OptScalars, err error) {
	err = ps.handle("opt", []interface{}{a}, []interface{}{b}, &ret)
	return
}
func (ps *PlainServant) Scalars(b bool, i8 int8, i16 int16, i32 int32, i64 int64, u8 uint8, u16 uint16, u32 uint32, f32 float32, f64 float64, str string, ob *bool, oi8 *int8, oi16 *int16, oi32 *int32, oi64 *int64, ou8 *uint8, ou16 *uint16, ou32 *uint32, of32 *float32, of64 *float64, os *string) (ret int32, err error) {
	err = ps.handle("scalars", []interface{}{b, i8, i16, i32, i64, u8, u16, u32, f32, f64, str}, []interface{}{ob, oi8, oi16, oi32, oi64, ou8, ou16, ou32, of32, of64, os}, &ret)
	return
}
