package vworld

import (
	"context"
	"fmt"
	"reflect"
	"strings"

	"github.com/TarsCloud/TarsGo/tars"
	"github.com/TarsCloud/TarsGo/tars/transport"

	"verif/gen/VI"
	"verif/netlab"
	rc "verif/refcodec"
	"verif/sch"
)

// Param describes one IDL parameter of a function.
type Param struct {
	Name string
	Out  bool
	GoT  reflect.Type // Go type of the value (pointer stripped)
	T    *rc.Type     // schema type
	Tag  int          // positional tag (1-based)
}

// Func describes one interface function.
type Func struct {
	Name   string // IDL name
	GoName string
	Params []Param
	RetGoT reflect.Type // nil for void
	RetT   *rc.Type
}

func upperFirst(s string) string { return strings.ToUpper(s[:1]) + s[1:] }

// LoadFuncs joins the IDL declaration of interface Echo with the generated proxy's method types.
func LoadFuncs(u *sch.Universe) ([]*Func, error) {
	var it *sch.IDLInterface
	for _, f := range u.Files {
		for _, i := range f.Interfaces {
			if i.Name == "Echo" {
				it = i
			}
		}
	}
	if it == nil {
		return nil, fmt.Errorf("interface Echo not found in the IDL sources")
	}
	pt := reflect.TypeOf(&VI.Echo{})
	var out []*Func
	for _, f := range it.Funcs {
		fn := &Func{Name: f.Name, GoName: upperFirst(f.Name)}
		m, ok := pt.MethodByName(fn.GoName + "WithContext")
		if !ok {
			return nil, fmt.Errorf("generated proxy lacks %sWithContext", fn.GoName)
		}
		mt := m.Type // receiver, ctx, params..., opts
		if mt.NumIn() != 3+len(f.Params) {
			return nil, fmt.Errorf("%s: generated proxy takes %d parameters, IDL declares %d", f.Name, mt.NumIn()-3, len(f.Params))
		}
		for i, p := range f.Params {
			gt := mt.In(2 + i)
			if gt.Kind() == reflect.Ptr {
				gt = gt.Elem()
			}
			t, err := u.Defaults.TypeOf(gt, nil)
			if err != nil {
				return nil, err
			}
			fn.Params = append(fn.Params, Param{Name: p.Name, Out: p.Out, GoT: gt, T: t, Tag: i + 1})
		}
		if f.Ret != "void" {
			fn.RetGoT = mt.Out(0)
			t, err := u.Defaults.TypeOf(fn.RetGoT, nil)
			if err != nil {
				return nil, err
			}
			fn.RetT = t
		}
		out = append(out, fn)
	}
	return out, nil
}

// World is one server + one client of the generated interface on an application instance.
type World struct {
	App     *tars.VerifApp
	Servant *Servant
	Plain   *PlainServant // non-nil when the servant is registered without context
	Server  *transport.TarsServer
	Conf    *transport.TarsServerConf
	Proto   *tars.Protocol
	Proxy   *VI.Echo
	Comm    *tars.Communicator
	Obj     string
	// Prefill, when set, is called for every out parameter of a call before it is made, with the
	// variable the proxy will decode into.
	Prefill func(p Param, dst reflect.Value)
}

// NewWorld starts the real server stack for the recording servant on app and connects a
// generated proxy to it.  tap, when non-nil, is an address the client should dial instead of the
// server (a forwarder in between).
func NewWorld(app *tars.VerifApp, conf *transport.TarsServerConf, obj string, clientAddr func(serverAddr string) string) (*World, error) {
	return NewWorldOpt(app, conf, obj, clientAddr, false)
}

// NewWorldOpt is NewWorld; with plain the servant is registered through the context-less servant
// interface (w.Plain announces the token of the single call in flight).
func NewWorldOpt(app *tars.VerifApp, conf *transport.TarsServerConf, obj string, clientAddr func(serverAddr string) string, plain bool) (*World, error) {
	w := &World{App: app, Servant: NewServant(), Conf: conf, Obj: obj}
	if plain {
		w.Plain = &PlainServant{S: w.Servant}
		w.Proto = app.NewProtocol(new(VI.Echo), w.Plain, false)
	} else {
		w.Proto = app.NewProtocol(new(VI.Echo), w.Servant, true)
	}
	srv, err := netlab.StartServer(w.Proto, conf)
	if err != nil {
		return nil, err
	}
	w.Server = srv
	addr := conf.Address
	if clientAddr != nil {
		addr = clientAddr(addr)
	}
	h, p := netlab.HostPort(addr)
	w.Comm = app.NewCommunicator()
	w.Proxy = new(VI.Echo)
	w.Comm.StringToProxy(fmt.Sprintf("%s@%s -h %s -p %s -t 60000", obj, conf.Proto, h, p), w.Proxy)
	return w, nil
}

// CallResult is what the caller got back.
type CallResult struct {
	Ret        interface{}
	Outs       []interface{}
	RspContext map[string]string
	RspStatus  map[string]string
	Err        error
}

// Call invokes fn through the generated proxy by reflection.  ins are Go values of the in
// parameters in order; form is "plain" (no context argument), "ctx" or "oneway".
func (w *World) Call(ctx context.Context, fn *Func, form string, ins []interface{}, reqContext, reqStatus map[string]string) CallResult {
	name := fn.GoName + "WithContext"
	switch form {
	case "oneway":
		name = fn.GoName + "OneWayWithContext"
	case "plain":
		name = fn.GoName
	}
	m := reflect.ValueOf(w.Proxy).MethodByName(name)
	var args []reflect.Value
	if form != "plain" {
		args = append(args, reflect.ValueOf(ctx))
	}
	var outPtrs []reflect.Value
	ii := 0
	for i, p := range fn.Params {
		pt := m.Type().In(len(args))
		_ = i
		if p.Out {
			ptr := reflect.New(p.GoT)
			if w.Prefill != nil {
				w.Prefill(p, ptr.Elem()) // the caller's out variable is in use: it holds something already
			}
			outPtrs = append(outPtrs, ptr)
			args = append(args, ptr)
			continue
		}
		v := reflect.ValueOf(ins[ii])
		ii++
		if pt.Kind() == reflect.Ptr {
			ptr := reflect.New(p.GoT)
			ptr.Elem().Set(v)
			args = append(args, ptr)
		} else {
			args = append(args, v)
		}
	}
	var res CallResult
	switch {
	case reqStatus != nil:
		res.RspContext, res.RspStatus = copyMap(reqContext), copyMap(reqStatus)
		if res.RspContext == nil {
			res.RspContext = map[string]string{}
		}
		args = append(args, reflect.ValueOf(res.RspContext), reflect.ValueOf(res.RspStatus))
	case reqContext != nil:
		res.RspContext = copyMap(reqContext)
		args = append(args, reflect.ValueOf(res.RspContext))
	}
	rets := m.Call(args)
	if e := rets[len(rets)-1]; !e.IsNil() {
		res.Err = e.Interface().(error)
	}
	if fn.RetGoT != nil {
		res.Ret = rets[0].Interface()
	}
	for _, o := range outPtrs {
		res.Outs = append(res.Outs, o.Elem().Interface())
	}
	return res
}
