#!/bin/bash
# Offline setup after a fresh restore: warm the Go build cache for every check (plain and -race
# builds of the harness against /repo with -tags verif) and build tars2go once.  Nothing is fetched.
export GOFLAGS=-mod=mod GOPROXY=off GOSUMDB=off GOTOOLCHAIN=local
HERE="$(cd "$(dirname "${BASH_SOURCE[0]}")" && pwd)"
cd "$HERE/harness" || exit 1
B="$(mktemp -d)"; trap 'rm -rf "$B"' EXIT
go build -tags verif -o "$B/" ./cmd/... || exit 1
for d in c13 c19 c20; do
  [ -d "cmd/$d" ] && { go build -tags verif -race -o "$B/$d.race" "./cmd/$d" || exit 1; }
done
(cd /repo/tars/tools/tars2go && go build -o "$B/tars2go" .) || exit 1
echo "setup ok"
