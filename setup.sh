#!/bin/bash
# Offline setup after a fresh restore: warm the Go build cache by building every check exactly the
# way check.sh builds it (hooks on, -race where used, generated code through the overlay).
# Nothing is fetched.
HERE="$(cd "$(dirname "${BASH_SOURCE[0]}")" && pwd)"
cd "$HERE" || exit 1
rc=0
for d in harness/cmd/c[0-9][0-9]; do
  id="$(basename "$d" | tr a-z A-Z)"
  ./check.sh "$id" build || { echo "setup: build of $id failed"; rc=1; }
done
[ $rc = 0 ] && echo "setup ok"
exit $rc
