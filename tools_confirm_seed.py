#!/usr/bin/env python3
"""tools_confirm_seed.py <Cxx> <mN> [--place REL_DIR] [--cmd 'go test ...']

Independently confirms a seeded change delivered by a sub-agent in /tmp/seed/<Cxx>/out/<mN>/ against
the scratch worktree /tmp/seed/<Cxx>/wt:
  1. patch applies to the clean worktree, `go build ./...` succeeds;
  2. the existing suite (`go test -vet=off -count=1 ./tars/...`, plus the tars2go module when the
     patch touches it) fails nowhere except the pre-existing TestKetamaHashAlg_Hash;
  3. the demonstration fails with the patch and passes without it.
On success the change is stored as /verif/seeded/<Cxx>-<mN>/ (patch.diff, demo, RUN.txt, NOTES.md,
meta.json).  Nothing is ever applied to /repo here.
"""
import json, os, re, shutil, subprocess, sys, glob, time

ENV = dict(os.environ, GOFLAGS="-mod=mod", GOPROXY="off", GOSUMDB="off", GOTOOLCHAIN="local")


def sh(cmd, cwd, timeout=1500):
    p = subprocess.run(cmd, shell=True, cwd=cwd, env=ENV, stdout=subprocess.PIPE, stderr=subprocess.STDOUT, text=True, errors="replace", timeout=timeout)
    return p.returncode, p.stdout


def main():
    cid, mn = sys.argv[1], sys.argv[2]
    place = cmd = None
    cwd_rel = ""
    nocopy = False
    store_as = mn
    a = sys.argv[3:]
    while a:
        if a[0] == "--place":
            place = a[1]; a = a[2:]
        elif a[0] == "--cmd":
            cmd = a[1]; a = a[2:]
        elif a[0] == "--cwd":
            cwd_rel = a[1]; a = a[2:]
        elif a[0] == "--as":
            store_as = a[1]; a = a[2:]
        elif a[0] == "--nocopy":
            nocopy = True; place = "."; a = a[1:]
        else:
            raise SystemExit("bad arg " + a[0])
    base = os.environ.get("SEED_BASE", "/tmp/seed") + f"/{cid}"
    wt = f"{base}/wt"
    out = f"{base}/out/{mn}"
    run_txt = open(f"{out}/RUN.txt").read() if os.path.exists(f"{out}/RUN.txt") else ""
    if place is None:
        m = re.search(re.escape(wt) + r"/([A-Za-z0-9_./-]+)", run_txt)
        if not m:
            raise SystemExit("cannot find placement dir in RUN.txt; use --place")
        place = m.group(1).rstrip("/.")
        if place.endswith(".go"):
            place = os.path.dirname(place)
    if cmd is None:
        m = re.search(r"(go (?:test|run) [^\n]*)", run_txt)
        if not m:
            raise SystemExit("cannot find command in RUN.txt; use --cmd")
        cmd = m.group(1).strip()
    demos = [f for f in glob.glob(f"{out}/*.go")] + [f for f in glob.glob(f"{out}/*.tars")]
    res = {"id": f"{cid}-{store_as}", "property": cid, "place": place, "demo_cmd": cmd, "demo_files": [os.path.basename(d) for d in demos]}
    rc, o = sh("git status --porcelain", wt)
    if o.strip():
        raise SystemExit(f"worktree not clean:\n{o}")
    patch = f"{out}/patch.diff"
    touched = subprocess.run(["git", "apply", "--numstat", patch], cwd=wt, stdout=subprocess.PIPE, text=True).stdout
    res["files_touched"] = [l.split("\t")[2] for l in touched.strip().splitlines()]
    ok = False
    try:
        rc, o = sh(f"git apply {patch}", wt)
        if rc:
            raise SystemExit("patch does not apply: " + o)
        rc, o = sh("go build ./... && go test -vet=off -count=1 -run '^$' ./... >/dev/null", wt)
        res["build_ok"] = rc == 0
        if rc:
            print(o[-2000:]); raise SystemExit("build failed with patch")
        rc, o = sh("go test -vet=off -count=1 ./tars/... 2>&1 | grep -E '^(--- FAIL|FAIL|ok|panic)' ", wt)
        fails = [l for l in o.splitlines() if l.startswith("--- FAIL") or l.startswith("FAIL") or l.startswith("panic")]
        unexpected = [l for l in fails if "TestKetamaHashAlg_Hash" not in l and "selector/consistenthash" not in l and l.strip() != "FAIL"]
        res["suite_fail_lines"] = fails
        if any(x.startswith("tars/tools/tars2go") for x in res["files_touched"]):
            rc2, o2 = sh("go build ./... && go test -vet=off -count=1 ./... 2>&1 | grep -E '^(--- FAIL|FAIL|panic)'", wt + "/tars/tools/tars2go")
            unexpected += [l for l in o2.splitlines() if l.strip() and l.strip() != "FAIL"]
        res["suite_unexpected_failures"] = unexpected
        if unexpected:
            print("\n".join(unexpected)); raise SystemExit("existing suite fails with the patch")
        if not nocopy:
            for d in demos:
                shutil.copy(d, f"{wt}/{place}/")
        t0 = time.time()
        rc, o = sh(cmd, f"{wt}/{cwd_rel}")
        res["demo_with_patch_rc"] = rc
        res["demo_with_patch_tail"] = o[-1200:]
        res["demo_with_patch_s"] = round(time.time() - t0, 1)
        if rc == 0:
            raise SystemExit("demo PASSES with the patch applied")
        sh(f"git apply -R {patch}", wt)
        rc, o = sh(cmd, f"{wt}/{cwd_rel}")
        res["demo_clean_rc"] = rc
        if rc != 0:
            print(o[-2000:]); raise SystemExit("demo FAILS on the clean tree")
        ok = True
    finally:
        for d in ([] if nocopy else demos):
            try:
                os.remove(f"{wt}/{place}/{os.path.basename(d)}")
            except FileNotFoundError:
                pass
        sh("git checkout -- . && git clean -fdq", wt)
    if ok:
        dst = f"/verif/seeded/{cid}-{store_as}"
        os.makedirs(dst, exist_ok=True)
        for f in os.listdir(out):
            if f.endswith(".log"):
                continue
            if os.path.isdir(f"{out}/{f}"):
                shutil.copytree(f"{out}/{f}", f"{dst}/{f}", dirs_exist_ok=True)
            else:
                shutil.copy(f"{out}/{f}", dst)
        notes = open(f"{out}/NOTES.md").read() if os.path.exists(f"{out}/NOTES.md") else ""
        res["breaks"] = cid
        res["needs_to_manifest"] = "see NOTES.md"
        res["confirmed"] = "patch applies; go build ./... ok; go test -vet=off -count=1 ./tars/... shows only the pre-existing TestKetamaHashAlg_Hash failure; demo fails with the patch and passes on the clean tree (run in scratch worktree %s)" % wt
        json.dump(res, open(f"{dst}/meta.json", "w"), indent=1)
        print(f"CONFIRMED {cid}-{store_as} -> {dst}")


if __name__ == "__main__":
    main()
