#!/usr/bin/env python3
"""tools_design.py — assemble /verif/DESIGN.md from design_parts/ (00_head.md, C01..C20.md, 90_tail.md),
the fixed-findings table from known_findings.json + the /repo log, and the seed table from
seeded/RESULTS.md."""
import json, os, subprocess, collections

V = "/verif"


def fixed_table():
    k = json.load(open(f"{V}/known_findings.json"))
    log = subprocess.run(["git", "-C", "/repo", "log", "--format=%h %s"], stdout=subprocess.PIPE, text=True).stdout
    subj = {l.split(" ", 1)[0]: l.split(" ", 1)[1] for l in log.splitlines() if " " in l}
    by = collections.OrderedDict()
    for f in k["findings"]:
        if f["status"] != "fixed":
            continue
        by.setdefault(f["commit"], []).append(f)
    order = [l.split(" ", 1)[0] for l in reversed(log.splitlines())]
    lines = ["| commit | found by | what failed (first witness; all signatures in known_findings.json) | repair |", "|---|---|---|---|"]
    for c in order:
        fs = by.get(c[:7])
        if not fs:
            continue
        props = sorted({f["property"] for f in fs})
        what = fs[0]["what"].split(" ", 3)[3] if fs[0]["what"].startswith("fixed:") else fs[0]["what"]
        if len(what) > 300:
            what = what[:297] + "…"
        more = f" (+{len(fs)-1} more signatures)" if len(fs) > 1 else ""
        lines.append(f"| `{c[:7]}` | {', '.join(props)} | {what.replace('|', '/')}{more} | {subj.get(c, subj.get(c[:7], '')).replace('|', '/')} |")
    n = len([c for c in order if by.get(c[:7])])
    return f"{n} `fix:` commits:\n\n" + "\n".join(lines)


def seed_table():
    p = f"{V}/seeded/RESULTS.md"
    if not os.path.exists(p):
        return "(seeded/RESULTS.md not generated yet)"
    t = open(p).read().split("\n")
    return "\n".join(l for l in t if l.startswith("|") or l.startswith("Summary"))


def latest_evidence(cid):
    """One line from the committed evidence file (the figures in the 'Bounds and cost' paragraphs were recorded when
    each part was written; the workloads have grown since)."""
    p = f"{V}/evidence/{cid}.json"
    if not os.path.exists(p):
        return ""
    e = json.load(open(p))
    cov = e.get("coverage", {})
    ev = cov.get("evaluations", cov.get("cases", "?"))
    di = cov.get("distinct_nontrivial", cov.get("distinct", "?"))
    return (f"*Latest committed evidence (`evidence/{cid}.json`, tier {e.get('tier')}, seed {e.get('seed')}).*  "
            f"{ev} evaluations, {di} distinct, {e.get('violations') if isinstance(e.get('violations'), int) else len(e.get('violations', []))} violations, {e.get('wall_s', '?')} s.\n\n")


def main():
    out = open(f"{V}/design_parts/00_head.md").read()
    for i in range(1, 21):
        out += open(f"{V}/design_parts/C{i:02d}.md").read().rstrip() + "\n\n"
        out += latest_evidence(f"C{i:02d}")
    tail = open(f"{V}/design_parts/90_tail.md").read()
    tail = tail.replace("{FIXED_TABLE}", fixed_table()).replace("{SEED_TABLE}", seed_table())
    out += tail
    open(f"{V}/DESIGN.md", "w").write(out)
    print("DESIGN.md:", len(out.splitlines()), "lines")


if __name__ == "__main__":
    main()
