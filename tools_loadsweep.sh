#!/bin/bash
# tools_loadsweep.sh [hogs] [tier] [first-id] — run the sweep while N busy-loop processes compete for the
# CPUs: a check must stay silent on a loaded machine (timing bounds are verdicts only where
# DESIGN.md says so).  Evidence files are restored from git afterwards.
N="${1:-32}"; T="${2:-quick}"; F="${3:-C01}"
pids=()
for i in $(seq 1 $N); do ( while :; do :; done ) & pids+=($!); done
trap 'kill "${pids[@]}" 2>/dev/null; git -C /verif checkout -- evidence 2>/dev/null' EXIT
/verif/tools_sweep.sh "$T" "$F"
