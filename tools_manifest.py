#!/usr/bin/env python3
"""Regenerates /verif/MANIFEST.json from the table below and validates it against the schema."""
import json, os, subprocess, sys

HERE = os.path.dirname(os.path.abspath(__file__))

CHECKS = {
    "C02": dict(
        technique="runtime monitor: reference-encoder oracle over exhaustive/boundary-dense write-read executions of the real codec",
        text="Every (type, tag, value) case is executed on the real codec.Buffer/Reader; bytes are compared with an independent reference encoder, the read-back value bitwise, the reader offset and a following sentinel exactly. 8/16-bit types x 256 tags are enumerated completely; wider types boundary-dense plus seeded random; every narrower reference encoding is fed to every wider reader. Every read goes into a destination already in use (complemented value), second reads use require=false, and strings are compared again after the input buffer they were read from has been overwritten.",
        note="Trusts the reference encoder in harness/refcodec (written from the wire-format description) and the Go runtime. Wider types are sampled, not enumerated.",
        design="DESIGN.md §4 C02"),
    "C17": dict(
        technique="runtime monitor: generating-model oracle over grammar-generated config documents, fault injection with an error-or-complete oracle, hostile bytes under recover()",
        text="Documents are generated from the config grammar together with their model; the real parser's every getter (GetString/GetMap/GetDomain/GetDomainKey/GetDomainLine and the typed getters) is compared with the model. Nine kinds of syntax fault are injected into valid documents and the oracle accepts an error or a complete parse only. Random and mutated bytes must not panic parser or getters. Lines may be glued to tags without a line break, entries may stand at the top level, and the root's listings are compared. After the comparison a caller-side edit of every listing handed out must not change later answers; zero-padded decimals, base-prefixed integers, lines of 1 MiB and more, and non-blank white space at the edges of keys and values are part of the generated documents. XML declarations in front of the document are a fault kind; a sub-domain asked for as a key answers with the default.",
        note="Trusts the generator's statement of the grammar (trim set ' \\n\\t', first '=' splits, '#' comments, later duplicates win). A key and a sub-domain of one name, keys containing '/', '<', '>' and XML entities/CDATA/']]>' are outside the judged grammar.",
        design="DESIGN.md §4 C17"),
    "C18": dict(
        technique="runtime monitor: model-equality oracle over rendered endpoint strings (all option orders/spacings), registry round trip, real proxy constructor for address lists, hostile strings under recover()",
        text="Endpoints drawn from a model are rendered in every option permutation (<=5 options) and 48 spacing/flag-form styles, parsed by the real Parse and compared field by field (defaults, weight normalisation, key); the registry route is compared with the model and with the direct route's cache key; address lists (incl. trailing ':') go through the real NewServantProxy; every string of length 0..4 over a 9-symbol alphabet plus seeded random strings must not panic. The separator also stands in front of the protocol (96 styles).",
        note="Trusts the model's statement of defaults (timeout 3000, weight -1, weight normalisation). Numeric option values are plain decimals; IPv6 literals are excluded from ':'-separated lists.",
        design="DESIGN.md §4 C18"),
    "C19": dict(
        technique="runtime monitor: logical-clock stamps and gauge on gate-controlled jobs of the real pool, race detector (-race) on gpool state",
        text="Jobs on the real gpool.Pool stamp start/end on a logical clock and keep a running gauge; oracles: per-job execution count, gauge <= workers at every start, workers+1+queue gated submissions complete without a gate opening, Release returns for an idle pool / only after running jobs ended / nothing starts afterwards, no goroutine left after Release; 48 configurations x 4 scenarios; race reports touching gpool are violations. The transport burst also judges the number of handlers waiting at the gate against MaxInvoke. Queue capacities beyond 65536 are part of the capacity scenario. Release right after NewPool must stop every worker.",
        note="Only the interleavings the scheduler and the gates produced. 'Stops all workers' is observed through runtime.NumGoroutine at quiescence. Blocking steps are bounded by a 30 s watchdog.",
        design="DESIGN.md §4 C19"),
    "C20": dict(
        technique="runtime monitor: recording LogWriter + token join over forced (yield-point hook) and natural interleavings, child processes for aged-process flush and panic exit, race detector on rogger",
        text="A recording writer observes what the real flusher hands over; entries logged before the flush request must be written exactly once, undivided, per-goroutine in order when FlushLogger returns. The losing interleaving named in the property is forced deterministically through the verif yield point between the flusher's two selects and also reached naturally; queue occupancies 0/1/100/9999 and over-capacity bursts are produced with a gated writer; child processes (no hook involved) decide the flush of a >1 s old process and the panic-triggered exit for four panic value kinds. One panic child runs with argv[0] in a directory where the stack dump cannot be created. A child whose tars.Run panics during initialisation must still have its earlier entries written.",
        note="In-process trials re-arm the one-shot flush through the verif hook VerifResetFlush, which re-creates the flush contexts; properties of their initial construction are therefore decided by the child-process trials only. A flush taking >= the 1 s flush timeout is inconclusive.",
        design="DESIGN.md §4 C20"),
    "C13": dict(
        technique="runtime monitor: reference member-list model over sequential histories, exact rotation/weighted-cycle counting, porcupine linearizability check of recorded concurrent histories, race detector on selector state, child processes with write-ahead case log",
        text="Every selector (roundrobin, random, modhash, consistent hash Ketama/default; weighted and not) runs seeded Refresh/Add/Remove/Select histories against an ordered-member model (non-member, wrong error, panic = violation); round-robin rotation and the weighted-cycle formula are counted exactly over full cycles, also with 4..16 concurrent selecting goroutines; concurrent histories with updaters are recorded at the call boundary and checked with porcupine against the membership model; race reports with an accessing frame in tars/selector are violations; a crash or CPU-burning hang of the child is attributed to the last announced case. Sequential histories also run over host pools containing hosts that share a Ketama ring point. Four goroutines adding the same endpoint at once: exactly one Add succeeds and a Remove takes it out for good.",
        note="Weighted-cycle formula judged for all-positive static weights only. Members are removed by their stored endpoint value (as the endpoint manager does). Weights for weighted consistent hashing are capped at 2000 (ring size is linear in the weight by design). Manager-level selection is covered under C14/C15.",
        design="DESIGN.md §4 C13"),
    "C14": dict(
        technique="runtime monitor: cross-instance agreement over different histories, independent reference ring / list-slot oracle, before/after disruption comparison on real selector instances",
        text="Target endpoint sets are reached through 3..6 different Refresh/Add/Remove histories on separate real selector instances; all instances must agree on every probed code (every ring point and its +-1 neighbours, 0, 2^32-1, random) and with an independently computed Ketama/default ring where that is unambiguous; removing/adding an endpoint may move only its own codes; mod-hash must map h to slot h mod N of the installed list and, weighted, to a cycle with the formula's counts and period identical across histories. Sets around hosts with colliding virtual points (birthday search in a fixed 3000-host universe) are probed and reported per colliding pair. Manager level: real proxies fed by a fake registrar reach an active set through refreshes that change the set or the weight mode or through a status check that removes a failing endpoint; a client started on the final set must route every code identically (consistent hash) and to slot h mod N of the reported active list (mod hash). Histories include refreshes of the same hosts with other weights or ports first; call contexts derived from one base context must each be routed by their own hash code.",
        note="The 2^32 code space is sampled at the points where the mapping can change. An end-to-end phase sends real calls with a hash code in the context to one scripted server per endpoint and compares the receiving server with the prediction. 12 colliding host pairs are recorded as open known findings.",
        design="DESIGN.md §4 C14"),
    "C03": dict(
        technique="runtime monitor: independent schema-directed reference decoder + canonical-form checker over encodings produced by the real generated code for every struct type in the tree",
        text="Every tars2go-generated struct type found in the working tree (framework bindings + an IDL corpus compiled at check time by the tree's own tars2go; registry rebuilt by scanning the tree) is driven by reflection: values from five generation modes are encoded by the generated code, decoded by it into a fresh struct, decoded by the reference decoder, and the bytes are checked for canonical form (schema tags only, ascending, admissible wire type, required present, narrowest integers); WriteTo/ReadFrom and WriteBlock/ReadBlock at six tags; struct tags cross-checked with the .tars declarations.",
        note="Trusts harness/refcodec and the own .tars reader. Value space sampled. Constructs tars2go cannot compile belong to C16.",
        design="DESIGN.md §4 C03"),
    "C04": dict(
        technique="runtime monitor: differential decoding (with vs. without spliced unknown fields) of reference encodings by the real generated decoders, reader-offset/sentinel probe, default/reuse/required oracles",
        text="Reference encodings of values of every struct type are re-encoded with well-formed unknown fields (25 kinds: every wire type, nesting 6, mixed-width lists, head-like simple-list content, extended tags) at every position tag order allows incl. nested structs, list elements and map values; the generated decoder must succeed with the identical value and ReadBlock must end exactly behind the StructEnd; dropped optional members must decode to the IDL default in fresh and reused targets; each dropped required member must be an error; EvoOld/EvoNew are decoded across versions. Optional members are also left off the wire at every nesting level at once (nested structs, struct elements of vectors, struct values of maps). JSON-version requests with omitted members of struct parameters go through the generated dispatcher: members present plus IDL defaults must reach the implementation. Unknown fields nested 900 and 1200 containers deep and lists of mixed element widths are among the spliced kinds.",
        note="Encodings come from the reference encoder. Quick tier samples 4 extra kinds per insertion point, thorough all 25.",
        design="DESIGN.md §4 C04"),
    "C06": dict(
        technique="runtime monitor: strict reference parser as oracle over exhaustively enumerated damages (prefixes, length inflations, inadmissible wire types) of reference encodings, real decoders in child processes with write-ahead case log",
        text="From reference encodings of values of every generated struct type: every proper prefix, every embedded length inflated, every member / nested member / first element / first map value replaced by each inadmissible wire type; the real generated decoder may fail, or succeed only with exactly the value of the complete fields as determined by the independent strict parser (missing members optional and at default); for type substitutions only failure is accepted. TUP attribute sets and single primitive fields likewise. Children carry an address-space limit and a write-ahead log so that one fatal input does not end the monitor. The result buffer of a response, cut at every prefix and with every embedded length inflated, goes through the generated proxy: the call must end with an error. Lengths with the sign bit set (-1, -2^31 as 4-byte fields) are among the inflations.",
        note="Damage kinds are enumerated exhaustively per encoding; encodings are sampled (4 values per type quick, 40 thorough). Panics / over-allocation caused by damaged input are counted here and judged under C05.",
        design="DESIGN.md §4 C06"),
    "C05": dict(
        technique="runtime monitor: process-level crash/allocation/CPU watchers over hostile inputs in child processes (address-space limit, write-ahead case log), recover()-based panic capture inside the child",
        text="Structure-aware hostile inputs (every embedded length set to -1/-2^31/2^31-1/remaining+1/2^24, every head's wire type swapped, truncations, list counts beyond fixed arrays, nesting bombs of StructBegin/LIST/MAP/mixed up to the 10 MiB maximum packet, random bytes, hostile TUP sets, 0..4-byte frames) are fed to ReadFrom/ReadBlock of every generated struct, UniAttribute.Decode, ResponseUnpack, Protocol.Invoke and InvokeTimeout. A recovered panic, allocation beyond 4096*len+1MiB, CPU beyond 5s/MiB+5s, or the death/hang of the child (attributed to the input logged ahead) is a violation. Unknown (skipped) fields announce hostile lengths, including negative ones that would move the reader back onto the field's own head; a decode that does not return is decided on CPU time per case inside the child. Hostile argument buffers go through the generated dispatcher (TARS, TUP and JSON versions) under the real Protocol.Invoke and hostile result buffers through the generated proxy. A real client process is answered with damaged responses addressed to its pending calls, and a real application receives hostile admin commands; neither process may end.",
        note="Not a coverage-guided fuzzer; reach comes from mutating encodings of every schema. A clean run is 'no crash on K inputs', not memory safety. The live client receive goroutine (AdapterProxy.Recv) is exercised by the RPC checks, not here.",
        design="DESIGN.md §4 C05"),
    "C07": dict(
        technique="runtime monitor: recording protocol objects on the real server/client receive loops, scripted peer with explicit stream partitions, sequence-equality oracle",
        text="Recording ServerProtocol/ClientProtocol objects sit on the real transport.TarsServer and transport.TarsClient loops and record the framing layer's output in order plus every buffer length shown (the read partitions that really occurred); a scripted peer sends packet sequences (1..200 packets, sizes around every boundary incl. max-1 and max) split as single bytes, inside the 4-byte prefix, at packet boundaries +-1, coalesced, randomly, with different pacing, for max-length settings 64/4096/1MiB/10MiB and pool 0/1. Recorded sequence must equal the sent sequence byte for byte and the handler copies must be a permutation; illegal prefixes (0,1,3,max+1,2^31,2^32-1) must close that connection only after the earlier packets were delivered, with a bystander connection unaffected; on the client a broken connection must be followed by a correctly framed new one. A complete packet one byte longer than a small maximum is written in one piece, alone and coalesced behind good packets. TLS 1.2 / 1.3 peers write packets and close cleanly in one piece (data and close_notify in one read); a protocol error must close a connection that carried one-way requests; with a server read timeout, packets arriving with a longer pause inside them are still framed.",
        note="Kernel coalescing decides the receiver's read boundaries; the evidence reports the observed buffer-length sequences. MaxPackageLength is process-global, so settings run one after another.",
        design="DESIGN.md §4 C07"),
    "C12": dict(
        technique="runtime monitor: gate-controlled recording ServerProtocol on the real TarsServer, raw pipelining clients, logical-clock stamps, response/notice/return-time oracles",
        text="A real transport.TarsServer runs a monitor-owned protocol that stamps each request when the framing layer has read it, blocks every handler on a gate and marks one-way requests; raw clients pipeline requests over 1..32 connections so that running, pool-queued and framed-not-started requests exist at the Shutdown call by construction; gate scripts (at once after 0 / 1.3 s, one by one, after the close notice, some never) and clients reset while their requests execute. Every request read before the Shutdown call whose gate opened must be answered exactly once before EOF (one-way: executed, not answered), every live connection must get the reconnect notice, Shutdown must return after the drain (not at its context) and by its context otherwise; pools 0/1/4. A second Shutdown call overlapping the first, and pools without a queue between receive loops and workers, are part of the grid; every Shutdown call that returns before its context expires must return after the requests it had to wait for have finished (logical stamps). Connections idle for a while next to a busy one, handlers finishing more than 3 s after the notice, and a client that has stopped reading while owed a large response (Shutdown must still return with its context) are part of the grid.",
        note="Timing comes from the server's own pollers (500 ms tickers, 2 s idle rule); verdicts on the return time use the context deadline and a 2 s slack. With never-opened gates only requests that started are judged.",
        design="DESIGN.md §4 C12"),
    "C08": dict(
        technique="runtime monitor: token-joined client/server event logs of real ServantProxy callers against a scripted reordering/duplicating/forging server; interval join for id uniqueness",
        text="G callers (2/16/128) share one real proxy (also: two communicators holding proxies for the same object) and call a scripted server that reads every request id with the reference codec and answers by script: in order, reversed or randomly permuted windows, duplicated x2/x5, late (1.5x timeout), dropped, plus responses for ids nobody waits for (far away, already completed at the client, not yet issued) and id-0 pushes. The response for id X carries the token of request X, so a returned foreign token is a misdelivery; ids seen on the wire must be non-zero and distinct among calls overlapping in time (interval join on a logical clock); the id counter is preset to MaxInt32-k to cross the wrap under load. An id-draw stress (hook VerifGenRequestID = the real genRequestID) presets the counter to MaxInt32-k and lets 8 goroutines released together draw 6 ids each, 150000 rounds (2000000 thorough): ids of one round must be non-zero and distinct. A response-cut script and a deterministic cut scenario (the peer dies right behind the request-id field of a longer response, the next call goes over a new connection) decide that bytes of a dead connection are never joined with the next one's. A proxy whose effective timeout is 0 and keep-alive pings (ids never 0, answers never delivered to the push callback) are part of the scripts.",
        note="Only the interleavings that occur; the scripts make the dangerous ones common. The id-wrap batches need the verifmsgid hook and are skipped (and reported as such in the evidence) when it does not compile against the tree.",
        design="DESIGN.md §4 C08"),
    "C09": dict(
        technique="runtime monitor: monotonic call-boundary timing with replay-confirmed overruns, hook probes of in-flight counters and pending-reply tables, token check on a control batch, against fault-script peers",
        text="Real ServantProxy callers (1/8/64, two-way and one-way, tcp and ssl endpoints) run against peers that refuse, black-hole (full accept backlog), accept and stay silent, read and stay silent, reply after 0.5/0.9/1.0(+-400us)/1.1/3x the deadline, close or reset at every point, send four kinds of garbage or never read 1 MiB requests; deadlines come from the proxy timeout, the per-call client timeout and the context deadline. A call must return within deadline + dial bound + 2 s (an overrun only counts when three isolated replays exceed it too), the in-flight counter, pending-reply tables and manager counter must return to their previous values, and after the peer heals a 20-call control batch must succeed with its own tokens. Late-reply scenarios route every other caller through a second proxy for the same object; 24-caller scenarios behind an endpoint whose connection establishment hangs (TCP blackhole, TLS handshake never answered) and scenarios with a bound of 3 calls in flight (refused calls must not stay counted) were added. A goroutine-count comparison around 400 sequential calls (with and without a push callback) checks that returned calls leave no goroutine behind.",
        note="Inherently wall-clock; mitigated by the generous slack and replay confirmation. 'Never returns' is a bounded watchdog (bound + 30 s).",
        design="DESIGN.md §4 C09"),
    "C11": dict(
        technique="runtime monitor: connection ledger of a scripted server joined by token with call outcomes/latencies of a real ServantProxy; transport probe to order calls after the client registered the close",
        text="A scripted server that answers everything it receives closes connections after a response, when idle, abortively, by restart on the same port, after the reconnect notice (also keeping the noticed connection open for a while), right after accept, and goes down while a call is attempted; after each close the monitor waits until the client registered it and issues 1 or 8 concurrent calls after delays on both sides of the sender goroutine's 1 s poll, over many cycles, followed by sequential follow-up calls. Each call must succeed with its own token within half its timeout, its request must arrive exactly once, never on a connection announced as closing, no call may hang, and no further connection may be opened while the current one is healthy. In down-call-up three calls are made while the server is away, single-caller scenarios of that kind with a bound of 4 calls in flight. After a reconnect notice the connection opened for the following calls must stay open and in use.",
        note="Calls racing with the close itself are outside the verdict. Interleavings of the client's sender/receiver goroutines are those that occur over the repeated cycles.",
        design="DESIGN.md §4 C11"),
    "C15": dict(
        technique="runtime monitor: trace assertions P1-P6 over token-joined logs of real calls against scripted per-endpoint servers behind a fake registrar, virtual time through hook-shifted health timestamps and hook-driven status checks",
        text="A real communicator/endpoint manager/adapters resolve 2..4 endpoints (distinct loopback hosts) from a fake registrar; one scripted server per endpoint answers, stays silent or refuses per step; seeded scripts mix call batches (60 ms timeout), behaviour changes, virtual time advances and status checks, and end with a healing tail. Which server receives which token, the active list and the adapters' health records are observed; the assertions check: no removal without / with fewer than two failures, removal after >=5 consecutive failures over >=8 s while another endpoint is active, at most one probe per 27 s to a blocked endpoint, reinstatement iff the probe succeeded, calls still attempted when every endpoint is blocked, and return of every healed endpoint. A third of the call batches have 1-2 calls, every third script starts with a one-failure-then-check prologue, calls alternate between round-robin, mod-hash and consistent-hash routing, and failed calls nobody saw are attributed through the adapters' counters (all blocked and no registry endpoint tried = P6). Registry answers changing in non-identity fields, endpoints answering after the caller's timeout, a probe-window prologue (one probe per 30 s also when status checks pile up while nobody calls) and, in a child process, concurrent callers with every endpoint blocked (hook VerifSelect) are part of the scripts.",
        note="Virtual time shifts lastSuccessTime/lastBlockTime/lastCheckTime (all health comparisons have the form now - stamp >= K) and adds the real seconds elapsed; 3 s margins around the thresholds. The automatic ticker is set to 1 h through the first application's client configuration.",
        design="DESIGN.md §4 C15"),
    "C01": dict(
        technique="runtime monitor: token-joined event log across generated proxy, frame tap, real server stack and recording servant; reflection-driven calls with model-value equality oracles",
        text="Per filter configuration a fresh isolated application runs the real stack (generated proxy -> ServantProxy -> transport client -> frame-parsing, re-chunking tap -> TarsServer -> tars.Protocol -> generated dispatcher -> recording servant) for an interface compiled at check time by the tree's own tars2go (12 functions over every type category, out-before-in, void, many outs). 1/4/32 callers share one proxy; each call draws function, argument values, request context/status maps, a directive for the servant (values, response context/status, tars.Error or plain error) and the proxy form (plain, WithContext, OneWay). Joined by token: executed exactly once, arguments/context/status received == sent, returned values/maps == directive, error code/message == directive, one-way never answered on the wire, pass-through filters seen once in registration order per side and properly nested. Added configurations: the servant registered through the context-less interface (separate dispatcher call emitters), and filters registered after the application's first calls (they must see the calls that follow). Every third call decodes its out parameters into variables the caller has used before (non-empty maps, vectors and byte vectors, set scalars, filled structs). Implementation errors with an empty message are part of the directives (the code must survive).",
        note="The IDL is one hand-written interface (plus the generated-IDL corpus of C16). UDP/TLS transports are outside the statement. Error code 0 / empty messages excluded by design.",
        design="DESIGN.md §4 C01"),
    "C10": dict(
        technique="runtime monitor: raw scripted clients (requests built with the reference codec) against the real server stack with a gate-controlled recording servant; per-request join of responses, identity, codes and execution counts",
        text="The real tars.Protocol + generated dispatcher + recording servant run on real TarsServers (tcp/udp x pool 0/1/4 x handle timeout 0/250 ms). Raw clients pipeline requests over 1/3/10 connections: versions TARS/TUP/JSON, two-way/one-way, success with result values, tars.Error, plain error, tars_ping, unknown function, ids incl. negative/1/MaxInt32, request timeouts. Queue timeout and handle timeout are produced with gates, not sleeps. Per request: number of responses after a quiescence poll (1 / 0 for one-way, never 2), echoed id/version/packet type, TUP reply layout, return code and message, decoded result values per version, and how often the implementation ran (0 for ping, unknown function and queue timeout). Every fourth request calls a void function without parameters; on every other TCP connection the pipelined stream is written in chunks ending 1-3 bytes into the next length prefix. UDP bursts are paced and an unanswered UDP request is judged only while the kernel reports no dropped datagrams for either socket. The queue-timeout case is also run with the handle timeout configured.",
        note="Arguments are those of one function (outFirst) encoded per version; other functions' codecs are covered by C01/C03. The TUP reply layout carries no return code, so codes are judged for TARS and JSON.",
        design="DESIGN.md §4 C10"),
    "C16": dict(
        technique="runtime monitor: child-process pipeline over generated IDL programs (tool exit/CPU-time watchdog, go build, codec-oracle engine on the compiled output), exhaustive token-boundary truncations and mutations for termination, regenerate-and-diff of the checked-in bindings",
        text="Probe programs (one per language construct: every scalar as require/optional/default/vector/array, enums, consts, nested and cross-module structs/enums incl. two include levels, key declarations, interfaces with every parameter kind, keyword-like names) and seeded random programs are run through the working tree's tars2go under a CPU-time watchdog; every emitted package is compiled; the compiled corpus is driven by the codec engine (round trip, reference decoder, canonical form, unknown-field skipping, absent optionals on reuse); every token-boundary truncation, sampled token deletions/duplications/swaps, random bytes, token soup and degenerate megabyte inputs must terminate, truncations inside a definition with a diagnostic; the framework's own IDL is regenerated with the Makefile flags and compared with the checked-in bindings after dropping the banner and gofmt normalisation. Files defining two or three modules (with an include whose types the first and third module use) are among the probes. Every generated interface of the corpus is driven in-process: generated proxy -> generated dispatcher -> recording stub (written by genreg next to the generated code) and back, in the TARS, TUP and JSON protocol versions, with values of all modes and out variables already in use; the implementation must receive what the caller passed and the caller what the implementation produced.",
        note="A grammar-wide sample of programs, not all programs. Generated interfaces are driven in-process only (no transport, filters, contexts or errors: those are decided on the hand-written interface in C01 and C10). IDL keywords as identifiers, escaped quotes in string literals and array lengths given by constants are not part of the generated language.",
        design="DESIGN.md §4 C16"),
}

NOT_BUILT_REASON = "check not built yet in this session (runtime-monitoring design exists in DESIGN.md §4; machinery in progress) — not claimed until its monitor runs silent on the unchanged tree"

ALL = ["C%02d" % i for i in range(1, 21)]


def main():
    hooks_commits = []
    hp = os.path.join(HERE, "MANIFEST.hooks")
    if os.path.exists(hp):
        for l in open(hp):
            l = l.strip()
            if l and not l.startswith("#"):
                hooks_commits.append(l.split()[0])
    m = {
        "version": 1,
        "setup_cmd": "./setup.sh",
        "hooks": {
            "guard": "verif",
            "enable": "go build -tags verif (check.sh passes -tags verif to every build of /repo packages)",
            "baseline_off_cmd": "./baseline_off.sh",
            "source_commits": hooks_commits,
            "add_only": True,
        },
        "engines": [
            {"name": "refcodec", "path": "harness/refcodec", "serves_properties": ["C02", "C03", "C04", "C05", "C06", "C08", "C10"], "kind_free_text": "independent reference implementation of the Tars wire format (strict parser, schema-directed decoder, canonical encoder) used as oracle"},
            {"name": "vlib", "path": "harness/vlib", "serves_properties": ALL, "kind_free_text": "run/evidence/verdict library: seeds, tiers, violation signatures matched against known_findings.json, evidence writer"},
        ],
        "checks": [],
        "not_applicable": [],
        "notes": "Technique family: runtime monitoring and sanitizers. Every check rebuilds from /repo's working tree (module replace => /repo, -tags verif) and decides by an oracle observing executions of the real code. See DESIGN.md.",
    }
    for cid in ALL:
        if cid in CHECKS:
            c = CHECKS[cid]
            m["checks"].append({
                "property_id": cid,
                "quick_cmd": f"./check.sh {cid} quick",
                "thorough_cmd": f"./check.sh {cid} thorough",
                "evidence_file": f"/verif/evidence/{cid}.json",
                "replay_cmd_template": f"./check.sh {cid} replay {{path}}",
                "engine": "harness/cmd/" + cid.lower(),
                "level_claimed": {"category": c.get("category", "exploration"), "text": c["text"], "design_ref": c["design"]},
                "level_note": c["note"],
                "technique": c["technique"],
            })
        else:
            m["not_applicable"].append({"property_id": cid, "reason": NOT_BUILT_REASON})
    json.dump(m, open(os.path.join(HERE, "MANIFEST.json"), "w"), indent=1)
    # validate
    try:
        import jsonschema
    except ImportError:
        r = subprocess.run(["python3-vt", "-c", "import json,jsonschema,sys;jsonschema.validate(json.load(open(sys.argv[1])),json.load(open(sys.argv[2])));print('MANIFEST valid')", os.path.join(HERE, "MANIFEST.json"), "/root/.vp/MANIFEST.schema.json"])
        sys.exit(r.returncode)
    jsonschema.validate(m, json.load(open("/root/.vp/MANIFEST.schema.json")))
    print("MANIFEST valid")


if __name__ == "__main__":
    main()
