#!/usr/bin/env python3
"""tools_recheck_seed.py <seed-id>... — does a stored seeded change still break its own demonstration on
/repo HEAD?  For each seed: scratch worktree of HEAD, apply patch(.rebased).diff, place the demonstration as
meta.json says, run its command, remove the worktree.  Prints one of
  <id> still-a-fault (demo fails with the patch) | no-longer-a-fault (demo passes with the patch) |
  does-not-apply | demo-broken (demo fails on clean HEAD too)
Nothing is written to /repo, /verif/evidence or the seed directories."""
import json, os, re, shutil, subprocess, sys
ENV = dict(os.environ, GOFLAGS="-mod=mod", GOPROXY="off", GOSUMDB="off", GOTOOLCHAIN="local")
def sh(cmd, cwd, timeout=1500):
    p = subprocess.run(cmd, shell=True, cwd=cwd, env=ENV, stdout=subprocess.PIPE, stderr=subprocess.STDOUT, text=True, timeout=timeout)
    return p.returncode, p.stdout
def run_demo(sid, d, m, wt):
    place = m.get("place") or "."
    cmd = m["demo_cmd"]
    cmd = re.sub(r"/tmp/seed\d+/C\d+/wt", wt, cmd)
    cmd = re.sub(r"/tmp/seed\d+/C\d+/out/m\d+", d, cmd)
    copied = []
    if not re.search(r"run_demo\.sh|run\.sh", cmd) or True:
        for f in m.get("demo_files") or []:
            src = os.path.join(d, f)
            if not os.path.exists(src):
                continue
            dst = os.path.join(wt, place, f)
            os.makedirs(os.path.dirname(dst), exist_ok=True)
            if os.path.isdir(src):
                shutil.copytree(src, dst, dirs_exist_ok=True)
            else:
                shutil.copy(src, dst)
            copied.append(dst)
    cwd = wt
    if "./tars/" not in cmd and place.startswith("tars/tools/tars2go") and not cmd.startswith("/"):
        cwd = os.path.join(wt, "tars/tools/tars2go")
    rc, out = sh(cmd, cwd)
    for c in copied:
        if os.path.isdir(c): shutil.rmtree(c, ignore_errors=True)
        elif os.path.exists(c): os.remove(c)
    return rc, out
for sid in sys.argv[1:]:
    d = f"/verif/seeded/{sid}"
    m = json.load(open(f"{d}/meta.json"))
    patch = f"{d}/patch.rebased.diff" if os.path.exists(f"{d}/patch.rebased.diff") else f"{d}/patch.diff"
    wt = f"/tmp/try/recheck-{sid}-{os.getpid()}"
    os.makedirs("/tmp/try", exist_ok=True)
    subprocess.run(["git", "-C", "/repo", "worktree", "add", "--detach", wt, "HEAD", "-q"], check=True)
    try:
        rc0, out0 = run_demo(sid, d, m, wt)
        if subprocess.run(["git", "apply", patch], cwd=wt).returncode != 0:
            print(sid, "does-not-apply", "(demo on clean HEAD: rc=%d)" % rc0); continue
        rc1, out1 = run_demo(sid, d, m, wt)
        if rc0 != 0:
            print(sid, "demo-broken", "(demo fails on clean HEAD: %s)" % out0.strip().splitlines()[-1][:160] if out0.strip() else "")
        elif rc1 != 0:
            print(sid, "still-a-fault")
        else:
            print(sid, "no-longer-a-fault")
    finally:
        subprocess.run(["git", "-C", "/repo", "worktree", "remove", "--force", wt])
