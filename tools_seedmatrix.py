#!/usr/bin/env python3
"""tools_seedmatrix.py [-j N] [--tier quick] [ids...] — run every confirmed seeded change in
/verif/seeded against the check of its property: a scratch worktree of /repo HEAD under /tmp/mx gets
the patch (patch.rebased.diff when present), `VERIF_REPO=<worktree> VERIF_OUT=<scratch> ./check.sh
<Cxx> quick` runs there (and, if that misses, the checks named in meta.json "also_checks"), the
worktree is removed.  /repo itself and /verif/evidence are not touched.  Writes
/verif/seeded/results.json and /verif/seeded/RESULTS.md.  ids: seed ids (C07-m2) or properties (C07)."""
import json, os, subprocess, sys, time, glob, re, shutil
from concurrent.futures import ThreadPoolExecutor
import threading

GITLOCK = threading.Lock()

SEEDED = "/verif/seeded"
MX = "/tmp/mx"


def sh(cmd, timeout=3600, env=None):
    p = subprocess.run(cmd, shell=True, stdout=subprocess.PIPE, stderr=subprocess.STDOUT, text=True, timeout=timeout, env=env)
    return p.returncode, p.stdout


def run_check(cid, wt, out, tier):
    t0 = time.time()
    env = dict(os.environ, VERIF_REPO=wt, VERIF_OUT=out)
    try:
        rc, o = sh(f"/verif/check.sh {cid} {tier}", timeout=3600, env=env)
    except subprocess.TimeoutExpired:
        return {"check": cid, "outcome": "check-timeout", "seconds": round(time.time() - t0)}
    vio = [l for l in o.splitlines() if l.startswith("VIOLATION")]
    classes = re.findall(r"class=(\S+)(?: locus=(\S+))?", o)
    outcome = "detected" if (rc == 1 and vio) else ("missed" if rc == 0 else f"rc={rc}")
    r = {"check": cid, "outcome": outcome, "seconds": round(time.time() - t0), "signatures": [f"{c}|{l}" if l else c for c, l in classes][:6]}
    if outcome.startswith("rc="):
        r["tail"] = o[-600:]
    return r


def one(sid, tier):
    d = f"{SEEDED}/{sid}"
    meta = json.load(open(f"{d}/meta.json")) if os.path.exists(f"{d}/meta.json") else {}
    cid = sid.split("-")[0]
    patch = f"{d}/patch.rebased.diff" if os.path.exists(f"{d}/patch.rebased.diff") else f"{d}/patch.diff"
    entry = {"seed": sid, "property": cid, "patch": os.path.basename(patch)}
    for k in ("neutralised_by", "note"):
        if meta.get(k):
            entry[k] = meta[k]
    wt, out = f"{MX}/{sid}", f"{MX}/{sid}.out"
    with GITLOCK:
        sh(f"git -C /repo worktree remove --force {wt}; rm -rf {wt} {out}")
        rc, o = sh(f"git -C /repo worktree add --detach {wt} HEAD")
    if rc != 0:
        entry["status"] = "worktree-failed"
        entry["note"] = o[-200:]
        return entry
    try:
        rc, o = sh(f"git -C {wt} apply {patch}")
        if rc != 0:
            entry["status"] = "does-not-apply-to-head"
            entry.setdefault("note", o.strip().splitlines()[-1] if o.strip() else "")
            return entry
        runs = [run_check(cid, wt, out, tier)]
        if runs[0]["outcome"] != "detected":
            for other in meta.get("also_checks", []):
                runs.append(run_check(other, wt, out, tier))
        entry["runs"] = runs
        entry["status"] = "detected" if any(r["outcome"] == "detected" for r in runs) else "missed"
        return entry
    finally:
        with GITLOCK:
            sh(f"git -C /repo worktree remove --force {wt}; rm -rf {wt} {out}")


def write_md(results):
    lines = ["# Seeded changes vs. checks", "",
             "Every confirmed seeded change (see each directory's meta.json / NOTES.md) applied to a scratch worktree of /repo HEAD, the quick check of its property run against that worktree (tools_seedmatrix.py), the worktree removed.", "",
             "| seed | patch | outcome | detecting check (s): first signatures | note |", "|---|---|---|---|---|"]
    n = {"detected": 0, "missed": 0, "other": 0}
    for sid in sorted(results):
        e = results[sid]
        det = ""
        for r in e.get("runs", []):
            if r["outcome"] == "detected":
                det = f"{r['check']} ({r['seconds']} s): " + "; ".join(r.get("signatures", [])[:2])
                break
        note = e.get("note", "")
        if e.get("neutralised_by"):
            note = ("neutralised by " + e["neutralised_by"] + ". " + note).strip()
        st = e["status"]
        if st == "missed" and e.get("neutralised_by"):
            # confirmed separately: with the patch applied to HEAD the seed's own demonstration passes
            st = "no longer a fault on HEAD"
        n[st if st in n else "other"] += 1
        lines.append(f"| {sid} | {e['patch']} | {st} | {det.replace('|', '/')} | {note.replace('|', '/')} |")
    lines += ["", f"Summary: {n['detected']} detected, {n['missed']} missed, {n['other']} neutralised by a later fix: commit (patch does not apply, or its own demonstration passes with the patch on HEAD) (of {len(results)})."]
    open(f"{SEEDED}/RESULTS.md", "w").write("\n".join(lines) + "\n")


def main():
    a = sys.argv[1:]
    j, tier = 3, "quick"
    while a and a[0].startswith("-"):
        if a[0] == "-j":
            j = int(a[1]); a = a[2:]
        elif a[0] == "--tier":
            tier = a[1]; a = a[2:]
        else:
            raise SystemExit("bad option " + a[0])
    only = a
    rp = f"{SEEDED}/results.json"
    results = json.load(open(rp)) if os.path.exists(rp) else {}
    sids = []
    for d in sorted(glob.glob(f"{SEEDED}/C*-m*")):
        sid = os.path.basename(d)
        if only and sid not in only and sid.split("-")[0] not in only:
            continue
        sids.append(sid)
    os.makedirs(MX, exist_ok=True)
    with ThreadPoolExecutor(max_workers=j) as ex:
        for entry in ex.map(lambda s: one(s, tier), sids):
            results[entry["seed"]] = entry
            print(entry["seed"], entry["status"], [(r["check"], r["outcome"], r["seconds"]) for r in entry.get("runs", [])], flush=True)
            json.dump(results, open(rp, "w"), indent=1)
            write_md(results)
    write_md(results)


if __name__ == "__main__":
    if sys.argv[1:] == ["--md"]:
        res = json.load(open(f"{SEEDED}/results.json"))
        for sid in res:
            mp = f"{SEEDED}/{sid}/meta.json"
            if os.path.exists(mp):
                m = json.load(open(mp))
                for k in ("neutralised_by", "note"):
                    if m.get(k):
                        res[sid][k] = m[k]
        write_md(res)
    else:
        main()
