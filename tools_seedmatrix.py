#!/usr/bin/env python3
"""tools_seedmatrix.py [ids...] — run every confirmed seeded change in /verif/seeded against the check
of its property (quick tier): apply to /repo, run, undo.  Writes /verif/seeded/results.json and
/verif/seeded/RESULTS.md.  Extra checks to try for a seed can be given in its meta.json as
"also_checks": ["C01"]."""
import json, os, subprocess, sys, time, glob, re

SEEDED = "/verif/seeded"


def sh(cmd, timeout=2400):
    p = subprocess.run(cmd, shell=True, stdout=subprocess.PIPE, stderr=subprocess.STDOUT, text=True, timeout=timeout)
    return p.returncode, p.stdout


def run_check(cid):
    t0 = time.time()
    try:
        rc, out = sh(f"/verif/check.sh {cid} quick", timeout=2400)
    except subprocess.TimeoutExpired:
        return {"check": cid, "outcome": "check-timeout", "seconds": round(time.time() - t0)}
    vio = [l for l in out.splitlines() if l.startswith("VIOLATION")]
    classes = re.findall(r"class=(\S+) locus=(\S+)", out)
    outcome = "detected" if (rc == 1 and vio) else ("missed" if rc == 0 else f"rc={rc}")
    return {"check": cid, "outcome": outcome, "seconds": round(time.time() - t0), "signatures": [f"{c}|{l}" for c, l in classes][:6]}


def main():
    only = sys.argv[1:]
    results = {}
    rp = f"{SEEDED}/results.json"
    if os.path.exists(rp):
        results = json.load(open(rp))
    for d in sorted(glob.glob(f"{SEEDED}/C*-m*")):
        sid = os.path.basename(d)
        if only and sid not in only and sid.split("-")[0] not in only:
            continue
        meta = json.load(open(f"{d}/meta.json")) if os.path.exists(f"{d}/meta.json") else {}
        cid = sid.split("-")[0]
        patch = f"{d}/patch.rebased.diff" if os.path.exists(f"{d}/patch.rebased.diff") else f"{d}/patch.diff"
        rc, out = sh(f"git -C /repo apply --check {patch}")
        entry = {"seed": sid, "property": cid, "patch": os.path.basename(patch)}
        if rc != 0:
            entry["status"] = "does-not-apply-to-head"
            entry["note"] = out.strip().splitlines()[-1] if out.strip() else ""
            results[sid] = entry
            print(sid, entry["status"])
            continue
        sh(f"git -C /repo apply {patch}")
        try:
            runs = [run_check(cid)]
            if runs[0]["outcome"] != "detected":
                for other in meta.get("also_checks", []):
                    runs.append(run_check(other))
        finally:
            sh("git -C /repo checkout -- . && git -C /repo clean -fdq")
        entry["runs"] = runs
        entry["status"] = "detected" if any(r["outcome"] == "detected" for r in runs) else "missed"
        if meta.get("neutralised_by"):
            entry["neutralised_by"] = meta["neutralised_by"]
        results[sid] = entry
        print(sid, entry["status"], [(r["check"], r["outcome"], r["seconds"]) for r in runs])
        json.dump(results, open(rp, "w"), indent=1)
    # evidence files were rewritten by mutated runs: restore them from git
    sh("git -C /verif checkout -- evidence")
    lines = ["# Seeded changes vs. checks", "", "Every confirmed seeded change (see each directory's meta.json / NOTES.md) applied to /repo HEAD, the quick check of its property run, the change undone.", "",
             "| seed | property | patch | outcome | detecting check: first signatures | note |", "|---|---|---|---|---|---|"]
    for sid in sorted(results):
        e = results[sid]
        det = ""
        for r in e.get("runs", []):
            if r["outcome"] == "detected":
                det = f"{r['check']} ({r['seconds']} s): " + "; ".join(r.get("signatures", [])[:2])
                break
        note = e.get("note", "")
        if e.get("neutralised_by"):
            note = "neutralised by " + e["neutralised_by"]
        lines.append(f"| {sid} | {e['property']} | {e['patch']} | {e['status']} | {det} | {note} |")
    open(f"{SEEDED}/RESULTS.md", "w").write("\n".join(lines) + "\n")


if __name__ == "__main__":
    main()
