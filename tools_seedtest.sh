#!/bin/bash
# tools_seedtest.sh <patch.diff> <Cxx> [tier]  — apply a seeded change to /repo, run the check, undo.
P="$1"; ID="$2"; T="${3:-quick}"
git -C /repo apply "$P" || { echo "patch does not apply"; exit 9; }
trap 'git -C /repo checkout -- . ; git -C /repo status --short | head -3' EXIT
cp /verif/evidence/$ID.json /tmp/.ev_$ID.bak 2>/dev/null
/verif/check.sh "$ID" "$T" 2>&1 | grep -E 'VIOLATION|KNOWN-FINDING|SUMMARY|class=|INCONCLUSIVE|BUILD-FAILED|panic|fatal' | head -${LINES_MAX:-12}
echo "rc=${PIPESTATUS[0]}"
cp /tmp/.ev_$ID.bak /verif/evidence/$ID.json 2>/dev/null
