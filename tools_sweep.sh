#!/bin/bash
# tools_sweep.sh [tier] — run every registered check once, print one line each.
# tools_sweep.sh [tier] [first-id] — start at first-id when given.
T="${1:-quick}"
FROM="${2:-C01}"
for id in $(python3 -c "import json;print(' '.join(c['property_id'] for c in json.load(open('/verif/MANIFEST.json'))['checks']))"); do
  [[ "$id" < "$FROM" ]] && continue
  s=$(date +%s)
  out=$(/verif/check.sh $id $T 2>&1); rc=$?
  echo "$id rc=$rc $(( $(date +%s)-s ))s $(echo "$out" | grep -E '^SUMMARY' | cut -c1-140) $(echo "$out" | grep -c '^VIOLATION') violations $(echo "$out" | grep -c '^KNOWN-FINDING') known"
done
