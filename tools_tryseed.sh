#!/bin/bash
# tools_tryseed.sh <seed-id> [check-id] [tier] — apply one stored seeded change to a scratch worktree of
# /repo HEAD, run a check against it (VERIF_REPO/VERIF_OUT), remove the worktree.  Does not touch
# /repo, /verif/evidence or seeded/results.json.  SEED_DIR=<dir with patch.diff> tries a change that is not stored yet.
S="$1"; C="${2:-${S%%-*}}"; T="${3:-quick}"
D=${SEED_DIR:-/verif/seeded/$S}
P=$D/patch.diff; [ -f $D/patch.rebased.diff ] && P=$D/patch.rebased.diff
W=/tmp/try/$S.$$
mkdir -p /tmp/try
git -C /repo worktree add --detach $W HEAD -q || exit 3
git -C $W apply $P || { echo "patch does not apply"; git -C /repo worktree remove --force $W; exit 3; }
VERIF_REPO=$W VERIF_OUT=$W.out /verif/check.sh $C $T 2>&1 | grep -E "^(VIOLATION|  class=|SUMMARY|KNOWN|INCONCLUSIVE|BUILD)" | cut -c1-400 | head -${LINES_MAX:-12}
git -C /repo worktree remove --force $W; rm -rf $W.out
